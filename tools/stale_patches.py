#!/venv/bin/python
"""List patches under /verif/seeded and /verif/benign whose context no longer matches /repo (strict in-memory applier)."""
import sys
from pathlib import Path
ROOT = Path(__file__).resolve().parent.parent
sys.path.insert(0, str(ROOT))
from mystsa.seedreg import parse_patch, apply_hunks, Stale
from mystsa.corpus import REPO
for root in ("benign", "seeded"):
    for d in sorted((ROOT / root).iterdir()):
        p = d / "patch.diff"
        if not p.is_file():
            continue
        try:
            for rel, h in parse_patch(p.read_text()).items():
                if rel.startswith("myst_parser/") and rel.endswith(".py"):
                    apply_hunks((REPO / rel).read_text(), h)
        except Stale as e:
            print(root, d.name, e)
