#!/bin/sh
# tools/seedcheck.sh <patch.diff> [props...]: run checks against a scratch worktree of /repo with the
# seeded patch applied (no evidence written, /repo untouched). For development only; the registered
# checks always analyse /repo itself.
set -e
patch="$1"; shift
wt=$(mktemp -d /tmp/seedchk.XXXXXX)
git -C /repo worktree add --detach "$wt" HEAD -q
trap 'git -C /repo worktree remove --force "$wt"' EXIT
git -C "$wt" apply "$patch"
props="$*"
[ -n "$props" ] || props=$(ls /verif/mystsa/rules/c[0-9][0-9].py | sed 's/.*\/c\([0-9]*\).py/C\1/')
for p in $props; do
  out=$(MYSTSA_REPO="$wt" MYSTSA_NOWRITE=1 MYSTSA_NO_SELFTEST=1 /verif/check "$p" --tier quick 2>&1) && rc=0 || rc=$?
  echo "== $p rc=$rc"
  echo "$out" | grep -E "^(VIOLATION|ANALYSIS-ERROR|    (rule|key|what)=)" | sed "s#$wt/##" | head -20
done
