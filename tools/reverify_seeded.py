#!/usr/bin/env python3
"""Re-confirm every seeded change under /verif/seeded against the current /repo HEAD and the current checks
(tools/verify_seed.sh) and refresh `confirmed`, `caught_by`, `analysis_error_in` in each meta.json."""
import json, re, subprocess, sys
from concurrent.futures import ThreadPoolExecutor
from pathlib import Path

ROOT = Path(__file__).resolve().parent.parent
dirs = sorted(p for p in (ROOT / "seeded").iterdir() if (p / "patch.diff").is_file())
if len(sys.argv) > 1:  # optional regex on the seed id
    dirs = [d for d in dirs if re.search(sys.argv[1], d.name)]


def run(d):
    out = subprocess.run([str(ROOT / "tools" / "verify_seed.sh"), str(d)], capture_output=True, text=True).stdout.strip().splitlines()
    return d, json.loads(out[-1]) if out else {"applies": False}


bad = []
with ThreadPoolExecutor(8) as ex:
    for d, r in ex.map(run, dirs):
        meta = json.loads((d / "meta.json").read_text())
        if not r.get("applies"):
            meta["confirmed"] = {"applies_to_head": False}
            bad.append((d.name, "does not apply"))
        else:
            caught = re.findall(r"(C\d\d):rc1\[([^\]]*)\]", r["checks"])
            errs = re.findall(r"(C\d\d):rc2\[([^\]]*)\]", r["checks"])
            meta["confirmed"] = {"demo_without_change": r["demo_without"], "demo_with_change": r["demo_with"], "suite": r["suite"]}
            meta["caught_by"] = [{"check": c, "rules": [x for x in rules.split(",") if x and not x.startswith("E:")]} for c, rules in caught]
            meta["analysis_error_in"] = [{"check": c, "rules": [x for x in rules.split(",") if x]} for c, rules in errs]
            if r["demo_without"] != 0 or r["demo_with"] == 0 or (r["suite"] != "same" and "<" in r["suite"]):
                bad.append((d.name, f"no longer confirmed: {r}"))
            elif not caught:
                bad.append((d.name, f"NOT CAUGHT: {r['checks']}"))
            elif errs:
                bad.append((d.name, f"caught, but analysis errors: {r['checks']}"))
        (d / "meta.json").write_text(json.dumps(meta, indent=1) + "\n")
print(f"{len(dirs)} seeded changes re-verified; {len(bad)} need attention")
for b in bad:
    print(*b)
