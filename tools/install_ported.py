#!/usr/bin/env python3
"""tools/install_ported.py <port root> : copy re-ported patches (patch.ported.diff, demo.ported.py) from <root>/*/{seed,benign}-<name>/ into
/verif/seeded|benign/<name>/, drop the ones marked NOT_PORTABLE (recorded in DROPPED.txt)."""
import json, shutil, sys
from pathlib import Path

ROOT = Path(__file__).resolve().parent.parent
port = Path(sys.argv[1])
n_ok = n_drop = 0
for d in sorted(port.glob("*/*-*")):
    if not d.is_dir() or d.name == "wt":
        continue
    kind, name = d.name.split("-", 1)
    if kind not in ("seed", "benign"):
        continue
    dest = ROOT / ("seeded" if kind == "seed" else "benign") / name
    if not dest.is_dir():
        continue
    if (d / "NOT_PORTABLE.txt").is_file():
        reason = " ".join((d / "NOT_PORTABLE.txt").read_text().split())[:300]
        with open(dest.parent / "DROPPED.txt", "a") as f:
            f.write(f"{name} dropped: {reason}\n")
        shutil.rmtree(dest)
        n_drop += 1
        continue
    if not (d / "patch.ported.diff").is_file():
        print("!! nothing ported for", d)
        continue
    shutil.copy(d / "patch.ported.diff", dest / "patch.diff")
    if (d / "demo.ported.py").is_file():
        shutil.copy(d / "demo.ported.py", dest / "demo.py")
    if kind == "seed":
        m = json.loads((dest / "meta.json").read_text())
        m["ported_to_current_head"] = True
        m["ported_note"] = "re-ported after later fix: commits by an agent that never saw /verif"
        (dest / "meta.json").write_text(json.dumps(m, indent=1) + "\n")
    n_ok += 1
print(f"{n_ok} installed, {n_drop} dropped")
