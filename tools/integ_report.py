#!/usr/bin/env python3
"""tools/integ_report.py <series.json>... : map the integrators' records to the commits that landed on /repo main (by subject),
append `fixed:` lines to known_findings.json (idempotent) and print per-property sections for the builders' brief."""
import json, subprocess, sys
from pathlib import Path

ROOT = Path(__file__).resolve().parent.parent
log = subprocess.run(["git", "-C", "/repo", "log", "--format=%h\t%s", "-300"], capture_output=True, text=True).stdout.splitlines()
by_subject = {l.split("\t", 1)[1]: l.split("\t", 1)[0] for l in log if "\t" in l}
kf = json.loads((ROOT / "known_findings.json").read_text())
sections: dict[str, list[str]] = {}
added = 0
for f in sys.argv[1:]:
    for r in json.loads(Path(f).read_text()):
        prop = r["property"]
        d = r["finding"]
        if r["decision"] == "FIX":
            sha = by_subject.get(r["subject"])
            if not sha:
                print(f"!! not on main: {r['subject']}", file=sys.stderr)
                continue
            line = f"fixed: property={prop} {sha} {r['what_failed']} (found by a bug-hunting agent probing the unchanged tree; {r.get('site','')})"
            if not any(f" {sha} " in x for x in kf["fixed"]):
                kf["fixed"].append(line)
                added += 1
            sections.setdefault(prop, []).append(f"- FIXED in /repo `{sha}` ({r.get('site','')}; finding `{d}`): {r['what_failed']}")
        elif r["decision"] == "KNOWN":
            sections.setdefault(prop, []).append(f"- KNOWN, not repaired ({r.get('site','')}; finding `{d}`): {r['what_failed']} -- why not repaired: {r['reason']}")
        elif r["decision"] == "REJECT":
            sections.setdefault(prop, []).append(f"- rejected ({d}): {r['reason'][:200]}")
(ROOT / "known_findings.json").write_text(json.dumps(kf, indent=1) + "\n")
print(f"<!-- {added} fixed lines added -->")
for p in sorted(sections):
    print(f"## {p}")
    print("\n".join(sections[p]))
    print()
