#!/usr/bin/env python3
"""Run every check on every behaviour-preserving patch under /verif/benign/<id>/ (scratch worktree of /repo HEAD,
no evidence written) and record the verdicts in /verif/benign/results.json. Any VIOLATION is a false alarm."""
import json, re, subprocess, sys
from concurrent.futures import ThreadPoolExecutor
from pathlib import Path

ROOT = Path(__file__).resolve().parent.parent
dirs = sorted(p for p in (ROOT / "benign").iterdir() if (p / "patch.diff").is_file())


def run(d: Path):
    out = subprocess.run([str(ROOT / "tools" / "verify_benign.sh"), str(d)], capture_output=True, text=True).stdout.strip()
    return d, out


rows = []
with ThreadPoolExecutor(8) as ex:
    for d, out in ex.map(run, dirs):
        meta = json.loads((d / "meta.json").read_text())
        res = out.split("|", 1)[1].strip() if "|" in out else out
        viol = re.findall(r"(C\d\d):rc1\[([^\]]*)\]", res) + [(c, r) for c, r in re.findall(r"(C\d\d):rc2\[([^\]]*)\]", res) if any(not x.startswith("E:") for x in r.split(",") if x)]
        errs = [(c, r) for c, r in re.findall(r"(C\d\d):rc2\[([^\]]*)\]", res)]
        if "DOES-NOT-APPLY" in out:
            result = "does not apply to the current HEAD (superseded by a later fix)"
        elif viol:
            result = "FALSE ALARM: " + res
        elif errs:
            result = "ANALYSIS-ERROR: " + res
        else:
            result = "PASS (all 20 checks exit 0)"
        rows.append({"id": d.name, "kind": meta.get("kind"), "functions": meta.get("functions"), "result": result})
n = len(rows)
ok = sum(r["result"].startswith("PASS") for r in rows)
fa = sum(r["result"].startswith("FALSE") for r in rows)
er = sum(r["result"].startswith("ANALYSIS") for r in rows)
summary = f"{ok} of {n} behaviour-preserving patches pass all 20 checks; {fa} draw a false VIOLATION; {er} draw an ANALYSIS-ERROR (exit 2)."
(ROOT / "benign" / "results.json").write_text(json.dumps({"summary": summary, "rows": rows}, indent=1) + "\n")
print(summary)
for r in rows:
    if not r["result"].startswith("PASS"):
        print(r["id"], r["result"])
