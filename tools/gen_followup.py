#!/usr/bin/env python3
"""tools/gen_followup.py <seed root> <verify.jsonl> [--ignore CNN ...] -> per-property list of seeds with the first verdict
(for the brief sent to the rule-module builders after a seeding round)."""
import json, re, sys
from pathlib import Path

root, ver = Path(sys.argv[1]), sys.argv[2]
ignore = set(sys.argv[4:]) if len(sys.argv) > 3 and sys.argv[3] == "--ignore" else set()
rows = {}
for l in open(ver):
    r = json.loads(l)
    rows[r["id"]] = r
by = {}
for sid, r in sorted(rows.items()):
    m = re.match(r"c(\d\d)-(\w+)", sid)
    prop = "C" + m.group(1)
    d = root / f"out-c{m.group(1)}" / m.group(2)
    meta = json.loads((d / "meta.json").read_text())
    checks = {c: (int(rc), rules) for c, rc, rules in re.findall(r"(C\d\d):rc(\d)\[([^\]]*)\]", r.get("checks", ""))}
    own = checks.get(prop)
    others = {c: v for c, v in checks.items() if c != prop and not (c in ignore)}
    if own and own[0] == 1:
        verdict = f"caught by {prop} {own[1].rstrip(',')}"
    elif own and own[0] == 2:
        verdict = f"ANALYSIS-ERROR only in {prop} {own[1].rstrip(',')}"
    else:
        verdict = f"MISSED by {prop}"
    if others:
        verdict += " (other checks: " + ", ".join(f"{c} rc{v[0]} {v[1].rstrip(',')}" for c, v in others.items()) + ")"
    summ = meta.get("summary") or meta.get("description") or ""
    by.setdefault(prop, []).append(f"- seed `{d}` [{verdict}]: {summ[:420]}")
    for c, v in others.items():
        if v[0] == 2:
            by.setdefault(c, []).append(f"- (other property's seed) `{d}` makes your check stop with ANALYSIS-ERROR {v[1].rstrip(',')}: turn it into a decision (PASS if your property is unaffected, VIOLATION if it is)")
for p in sorted(by):
    print(f"## {p}")
    print("\n".join(by[p]))
    print()
