#!/bin/bash
# tools/verify_seed.sh <seed dir with patch.diff demo.py meta.json> -> prints one JSON line
# Confirms a seeded change: applies to /repo HEAD, suite failure set == baseline, demo fails with / passes without,
# then runs every check against the patched scratch worktree (no evidence written, /repo untouched).
d="${1%/}"; id=$(echo "$d" | sed -E 's#.*/out-(c[0-9]+)/([^/]+)/?$#\1-\2#'); case "$id" in */*) id=$(basename "$d");; esac
patch="$d/patch.diff"; [ -f "$d/patch.ported.diff" ] && patch="$d/patch.ported.diff"
wt=$(mktemp -d /tmp/seedver.XXXXXX); git -C /repo worktree add --detach "$wt" HEAD -q
cleanup(){ git -C /repo worktree remove --force "$wt" 2>/dev/null; }
trap cleanup EXIT
cd "$wt"
base=/tmp/seed/baseline_failures.txt
if [ ! -s $base ]; then echo "no baseline" >&2; exit 3; fi
( /venv/bin/python "$d/demo.py" >/dev/null 2>&1 ); rc_without=$?
if ! git apply "$patch" 2>/dev/null; then echo "{\"id\":\"$id\",\"applies\":false}"; exit 0; fi
( /venv/bin/python "$d/demo.py" >/dev/null 2>&1 ); rc_with=$?
/venv/bin/python -m pytest -q -p no:cacheprovider --timeout=900 2>/dev/null | grep -E "^FAILED" | sed 's/ - .*//' | sort > "$wt/.fails"
if diff -q "$wt/.fails" $base >/dev/null; then suite=same; else suite="DIFF:$(diff "$wt/.fails" $base | grep '^[<>]' | head -3 | tr '\n' ' ' | tr '"' "'")"; fi
res=""
for p in $(ls /verif/mystsa/rules/c[0-9][0-9].py | sed 's/.*\/c\([0-9]*\).py/C\1/'); do
  out=$(MYSTSA_REPO="$wt" MYSTSA_NOWRITE=1 MYSTSA_NO_SELFTEST=1 /verif/check "$p" --tier quick 2>&1); rc=$?
  if [ $rc -ne 0 ]; then
    rules=$(echo "$out" | grep -E "^    rule=|^ANALYSIS-ERROR" | sed -E 's/^    rule=([A-Z0-9.]+).*/\1/; s/^ANALYSIS-ERROR property=[A-Z0-9]+ rule=([A-Z0-9.]+).*/E:\1/' | sort -u | tr '\n' ',')
    res="$res $p:rc$rc[$rules]"
  fi
done
echo "{\"id\":\"$id\",\"applies\":true,\"demo_without\":$rc_without,\"demo_with\":$rc_with,\"suite\":\"$suite\",\"checks\":\"$res\"}"
