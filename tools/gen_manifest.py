#!/usr/bin/env python3
"""Regenerate MANIFEST.json from the rule modules that exist (run from /verif)."""

import importlib
import json
import sys
from pathlib import Path

ROOT = Path(__file__).resolve().parent.parent
sys.path.insert(0, str(ROOT))

BASELINE = (
    "cd /repo && /venv/bin/python -m pytest -ra -q -p no:cacheprovider --timeout=900 "
    "--continue-on-collection-errors --junitxml=/tmp/myst_baseline.junit.xml"
)

TECHNIQUE = {
    "C01": "inter-procedural exception-escape analysis (handler-filtered summaries, call-graph fixpoint) + guard/loop-variant rules",
    "C14": "call-site rules over the AST with backwards argument tracing through wrappers",
}


def main() -> None:
    checks = []
    na = []
    for i in range(1, 21):
        pid = f"C{i:02d}"
        try:
            mod = importlib.import_module(f"mystsa.rules.{pid.lower()}")
        except ModuleNotFoundError:
            na.append({"property_id": pid, "reason": "check not built yet (DESIGN.md section 9 build order); no claim is made"})
            continue
        ready_override = json.loads((ROOT / "tools" / "ready.json").read_text()) if (ROOT / "tools" / "ready.json").is_file() else {}
        if not (getattr(mod, "READY", False) or ready_override.get(pid)):
            na.append({"property_id": pid, "reason": "rules under construction / findings on the pinned tree not yet triaged; no claim is made until the check passes on the unchanged tree"})
            continue
        meta = mod.META
        checks.append(
            {
                "property_id": pid,
                "quick_cmd": f"./check {pid} --tier quick",
                "thorough_cmd": f"./check {pid} --tier thorough",
                "evidence_file": f"/verif/evidence/{pid}.json",
                "replay_cmd_template": "./check --replay {path}",
                "engine": "mystsa",
                "level_claimed": {
                    "category": "other",
                    "text": "Static analysis; structural necessary conditions only. DECIDED: " + meta["explanation"] + " NOT DECIDED: " + meta["not_decided"],
                    "design_ref": f"DESIGN.md section 5, {pid}",
                },
                "level_note": "Trusted base: " + "; ".join(meta.get("trusted_base", [])) + ". Assumptions: " + "; ".join(meta.get("assumptions", [])),
                "technique": getattr(mod, "TECHNIQUE", TECHNIQUE.get(pid, "custom AST/CFG static analysis")),
            }
        )
    man = {
        "version": 1,
        "setup_cmd": "true",
        "hooks": {
            "guard": "MYST_PARSER_VERIF",
            "enable": "no hooks: the checks parse /repo's working tree and never import or run it",
            "baseline_off_cmd": BASELINE,
            "source_commits": [],
            "add_only": True,
        },
        "engines": [
            {
                "name": "mystsa",
                "path": "/verif/mystsa",
                "serves_properties": [c["property_id"] for c in checks],
                "kind_free_text": "repository-specific static analyser: ast corpus, resolved call graph, statement CFG with dominators and path counting, exception-escape and effect analyses, finite abstract domains; stdlib only",
            }
        ],
        "checks": checks,
        "not_applicable": na,
        "notes": "Exit codes: 0 held (KNOWN-FINDING lines allowed), 1 VIOLATION, 2 ANALYSIS-ERROR (fail-closed; anchor vanished or construct outside the analysed subset). "
        "Known findings live in /verif/known_findings.json. Self-test mutants are computed from the current tree in memory; a missed mutant prints SELFTEST-MISS and never changes the verdict.",
    }
    (ROOT / "MANIFEST.json").write_text(json.dumps(man, indent=1) + "\n")
    print(f"claimed: {[c['property_id'] for c in checks]}; not applicable: {[n['property_id'] for n in na]}")


if __name__ == "__main__":
    main()
