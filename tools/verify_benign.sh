#!/bin/bash
# tools/verify_benign.sh <dir with patch.diff>: run every check on a scratch worktree with a behaviour-preserving
# patch applied; any VIOLATION is a false alarm, ANALYSIS-ERROR is fail-closed noise. Prints one line.
d="$1"; id=$(echo "$d" | sed -E 's#.*/out-([a-z0-9]+)/([^/]+)/?$#\1-\2#')
wt=$(mktemp -d /tmp/benver.XXXXXX); git -C /repo worktree add --detach "$wt" HEAD -q
trap 'git -C /repo worktree remove --force "$wt" 2>/dev/null' EXIT
if ! git -C "$wt" apply "$d/patch.diff" 2>/dev/null; then echo "$id DOES-NOT-APPLY"; exit 0; fi
suite=""
if [ "$SUITE" = 1 ]; then ( cd "$wt" && /venv/bin/python -m pytest -q -p no:cacheprovider --timeout=900 2>/dev/null | grep -E "^FAILED" | sed 's/ - .*//' | sort > "$wt/.fails" ); if diff -q "$wt/.fails" /tmp/seed/baseline_failures.txt >/dev/null; then suite=" suite=same"; else suite=" suite=DIFF"; fi; fi
res=""
for p in $(ls /verif/mystsa/rules/c[0-9][0-9].py | sed 's/.*\/c\([0-9]*\).py/C\1/'); do
  out=$(MYSTSA_REPO="$wt" MYSTSA_NOWRITE=1 MYSTSA_NO_SELFTEST=1 /verif/check "$p" --tier quick 2>&1); rc=$?
  if [ $rc -ne 0 ]; then
    rules=$(echo "$out" | grep -E "^    rule=|^ANALYSIS-ERROR" | sed -E 's/^    rule=([A-Z0-9.]+).*/\1/; s/^ANALYSIS-ERROR property=[A-Z0-9]+ rule=([A-Z0-9.]+).*/E:\1/' | sort -u | tr '\n' ',')
    res="$res $p:rc$rc[$rules]"
  fi
done
echo "$id$suite |$res"
