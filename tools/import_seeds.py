#!/usr/bin/env python3
"""Copy confirmed seeded changes from a scratch area into /verif/seeded/<ID>/ using a verify_seed.sh result file.
usage: import_seeds.py <scratch root, e.g. /tmp/seed> <verify jsonl> [suffix for ids, e.g. b]"""
import json, re, shutil, sys
from pathlib import Path

root, res = Path(sys.argv[1]), Path(sys.argv[2])
suffix = sys.argv[3] if len(sys.argv) > 3 else ""
out = Path("/verif/seeded")
rows = [json.loads(l) for l in res.read_text().splitlines() if l.strip()]
for r in sorted(rows, key=lambda r: r["id"]):
    pid, k = r["id"].split("-")
    d = root / f"out-{pid}" / k
    if not r.get("applies") or r["demo_without"] != 0 or r["demo_with"] == 0 or r["suite"] != "same":
        print("skip", r["id"], r)
        continue
    dest = out / f"{pid.upper()}-{suffix}{k}"
    dest.mkdir(parents=True, exist_ok=True)
    patch = d / "patch.ported.diff" if (d / "patch.ported.diff").exists() else d / "patch.diff"
    shutil.copy(patch, dest / "patch.diff")
    shutil.copy(d / "demo.py", dest / "demo.py")
    meta = json.loads((d / "meta.json").read_text())
    caught = re.findall(r"(C\d\d):rc1\[([^\]]*)\]", r["checks"])
    errs = re.findall(r"(C\d\d):rc2\[([^\]]*)\]", r["checks"])
    meta_out = {
        "property": meta.get("property", pid.upper()),
        "summary": meta.get("summary"),
        "clause_violated": meta.get("clause_violated"),
        "needs_to_manifest": meta.get("needs_to_manifest"),
        "files_touched": meta.get("files_touched"),
        "ported_to_current_head": patch.name == "patch.ported.diff" or bool(meta.get("ported")),
        "origin": "written by an independent sub-agent that saw only the property text and a scratch worktree (nothing from /verif)",
        "what_i_ran": "tools/verify_seed.sh: git apply on a scratch worktree of /repo HEAD; full suite -> same 8 failing ids as baseline; demo.py exit 0 without / non-zero with the change; every ./check CNN --tier quick against the patched worktree",
        "confirmed": {"demo_without_change": r["demo_without"], "demo_with_change": r["demo_with"], "suite": r["suite"]},
        "caught_by": [{"check": c, "rules": [x for x in rules.split(",") if x and not x.startswith("E:")]} for c, rules in caught],
        "analysis_error_in": [{"check": c, "rules": [x for x in rules.split(",") if x]} for c, rules in errs],
    }
    (dest / "meta.json").write_text(json.dumps(meta_out, indent=1) + "\n")
    print("ok", dest.name, [c for c, _ in caught])
