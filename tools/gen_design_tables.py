#!/usr/bin/env python3
"""Rewrite the generated tables in DESIGN.md (between the BEGIN/END markers) from /verif/seeded, /verif/benign
and known_findings.json. Run from /verif."""
import glob, json, re
from pathlib import Path

ROOT = Path(__file__).resolve().parent.parent


def seeded_table() -> str:
    rows = ["| seed | property | change (what needs to happen for it to manifest is in meta.json) | caught by (rule) |", "|---|---|---|---|"]
    n = caught_n = 0
    for m in sorted(glob.glob(str(ROOT / "seeded" / "*" / "meta.json"))):
        d = json.loads(Path(m).read_text())
        sid = Path(m).parent.name
        caught = ", ".join(f"{c['check']} ({'/'.join(r.split('.')[-1] for r in c['rules'])})" for c in d.get("caught_by", []))
        n += 1
        caught_n += bool(caught)
        s = (d.get("summary") or "").replace("|", "/").replace("\n", " ")
        if len(s) > 170:
            s = s[:167] + "..."
        rows.append(f"| {sid} | {d.get('property')} | {s} | {caught or '**not caught** - ' + (d.get('why_not_caught') or 'see text')} |")
    rows.append("")
    rows.append(f"{caught_n} of {n} confirmed seeded changes are reported as VIOLATION by at least one check.")
    return "\n".join(rows)


def benign_table() -> str:
    p = ROOT / "benign" / "results.json"
    if not p.is_file():
        return "(no benign-refactor sweep recorded yet)"
    d = json.loads(p.read_text())
    rows = ["| patch | kind | functions | result |", "|---|---|---|---|"]
    for r in d["rows"]:
        rows.append(f"| {r['id']} | {r.get('kind','')} | {', '.join(r.get('functions') or [])[:90]} | {r['result']} |")
    rows.append("")
    rows.append(d.get("summary", ""))
    return "\n".join(rows)


def known_table() -> str:
    d = json.loads((ROOT / "known_findings.json").read_text())
    rows = ["| property | rule | construct (key) | what fails / why not repaired |", "|---|---|---|---|"]
    for k in d["known"]:
        rows.append(f"| {k['property']} | {k['rule']} | `{k['key']}` | {k['what'].replace('|', '/')} |")
    rows.append("")
    rows.append(f"Repaired defects ({len(d['fixed'])} `fix:` commits in /repo, each recorded as a `fixed:` line in known_findings.json):")
    rows.append("")
    for f in d["fixed"]:
        rows.append("* " + f.replace("fixed: ", "").replace("|", "/"))
    return "\n".join(rows)


def rules_table() -> str:
    """Rule inventory as built, from the evidence files of the last run (rule id, what it requires, instances)."""
    import re
    rows = ["| rule | requires (one line, from the module) | ok | assumed | known/violating | listed |", "|---|---|---|---|---|---|"]
    for f in sorted((ROOT / "evidence").glob("C*.json")):
        cov = json.loads(f.read_text())["coverage"]
        def key(r):
            m = re.match(r"(C\d\d)\.R(\d+)", r)
            return (m.group(1), int(m.group(2))) if m else (r, 0)
        for rid in sorted(cov.get("rules", {}), key=key):
            r = cov["rules"][rid]
            doc = (r.get("doc") or "").replace("|", "/").replace("\n", " ")
            rows.append(f"| {rid} | {doc[:300]} | {r.get('ok',0)} | {r.get('assumed',0)} | {r.get('violation',0)} | {r.get('listed',0)} |")
    return "\n".join(rows)


def main():
    p = ROOT / "DESIGN.md"
    s = p.read_text()
    for name, fn in (("SEEDED", seeded_table), ("BENIGN", benign_table), ("FINDINGS", known_table), ("RULES", rules_table)):
        b, e = f"<!-- {name}-TABLE-BEGIN -->", f"<!-- {name}-TABLE-END -->"
        if b in s and e in s:
            s = s[: s.index(b) + len(b)] + "\n" + fn() + "\n" + s[s.index(e):]
    p.write_text(s)


if __name__ == "__main__":
    main()
