"""E4/E5 - statement-level CFG, dominators, branch facts, path counting.

Nodes are ``ast.stmt`` objects (compound statements stand for their header:
the test of ``if``/``while``, the iterator of ``for``, the context expression of
``with``), three synthetic nodes ENTRY / EXIT (normal return) / RAISE, and one
synthetic *edge node* per branch outcome ``("T", stmt)`` / ``("F", stmt)`` so
that "dominated by the false edge of ``if not isinstance(...)``" is an ordinary
dominance query and nested-``if`` and early-``return`` guards look the same.
"""

from __future__ import annotations

import ast
from collections import defaultdict

from .corpus import FunctionInfo, Unsupported, unparse

ENTRY = "ENTRY"
EXIT = "EXIT"
RAISE = "RAISE"


class CFG:
    def __init__(self, fi: FunctionInfo):
        self.fi = fi
        self.succ: dict[object, list[object]] = defaultdict(list)
        self.pred: dict[object, list[object]] = defaultdict(list)
        self.nodes: list[object] = [ENTRY, EXIT, RAISE]
        self._dom: dict[object, set] | None = None
        self._pdom: dict[object, set] | None = None
        self.loops: dict[ast.stmt, ast.stmt] = {}  # stmt -> innermost enclosing loop header
        if isinstance(fi.node, ast.Lambda):
            raise Unsupported("no CFG for lambda")
        self._build()

    # -- construction -----------------------------------------------------------
    def _add(self, n):
        if n not in self.succ:
            self.succ[n] = []
            self.nodes.append(n)
        return n

    def _edge(self, a, b):
        self._add(a)
        self._add(b)
        if b not in self.succ[a]:
            self.succ[a].append(b)
            self.pred[b].append(a)

    def _build(self):
        self._fin_targets: dict[object, set] = {}
        exits = self._block(self.fi.node.body, [ENTRY], None, [RAISE], [])
        for e in exits:
            self._edge(e, EXIT)

    def _block(self, stmts, preds, loop, exc, fins) -> list:
        """Wire ``stmts`` after ``preds``; return the dangling normal exits.
        ``exc``: nodes an exception raised here flows to; ``fins``: enclosing finally entries."""
        cur = list(preds)
        for st in stmts:
            cur = self._stmt(st, cur, loop, exc, fins)
        return cur

    def _stmt(self, st, preds, loop, exc, fins) -> list:
        for p in preds:
            self._edge(p, st)
        self._add(st)
        if loop is not None:
            self.loops[st] = loop[0]
        if exc != [RAISE]:
            for t in exc:
                self._edge(st, t)
        if isinstance(st, (ast.FunctionDef, ast.AsyncFunctionDef, ast.ClassDef)):
            return [st]
        if isinstance(st, ast.If):
            t, f = ("T", st), ("F", st)
            self._edge(st, t)
            self._edge(st, f)
            a = self._block(st.body, [t], loop, exc, fins)
            b = self._block(st.orelse, [f], loop, exc, fins)
            return a + b
        if isinstance(st, (ast.While, ast.For)):
            t, f = ("T", st), ("F", st)
            self._edge(st, t)
            always = isinstance(st, ast.While) and isinstance(st.test, ast.Constant) and bool(st.test.value)
            brk: list = []
            frame = (st, brk, len(fins))
            body_exits = self._block(st.body, [t], frame, exc, fins)
            for e in body_exits:
                self._edge(e, st)  # back edge
            if always:
                return brk
            self._edge(st, f)
            return self._block(st.orelse, [f], loop, exc, fins) + brk
        if isinstance(st, ast.With):
            return self._block(st.body, [st], loop, exc, fins)
        if isinstance(st, ast.Try):
            fin = ("FIN", st) if st.finalbody else None
            hentries = [("H", h) for h in st.handlers]
            for he in hentries:
                self._add(he)
            if fin:
                self._add(fin)
                self._fin_targets[fin] = set()
            after_exc = [fin] if fin else exc
            body_exc = hentries if hentries else after_exc
            inner_fins = fins + [fin] if fin else fins
            self._edge(st, ("T", st))
            body_exits = self._block(st.body, [("T", st)], loop, body_exc, inner_fins)
            else_exits = self._block(st.orelse, body_exits, loop, after_exc, inner_fins)
            hexits: list = []
            for he, h in zip(hentries, st.handlers):
                hexits += self._block(h.body, [he], loop, after_exc, inner_fins)
            normal = else_exits + hexits
            if not fin:
                return normal
            for e in normal:
                self._edge(e, fin)
            fexits = self._block(st.finalbody, [fin], loop, exc, fins)
            for e in fexits:
                for t in exc:  # an exception passing through continues outward
                    self._edge(e, t)
                for t in self._fin_targets[fin]:  # a pending return continues
                    self._edge(e, t)
            return fexits if normal else []
        if isinstance(st, ast.Return):
            if fins:
                self._edge(st, fins[-1])
                self._fin_targets[fins[-1]].add(EXIT)
            else:
                self._edge(st, EXIT)
            return []
        if isinstance(st, ast.Raise):
            for t in exc:
                self._edge(st, t)
            return []
        if isinstance(st, (ast.Break, ast.Continue)):
            if loop is None:
                raise Unsupported("break/continue outside loop")
            if len(fins) > loop[2]:
                raise Unsupported("break/continue through finally")
            if isinstance(st, ast.Break):
                loop[1].append(st)
            else:
                self._edge(st, loop[0])
            return []
        if isinstance(st, ast.Match):
            outs = []
            for c in st.cases:
                outs += self._block(c.body, [st], loop, exc, fins)
            return outs + [st]
        return [st]

    # -- dominance ------------------------------------------------------------------
    def _reachable(self, root, succ):
        seen = set()
        work = [root]
        while work:
            n = work.pop()
            if n in seen:
                continue
            seen.add(n)
            work.extend(succ.get(n, []))
        return seen

    def _dominators(self, root, succ, pred) -> dict[object, set]:
        nodes = self._reachable(root, succ)
        dom = {n: set(nodes) for n in nodes}
        dom[root] = {root}
        changed = True
        order = list(nodes)
        while changed:
            changed = False
            for n in order:
                if n == root:
                    continue
                ps = [p for p in pred.get(n, []) if p in nodes]
                new = set.intersection(*(dom[p] for p in ps)) if ps else set()
                new = new | {n}
                if new != dom[n]:
                    dom[n] = new
                    changed = True
        return dom

    def dom(self) -> dict[object, set]:
        if self._dom is None:
            self._dom = self._dominators(ENTRY, self.succ, self.pred)
        return self._dom

    def pdom(self) -> dict[object, set]:
        """Post-dominators w.r.t. the normal EXIT."""
        if self._pdom is None:
            self._pdom = self._dominators(EXIT, self.pred, self.succ)
        return self._pdom

    def dominates(self, a, b) -> bool:
        return a in self.dom().get(b, set())

    def postdominates(self, a, b) -> bool:
        """Every path from b to the normal EXIT passes a."""
        return a in self.pdom().get(b, set())

    def reachable_from(self, a) -> set:
        return self._reachable(a, self.succ)

    def is_reachable(self, n) -> bool:
        return n in self.dom()

    # -- branch facts ----------------------------------------------------------------
    def guards(self, n) -> list[tuple[ast.expr, bool]]:
        """Atomic (test, polarity) facts that hold whenever ``n`` executes."""
        out: list[tuple[ast.expr, bool]] = []
        for d in self.dom().get(n, set()):
            if isinstance(d, tuple) and d[0] in ("T", "F") and isinstance(d[1], (ast.If, ast.While)):
                out.extend(facts(d[1].test, d[0] == "T"))
        return out

    def stmt_of(self, node: ast.AST) -> ast.stmt:
        from .corpus import parent

        n = node
        while n is not None and n not in self.succ:
            n = parent(n)
        if n is None:
            raise Unsupported("node has no CFG statement")
        return n  # type: ignore[return-value]

    # -- path counting ------------------------------------------------------------------
    def counts(self, start, stops, weight) -> dict[object, set[int]]:
        """For each stop node reachable from ``start``: the set of event counts
        (saturating at 2) over all paths start -> stop.  ``weight(node) -> int``;
        the weights of ``start`` and of the stop node itself are both included."""
        stops = set(stops)
        inn: dict[object, set[int]] = defaultdict(set)
        out: dict[object, set[int]] = defaultdict(set)
        inn[start] = {0}
        work = [start]
        while work:
            n = work.pop()
            w = weight(n)
            new_out = {min(2, c + w) for c in inn[n]}
            if new_out <= out[n] and out[n]:
                continue
            out[n] |= new_out
            if n in stops and n != start:
                continue
            for s in self.succ.get(n, []):
                if not out[n] <= inn[s]:
                    inn[s] |= out[n]
                    work.append(s)
                elif s not in out or not out[s]:
                    work.append(s)
        return {s: out[s] for s in stops if out.get(s)}

    def paths_avoiding(self, start, stop, avoid) -> bool:
        """Is there a path start -> stop that touches no node satisfying ``avoid``?"""
        seen = set()
        work = [start]
        while work:
            n = work.pop()
            if n in seen:
                continue
            seen.add(n)
            if n != start and avoid(n):
                continue
            if n == stop:
                return True
            work.extend(self.succ.get(n, []))
        return False


def facts(test: ast.expr, pol: bool) -> list[tuple[ast.expr, bool]]:
    if isinstance(test, ast.UnaryOp) and isinstance(test.op, ast.Not):
        return facts(test.operand, not pol)
    if isinstance(test, ast.BoolOp):
        if isinstance(test.op, ast.And) and pol:
            return [f for v in test.values for f in facts(v, True)]
        if isinstance(test.op, ast.Or) and not pol:
            return [f for v in test.values for f in facts(v, False)]
    return [(test, pol)]


def get_cfg(fi: FunctionInfo) -> CFG:
    c = getattr(fi, "_cfg", None)
    if c is None:
        c = CFG(fi)
        fi._cfg = c  # type: ignore[attr-defined]
    return c


def fact_text(f: tuple[ast.expr, bool]) -> str:
    return ("" if f[1] else "not ") + unparse(f[0])
