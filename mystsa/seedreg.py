"""Thorough tier: the confirmed seeded changes under /verif/seeded as a regression corpus for the checker.

Each ``seeded/<id>/patch.diff`` is a realistic behaviour-breaking edit (confirmed dynamically when it was
imported, see its meta.json).  Here the patch is applied *in memory* to the sources of the tree being analysed
(an overlay corpus, exactly like the AST-computed mutants) and the property's rules are run on the result: the
rules recorded in ``caught_by`` for this property must still report something new.  Nothing is executed, nothing
is written to /repo.  A patch whose context no longer matches the current tree is counted as stale; a miss is
printed as ``SEEDED-MISS`` and - like ``SELFTEST-MISS`` - never changes the verdict on the real tree.
"""

from __future__ import annotations

import json
import re
from pathlib import Path

VERIF = Path(__file__).resolve().parent.parent
_HUNK = re.compile(r"^@@ -(\d+)(?:,(\d+))? \+(\d+)(?:,(\d+))? @@")


class Stale(Exception):
    pass


def parse_patch(text: str) -> dict[str, list[tuple[int, list[str], list[str]]]]:
    """-> {rel: [(old_start, old_lines, new_lines)]}; raises Stale for creations/deletions/renames/binary."""
    files: dict[str, list] = {}
    cur = None
    lines = text.splitlines()
    i = 0
    in_pkg = True  # is the file section we are in a package source (the only files the checks look at)?
    while i < len(lines):
        ln = lines[i]
        if ln.startswith("diff --git "):
            tgt = ln.split(" b/", 1)[-1] if " b/" in ln else ""
            in_pkg = tgt.startswith("myst_parser/") and tgt.endswith(".py")
        if ln.startswith(("new file mode", "deleted file mode", "rename from", "GIT binary patch", "Binary files")):
            if not in_pkg:  # e.g. a new test file: irrelevant here, skip the whole section
                i += 1
                while i < len(lines) and not lines[i].startswith("diff --git "):
                    i += 1
                cur = None
                continue
            raise Stale(f"unsupported patch feature: {ln.split()[0]} {ln.split()[1] if len(ln.split()) > 1 else ''}")
        if ln.startswith("--- "):
            old = ln[4:].split("\t")[0]
            new = lines[i + 1][4:].split("\t")[0] if i + 1 < len(lines) and lines[i + 1].startswith("+++ ") else ""
            if old == "/dev/null" or new == "/dev/null":
                raise Stale("file creation/deletion")
            rel = new[2:] if new.startswith(("a/", "b/")) else new
            cur = files.setdefault(rel, [])
            i += 2
            continue
        m = _HUNK.match(ln)
        if m and cur is not None:
            n_old = int(m.group(2) or 1)
            n_new = int(m.group(4) or 1)
            old_l: list[str] = []
            new_l: list[str] = []
            i += 1
            while i < len(lines) and (len(old_l) < n_old or len(new_l) < n_new):
                h = lines[i]
                if h.startswith("\\"):
                    i += 1
                    continue
                tag, body = (h[:1], h[1:]) if h else (" ", "")
                if tag == " ":
                    old_l.append(body)
                    new_l.append(body)
                elif tag == "-":
                    old_l.append(body)
                elif tag == "+":
                    new_l.append(body)
                else:
                    raise Stale(f"malformed hunk line {h!r}")
                i += 1
            cur.append((int(m.group(1)), old_l, new_l))
            continue
        i += 1
    return files


def apply_hunks(src: str, hunks) -> str:
    """Exact-context application (like ``git apply``: offsets allowed, no fuzz); the match must be unique
    at the stated position or, failing that, unique in the file."""
    lines = src.split("\n")
    delta = 0
    for start, old_l, new_l in hunks:
        n = len(old_l)
        want = start - 1 + delta if n else start + delta
        if lines[want : want + n] == old_l:
            at = want
        else:
            hits = [k for k in range(len(lines) - n + 1) if lines[k : k + n] == old_l]
            if len(hits) != 1:
                raise Stale(f"hunk @@ -{start} does not apply ({len(hits)} candidate positions)")
            at = hits[0]
        lines[at : at + n] = new_l
        delta += len(new_l) - n
    return "\n".join(lines)


def seeds_for(prop: str):
    root = VERIF / "seeded"
    if not root.is_dir():
        return
    for d in sorted(root.iterdir()):
        mp, pp = d / "meta.json", d / "patch.diff"
        if not (mp.is_file() and pp.is_file()):
            continue
        try:
            meta = json.loads(mp.read_text())
        except ValueError:
            continue
        rules = sorted({r for c in meta.get("caught_by", []) if c.get("check") == prop for r in c.get("rules", [])})
        if rules:
            yield d.name, pp, rules, meta.get("property")


def _run_seed(args):
    from .corpus import REPO, Corpus
    from .runner import run_property

    prop, name, patch_path, rules, base_keys = args
    res = {"seed": name, "expected_rules": rules}
    try:
        files = parse_patch(Path(patch_path).read_text())
        overlay = {}
        for rel, hunks in files.items():
            if not rel.endswith(".py") or not rel.startswith("myst_parser/"):
                continue  # tests/docs in a patch do not matter to a static check of the package
            p = REPO / rel
            if not p.is_file():
                raise Stale(f"{rel} not in the tree")
            overlay[rel] = apply_hunks(p.read_text(encoding="utf8"), hunks)
        if not overlay:
            raise Stale("patch touches no package source")
        corpus = Corpus.load(REPO, overlay=overlay)
        rep = run_property(prop, corpus, "quick", quiet=True)
        rep._check_min_counts()
        new = [v for v in rep.violations() if (v.rule, v.key) not in base_keys]
        fired = [v for v in new if v.rule in rules]
        res.update(
            fired=bool(fired),
            fired_other_rule=sorted({v.rule for v in new if v.rule not in rules}),
            report=fired[0].as_dict() if fired else None,
            errors=[f"{r}: {m}" for r, m in rep.errors][:3],
        )
    except Stale as e:
        res.update(fired=False, stale=str(e))
    except SyntaxError as e:
        res.update(fired=False, stale=f"patched source does not parse: {e}")
    except Exception as e:
        res.update(fired=False, stale=f"{type(e).__name__}: {e}")
    return res


def regression(prop: str, rep) -> None:
    seeds = list(seeds_for(prop))
    if not seeds:
        return
    base_keys = {(v.rule, v.key) for v in rep.violations()}
    jobs = [(prop, n, str(p), r, base_keys) for n, p, r, _ in seeds]
    if len(jobs) > 2:
        import multiprocessing as mp

        with mp.get_context("fork").Pool(min(16, len(jobs))) as pool:
            results = pool.map(_run_seed, jobs)
    else:
        results = [_run_seed(j) for j in jobs]
    rep.seeded = results
    stale = [r for r in results if "stale" in r]
    hit = [r for r in results if r["fired"]]
    other = [r for r in results if not r["fired"] and "stale" not in r and r.get("fired_other_rule")]
    missed = [r for r in results if not r["fired"] and "stale" not in r and not r.get("fired_other_rule")]
    if not rep.quiet:
        print(f"  seeded regression: {len(results)} confirmed breaking change(s) from /verif/seeded applied in memory, "
              f"{len(hit)} reported by the recorded rule(s), {len(other)} by another rule of this check, "
              f"{len(missed)} missed, {len(stale)} no longer applicable to this tree")
    for r in missed:
        print(f"SEEDED-MISS property={prop} seed={r['seed']} expected={','.join(r['expected_rules'])} {r.get('errors') or ''}")


# -- the other direction: behaviour-preserving refactorings under /verif/benign must stay silent ------------


def _run_benign(args):
    from .corpus import REPO, Corpus
    from .runner import run_property

    prop, name, patch_path, base_keys = args
    res = {"benign": name}
    try:
        files = parse_patch(Path(patch_path).read_text())
        overlay = {}
        for rel, hunks in files.items():
            if not rel.endswith(".py") or not rel.startswith("myst_parser/"):
                continue
            p = REPO / rel
            if not p.is_file():
                raise Stale(f"{rel} not in the tree")
            overlay[rel] = apply_hunks(p.read_text(encoding="utf8"), hunks)
        if not overlay:
            raise Stale("patch touches no package source")
        corpus = Corpus.load(REPO, overlay=overlay)
        rep = run_property(prop, corpus, "quick", quiet=True)
        rep._check_min_counts()
        new = [v for v in rep.violations() if (v.rule, v.key) not in base_keys]
        res.update(silent=not new and not rep.errors, alarms=[f"{v.rule}|{v.key}" for v in new][:5],
                   errors=[f"{r}: {m}" for r, m in rep.errors][:3])
    except Stale as e:
        res.update(silent=True, stale=str(e))
    except Exception as e:
        res.update(silent=True, stale=f"{type(e).__name__}: {e}")
    return res


def benign_regression(prop: str, rep) -> None:
    root = VERIF / "benign"
    if not root.is_dir():
        return
    base_keys = {(v.rule, v.key) for v in rep.violations()}
    jobs = [(prop, d.name, str(d / "patch.diff"), base_keys) for d in sorted(root.iterdir()) if (d / "patch.diff").is_file()]
    if not jobs:
        return
    import multiprocessing as mp

    with mp.get_context("fork").Pool(min(16, len(jobs))) as pool:
        results = pool.map(_run_benign, jobs)
    loud = [r for r in results if not r["silent"]]
    stale = [r for r in results if "stale" in r]
    rep.benign = {"patches": len(results), "silent": len(results) - len(loud) - len(stale), "stale": [r["benign"] for r in stale], "loud": loud}
    if not rep.quiet:
        print(f"  benign regression: {len(results)} behaviour-preserving refactoring(s) from /verif/benign applied in memory, "
              f"{len(results) - len(loud) - len(stale)} silent, {len(loud)} raised an alarm or analysis error, {len(stale)} no longer applicable")
    for r in loud:
        print(f"BENIGN-ALARM property={prop} patch={r['benign']} {r['alarms'] or r['errors']}")
