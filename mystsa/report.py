"""E12 - obligations, findings, known findings, evidence files."""

from __future__ import annotations

import hashlib
import json
import os
import time
from dataclasses import dataclass, field
from pathlib import Path

VERIF = Path(__file__).resolve().parent.parent
KNOWN_FILE = VERIF / "known_findings.json"


@dataclass
class Item:
    rule: str
    key: str  # stable construct key (no line numbers)
    site: str  # file:line for the reader
    status: str  # ok | violation | listed | assumed
    what: str = ""
    path: list[str] = field(default_factory=list)

    def as_dict(self) -> dict:
        d = {"rule": self.rule, "key": self.key, "site": self.site, "status": self.status}
        if self.what:
            d["what"] = self.what
        if self.path:
            d["path"] = self.path
        return d


class Report:
    """Collects what one check examined and decided."""

    def __init__(self, prop: str, tier: str = "quick", quiet: bool = False):
        self.prop = prop
        self.tier = tier
        self.quiet = quiet
        self.items: list[Item] = []
        self.errors: list[tuple[str, str]] = []
        self.rule_docs: dict[str, str] = {}
        self.analysed: dict[str, set] = {"modules": set(), "functions": set(), "call_sites": set(), "siblings": set()}
        self.selftest: list[dict] = []
        self.seeded: list[dict] = []  # thorough tier: /verif/seeded patches applied in memory
        self.benign: dict = {}  # thorough tier: /verif/benign patches applied in memory
        self.notes: list[str] = []
        self.t0 = time.time()
        self._min_counts: dict[str, tuple[int, str]] = {}

    # -- recording --------------------------------------------------------
    def rule(self, rule: str, doc: str) -> None:
        self.rule_docs[rule] = doc

    def ok(self, rule: str, key: str, site: str, what: str = "") -> None:
        self.items.append(Item(rule, key, site, "ok", what))

    def assumed(self, rule: str, key: str, site: str, what: str) -> None:
        """Obligation accepted on a tabled, reasoned assumption (re-verified shape)."""
        self.items.append(Item(rule, key, site, "assumed", what))

    def listed(self, rule: str, key: str, site: str, what: str = "") -> None:
        """Evidence-only: recorded, not judged."""
        self.items.append(Item(rule, key, site, "listed", what))

    def violation(self, rule: str, key: str, site: str, what: str, path: list[str] | None = None) -> None:
        self.items.append(Item(rule, key, site, "violation", what, list(path or [])))

    def error(self, rule: str, msg: str) -> None:
        self.errors.append((rule, msg))

    def saw_function(self, fq: str) -> None:
        self.analysed["functions"].add(fq)

    def saw_module(self, name: str) -> None:
        self.analysed["modules"].add(name)

    def saw_call(self, site: str) -> None:
        self.analysed["call_sites"].add(site)

    def saw_sibling(self, rel: str) -> None:
        self.analysed["siblings"].add(rel)

    def expect_min(self, rule: str, n: int, why: str) -> None:
        """Vacuity guard: the rule must have examined at least ``n`` instances."""
        self._min_counts[rule] = (n, why)

    def note(self, s: str) -> None:
        self.notes.append(s)

    # -- queries ----------------------------------------------------------
    def violations(self) -> list[Item]:
        return [i for i in self.items if i.status == "violation"]

    def count(self, rule: str) -> int:
        return sum(1 for i in self.items if i.rule == rule and i.status != "listed")

    # -- finishing ---------------------------------------------------------
    def _check_min_counts(self) -> None:
        for rule, (n, why) in self._min_counts.items():
            c = self.count(rule)
            if c < n:
                self.error(rule, f"vacuity guard: examined {c} instance(s), expected at least {n} ({why})")

    def finish(self, meta: dict, write: bool = True) -> int:
        """Print verdict lines, write evidence/replay files, return exit code."""
        self._check_min_counts()
        known = load_known()
        viol = self.violations()
        new: list[Item] = []
        kn: list[tuple[Item, dict]] = []
        for v in viol:
            k = match_known(known, self.prop, v)
            if k is None:
                new.append(v)
            else:
                kn.append((v, k))
        out = []
        by_rule: dict[str, dict[str, int]] = {}
        for i in self.items:
            by_rule.setdefault(i.rule, {"ok": 0, "assumed": 0, "violation": 0, "listed": 0})[i.status] += 1
        for rule in sorted(by_rule):
            c = by_rule[rule]
            out.append(
                f"  {rule}: {c['ok']} ok, {c['assumed']} assumed, {c['violation']} violating, {c['listed']} listed"
                + (f" - {self.rule_docs[rule]}" if rule in self.rule_docs else "")
            )
        seen_known = set()
        for v, k in kn:
            ident = (k.get("rule"), k.get("key"))
            if ident in seen_known:
                continue
            seen_known.add(ident)
            out.append(f"KNOWN-FINDING: property={self.prop} {v.rule} {v.site} {k.get('what') or v.what}")
        replay_paths = []
        if write:
            (VERIF / "findings").mkdir(exist_ok=True)
        for v in new:
            h = hashlib.sha1(f"{self.prop}|{v.rule}|{v.key}".encode()).hexdigest()[:12]
            p = VERIF / "findings" / f"{self.prop}-{h}.json"
            if write:
                p.write_text(json.dumps({"property": self.prop, **v.as_dict()}, indent=1) + "\n")
            replay_paths.append(p)
            out.append(f"VIOLATION property={self.prop} replay={p}")
            out.append(f"    rule={v.rule} site={v.site}")
            out.append(f"    key={v.key}")
            out.append(f"    what={v.what}")
            for step in v.path:
                out.append(f"      via {step}")
        for rule, msg in self.errors:
            out.append(f"ANALYSIS-ERROR property={self.prop} rule={rule} {msg}")
        # a definite violation takes precedence over an incomplete analysis elsewhere
        code = 1 if new else (2 if self.errors else 0)
        if code == 0:
            out.append(f"PASS property={self.prop} tier={self.tier}")
        if not self.quiet:
            print("\n".join(out))
        if write:
            self._write_evidence(meta, new, kn, code)
        return code

    def _write_evidence(self, meta: dict, new, kn, code: int) -> None:
        judged = [i for i in self.items if i.status != "listed"]
        distinct = {(i.rule, i.key) for i in judged}
        samples = []
        seen_rules = set()
        for i in judged:
            if i.rule not in seen_rules:
                seen_rules.add(i.rule)
                samples.append(i.as_dict())
        for i in judged[:6]:
            if i.as_dict() not in samples:
                samples.append(i.as_dict())
        rules = {}
        for i in self.items:
            r = rules.setdefault(i.rule, {"doc": self.rule_docs.get(i.rule, ""), "ok": 0, "assumed": 0, "violation": 0, "listed": 0})
            r[i.status] += 1
        discharged = sum(1 for i in judged if i.status in ("ok", "assumed"))
        cov = {
            "explanation": meta.get("explanation", ""),
            "obligations": len(judged),
            "discharged": discharged,
            "checker_cmd": meta.get("checker_cmd", f"./check {self.prop} --tier {self.tier}"),
            "trusted_base": meta.get("trusted_base", []),
            "evaluations": len(self.items),
            "distinct_nontrivial": len(distinct),
            "rule": "one evaluation per rule instance examined on the current tree (call site, path, table cell, "
            "field, loop ...); distinct_nontrivial counts distinct (rule, construct-key) pairs that carry an obligation "
            "(evidence-only 'listed' items are excluded)",
            "samples": samples[:12],
            "exhaustive": True,
            "rules": rules,
            "not_decided": meta.get("not_decided", ""),
            "analysed": {k: sorted(v) if len(v) <= 400 else len(v) for k, v in self.analysed.items()},
            "analysed_counts": {k: len(v) for k, v in self.analysed.items()},
            "assumed": [i.as_dict() for i in self.items if i.status == "assumed"],
            "listed": [i.as_dict() for i in self.items if i.status == "listed"][:80],
            "known_findings_reported": [{"rule": v.rule, "key": v.key, "site": v.site} for v, _ in kn],
            "new_violations": [v.as_dict() for v in new],
            "analysis_errors": [f"{r}: {m}" for r, m in self.errors],
            "selftest": self.selftest,
            "seeded_regression": self.seeded,
            "benign_regression": self.benign,
            "notes": self.notes,
        }
        ev = {
            "property_id": self.prop,
            "tier": self.tier,
            "seed": int(os.environ.get("VERIF_SEED", "0") or 0),
            "level": "other",
            "coverage": cov,
            "assumptions": meta.get("assumptions", []),
            "wall_s": round(time.time() - self.t0, 3),
            "violations": len(new),
        }
        (VERIF / "evidence").mkdir(exist_ok=True)
        (VERIF / "evidence" / f"{self.prop}.json").write_text(json.dumps(ev, indent=1, sort_keys=False) + "\n")


def load_known() -> dict:
    if not KNOWN_FILE.is_file():
        return {"known": [], "fixed": []}
    return json.loads(KNOWN_FILE.read_text())


def match_known(known: dict, prop: str, v: Item) -> dict | None:
    for k in known.get("known", []):
        props = k.get("property")
        props = props if isinstance(props, list) else [props]
        if prop in props and k.get("rule") == v.rule and k.get("key") == v.key:
            return k
    return None
