"""Mutants: AST-computed edits of the current tree used for both-ways testing."""

from __future__ import annotations

from dataclasses import dataclass, field


@dataclass
class Mutant:
    """One AST-computed edit of the current tree that must make ``rule`` fire."""

    id: str
    rule: str
    rel: str  # file, relative to the repo root
    new_src: str
    expect: str = ""  # substring of key/site/what of the new violation
    canary: bool = False  # run in the quick tier as well
    note: str = ""
    more: dict[str, str] = field(default_factory=dict)  # extra overlaid files


