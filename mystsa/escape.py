"""E6 - exception escape analysis.

``Esc(f)`` = set of (exception class, origin site) that can propagate out of
``f``: explicit raise/assert, catalogued fallible library calls, callee
summaries - each filtered by enclosing handlers.  Fixpoint over the call graph.
"""

from __future__ import annotations

import ast
import builtins
from dataclasses import dataclass

from .callgraph import (
    CONVERTER_TABLE,
    DIRECTIVE_RUN,
    FOREIGN,
    MD_RENDER,
    RENDER_DISPATCH,
    ROLE_FUNC,
    RST_PARSE,
    CallGraph,
    External,
    Special,
    Unresolved,
    get_callgraph,
)
from .corpus import (
    Corpus,
    FunctionInfo,
    ancestors,
    dotted,
    parent,
    short,
    unparse,
    walk_local,
)

B = "builtins."


def _str_constant(e: ast.AST) -> str | None:
    """The string a constant expression denotes: a literal, or a module-level constant (also built by `+` from others)."""
    if isinstance(e, ast.Constant):
        return e.value if isinstance(e.value, str) else None
    if isinstance(e, (ast.Name, ast.BinOp)):
        try:
            from .corpus import module_of

            v = module_of(e).eval_const(e)
        except Exception:
            return None
        return v if isinstance(v, str) else None
    return None


def _is_digit_set(e: ast.AST) -> bool:
    v = _str_constant(e)
    return bool(v) and all(ch in "0123456789" for ch in v)

YAML_ERRORS = [
    "yaml.parser.ParserError",
    "yaml.scanner.ScannerError",
    "yaml.composer.ComposerError",
    "yaml.constructor.ConstructorError",
    "yaml.reader.ReaderError",
]


@dataclass(frozen=True)
class Esc:
    exc: str  # canonical dotted class
    origin_fq: str  # function containing the raising construct
    origin_text: str  # normalised construct text
    origin_site: str  # file:line (reader only, not part of identity)

    def ident(self) -> tuple:
        return (self.exc, self.origin_fq, self.origin_text)

    def __hash__(self) -> int:
        return hash(self.ident())

    def __eq__(self, other) -> bool:
        return isinstance(other, Esc) and other.ident() == self.ident()


# ---------------------------------------------------------------------------
# exception class hierarchy


class ExcHierarchy:
    def __init__(self, corpus: Corpus):
        self.c = corpus
        self._bases: dict[str, list[str]] = {}
        self._canon: dict[str, str] = {}

    def canonical(self, name: str) -> str:
        """Follow re-exports to the defining module (``yaml.YAMLError`` -> ``yaml.error.YAMLError``)."""
        if name in self._canon:
            return self._canon[name]
        out = self._canonical(name, 0)
        self._canon[name] = out
        return out

    def _canonical(self, name: str, depth: int) -> str:
        if depth > 8:
            return name
        if name.startswith(B):
            return name
        short_ = name.rsplit(".", 1)[-1]
        if "." not in name:
            return B + name if hasattr(builtins, name) else name
        ci = self.c.find_class(name)
        if ci is not None:
            return f"{ci.module.name}.{ci.name}"
        modname, _, cname = name.rpartition(".")
        if modname == "zlib":
            return name
        m = self.c.modules.get(modname) or self.c.sibling_module(modname)
        if m is None:
            return name
        if cname in m.classes:
            return f"{m.name}.{cname}"
        if cname in m.imports:
            return self._canonical(m.imports[cname], depth + 1)
        for star in m.star_imports:
            sm = self.c.sibling_module(star)
            if sm is not None and (cname in sm.classes or cname in sm.imports):
                return self._canonical(f"{star}.{cname}", depth + 1)
        # attribute of a sub-module: yaml.parser.ParserError when only ``import yaml``
        return name

    def bases(self, name: str) -> list[str]:
        name = self.canonical(name)
        if name in self._bases:
            return self._bases[name]
        out: list[str] = []
        self._bases[name] = out
        if name.startswith(B):
            cls = getattr(builtins, name[len(B):], None)
            if isinstance(cls, type):
                out.extend(B + b.__name__ for b in cls.__bases__ if b is not object)
            return out
        if name == "zlib.error":
            out.append(B + "Exception")
            return out
        ci = self.c.find_class(name)
        if ci is not None:
            out.extend(self.canonical(b) for b in ci.bases)
            return out
        modname, _, cname = name.rpartition(".")
        m = self.c.sibling_module(modname)
        if m is not None and cname in m.classes:
            for b in m.classes[cname].bases:
                if "." not in b and not hasattr(builtins, b):
                    # a name that arrived through ``from .x import *``
                    for star in m.star_imports:
                        sm = self.c.sibling_module(star)
                        if sm is not None and (b in sm.classes or b in sm.imports):
                            b = f"{star}.{b}"
                            break
                out.append(self.canonical(b))
        else:
            out.append(B + "Exception")  # unknown library class: assume a plain Exception
        return out

    def ancestors(self, name: str) -> list[str]:
        seen: list[str] = []
        work = [self.canonical(name)]
        while work:
            n = work.pop()
            if n in seen:
                continue
            seen.append(n)
            work.extend(self.bases(n))
        return seen

    def is_sub(self, a: str, b: str) -> bool:
        return self.canonical(b) in self.ancestors(a)


# ---------------------------------------------------------------------------
# discharge shapes for catalogue entries


def _digits_guard(call: ast.Call) -> bool:
    """``int(NAME)`` inside ``if NAME in "<digits>"``."""
    if len(call.args) != 1 or not isinstance(call.args[0], ast.Name):
        return False
    return _digit_test_encloses(call, call.args[0].id)


def _digit_test_encloses(node: ast.AST, name: str) -> bool:
    """``node`` sits in the true branch of ``if NAME in "<digits>"`` (and NAME is not re-bound in between)."""
    for a in ancestors(node):
        if isinstance(a, (ast.FunctionDef, ast.Lambda)):
            break
        if isinstance(a, ast.If):
            t = a.test
            if (
                isinstance(t, ast.Compare)
                and len(t.ops) == 1
                and isinstance(t.ops[0], ast.In)
                and isinstance(t.left, ast.Name)
                and t.left.id == name
                and _is_digit_set(t.comparators[0])
            ):
                # the node must be in the body (true branch)
                n = node
                while parent(n) is not a:
                    n = parent(n)
                if n in a.body:
                    st_ = node
                    while not isinstance(st_, ast.stmt) and parent(st_) is not None:
                        st_ = parent(st_)
                    lim = getattr(st_, "lineno", 0)  # stores in earlier statements of the guarded branch
                    rebound = any(
                        isinstance(x, ast.Name) and x.id == name and isinstance(x.ctx, (ast.Store, ast.Del)) and x.lineno < lim
                        for s2 in a.body
                        for x in ast.walk(s2)
                    )
                    if not rebound:
                        return True
    return False


def _param_index(fi: FunctionInfo, name: str) -> tuple[int, bool] | None:
    """(positional index, keyword-capable) of a plain parameter that is never re-bound in the function."""
    if fi.is_lambda:
        return None
    a = fi.node.args
    pos = [p.arg for p in a.posonlyargs + a.args]
    kwonly = [p.arg for p in a.kwonlyargs]
    if name not in pos and name not in kwonly:
        return None
    for n in fi.local_nodes():
        if isinstance(n, ast.Name) and n.id == name and isinstance(n.ctx, (ast.Store, ast.Del)):
            return None
    idx = pos.index(name) if name in pos else -1
    if fi.cls is not None and idx >= 0 and "staticmethod" not in fi.decorators():
        idx -= 1  # bound call: self/cls is not written at the call site
    return (idx, True)


HEX = set("0123456789ABCDEFabcdef")


def _chr_guard(call: ast.Call) -> bool:
    """``chr(NAME)`` after ``if NAME > C: raise`` (C <= 0x10FFFF) where NAME = int(<hex>, 16)."""
    if len(call.args) != 1 or not isinstance(call.args[0], ast.Name):
        return False
    name = call.args[0].id
    st = call
    while not isinstance(st, ast.stmt):
        st = parent(st)
    blk = _block_of(st)
    if blk is None:
        return False
    upper = nonneg = False
    for prev in blk[: blk.index(st)]:
        if isinstance(prev, ast.Assign) and any(isinstance(t, ast.Name) and t.id == name for t in prev.targets):
            upper = False
            nonneg = isinstance(prev.value, ast.Call) and dotted(prev.value.func) == "int" and _hex_loop_guard(prev.value)
        if isinstance(prev, ast.If) and not prev.orelse and prev.body and isinstance(prev.body[-1], ast.Raise):
            t = prev.test
            if (
                isinstance(t, ast.Compare)
                and len(t.ops) == 1
                and isinstance(t.left, ast.Name)
                and t.left.id == name
                and isinstance(t.comparators[0], ast.Constant)
                and isinstance(t.comparators[0].value, int)
            ):
                c = t.comparators[0].value
                if (isinstance(t.ops[0], ast.Gt) and c <= 0x10FFFF) or (isinstance(t.ops[0], ast.GtE) and c <= 0x110000):
                    upper = True
    return upper and nonneg


def _hex_loop_guard(call: ast.Call) -> bool:
    """``int(stream.prefix(N), 16)`` preceded by a loop over range(N) that raises on non-hex."""
    if len(call.args) != 2 or not (isinstance(call.args[1], ast.Constant) and call.args[1].value == 16):
        return False
    a0 = call.args[0]
    st = call
    while not isinstance(st, ast.stmt):
        st = parent(st)
    blk = _block_of(st)
    if blk is None:
        return False
    if isinstance(a0, ast.Name):
        # `digits = stream.prefix(N)` (never empty: the buffer ends with a NUL sentinel, which is not a hex digit),
        # then `for d in digits: if d not in HEX: raise`, then `int(digits, 16)`
        before = blk[: blk.index(st)]
        defs = [p_ for p_ in before if isinstance(p_, ast.Assign) and len(p_.targets) == 1 and isinstance(p_.targets[0], ast.Name) and p_.targets[0].id == a0.id]
        if len(defs) != 1 or not (isinstance(defs[0].value, ast.Call) and isinstance(defs[0].value.func, ast.Attribute) and defs[0].value.func.attr == "prefix"):
            return False
        for prev in before[before.index(defs[0]) + 1 :]:
            if isinstance(prev, ast.For) and isinstance(prev.iter, ast.Name) and prev.iter.id == a0.id and isinstance(prev.target, ast.Name):
                k = prev.target.id
                for s in prev.body:
                    if isinstance(s, ast.If) and any(isinstance(x, ast.Raise) for x in s.body):
                        t = s.test
                        if (isinstance(t, ast.Compare) and isinstance(t.ops[0], ast.NotIn) and isinstance(t.left, ast.Name) and t.left.id == k
                                and bool(_str_constant(t.comparators[0])) and set(_str_constant(t.comparators[0])) <= HEX):
                            return True
        return False
    if not (isinstance(a0, ast.Call) and isinstance(a0.func, ast.Attribute) and a0.func.attr == "prefix" and len(a0.args) == 1):
        return False
    n_text = unparse(a0.args[0])
    for prev in blk[: blk.index(st)]:
        if (
            isinstance(prev, ast.For)
            and isinstance(prev.iter, ast.Call)
            and dotted(prev.iter.func) == "range"
            and len(prev.iter.args) == 1
            and unparse(prev.iter.args[0]) == n_text
            and isinstance(prev.target, ast.Name)
        ):
            k = prev.target.id
            for s in prev.body:
                if isinstance(s, ast.If) and any(isinstance(x, ast.Raise) for x in s.body):
                    t = s.test
                    if (
                        isinstance(t, ast.Compare)
                        and isinstance(t.ops[0], ast.NotIn)
                        and bool(_str_constant(t.comparators[0]))
                        and set(_str_constant(t.comparators[0])) <= HEX
                        and isinstance(t.left, ast.Call)
                        and isinstance(t.left.func, ast.Attribute)
                        and t.left.func.attr == "peek"
                        and len(t.left.args) == 1
                        and isinstance(t.left.args[0], ast.Name)
                        and t.left.args[0].id == k
                    ):
                        return True
    return False


def _validation_loop_for(st: ast.stmt, n_name: str) -> ast.For | None:
    """The loop in the block of ``st`` that raises unless each of the next ``n_name`` characters is in a constant set:
    ``for k in range(N): if stream.peek(k) not in SET: raise`` or ``digits = stream.prefix(N)`` ... ``for d in digits: if d not in SET: raise``."""
    blk = _block_of(st)
    if blk is None:
        return None
    holders = {
        p_.targets[0].id
        for p_ in blk
        if isinstance(p_, ast.Assign) and len(p_.targets) == 1 and isinstance(p_.targets[0], ast.Name) and isinstance(p_.value, ast.Call)
        and isinstance(p_.value.func, ast.Attribute) and p_.value.func.attr == "prefix" and len(p_.value.args) == 1 and unparse(p_.value.args[0]) == n_name
    }
    for lp in blk:
        if not (isinstance(lp, ast.For) and isinstance(lp.target, ast.Name)):
            continue
        over_range = isinstance(lp.iter, ast.Call) and dotted(lp.iter.func) == "range" and len(lp.iter.args) == 1 and unparse(lp.iter.args[0]) == n_name
        over_holder = isinstance(lp.iter, ast.Name) and lp.iter.id in holders
        if not (over_range or over_holder):
            continue
        for s_ in lp.body:
            if isinstance(s_, ast.If) and any(isinstance(x, ast.Raise) for x in s_.body) and isinstance(s_.test, ast.Compare) and isinstance(s_.test.ops[0], ast.NotIn) and _str_constant(s_.test.comparators[0]):
                return lp
    return None


def _block_of(st: ast.stmt) -> list | None:
    p = parent(st)
    for fld in ("body", "orelse", "finalbody"):
        b = getattr(p, fld, None)
        if isinstance(b, list) and st in b:
            return b
    if isinstance(p, ast.ExceptHandler) and st in p.body:
        return p.body
    return None


def _split_unpack_guard(assign: ast.Assign, call: ast.Call) -> bool:
    """``a, b = x.split(SEP, 1)`` where SEP is known to occur in x."""
    tgt = assign.targets[0]
    if any(isinstance(e, ast.Starred) for e in tgt.elts):
        return True
    if len(tgt.elts) != 2:
        return False
    if not (len(call.args) == 2 and isinstance(call.args[1], ast.Constant) and call.args[1].value == 1):
        return False
    sep = call.args[0]
    if not isinstance(sep, ast.Constant):
        return False
    recv = unparse(call.func.value)

    def is_test(t, op):
        return (
            isinstance(t, ast.Compare)
            and len(t.ops) == 1
            and isinstance(t.ops[0], op)
            and isinstance(t.left, ast.Constant)
            and t.left.value == sep.value
            and unparse(t.comparators[0]) == recv
        )

    # (a) enclosing ``if SEP in x:`` body
    node: ast.AST = assign
    for a in ancestors(assign):
        if isinstance(a, (ast.FunctionDef, ast.Lambda)):
            break
        if isinstance(a, ast.If) and is_test(a.test, ast.In) and node in a.body:
            return True
        node = a
    # (b) an earlier sibling (in this or an enclosing block) ``if SEP not in x: continue/return/raise``
    st: ast.AST = assign
    while isinstance(st, ast.stmt):
        blk = _block_of(st)
        if blk is None:
            break
        for prev in blk[: blk.index(st)]:
            if isinstance(prev, ast.If) and not prev.orelse and prev.body and isinstance(prev.body[-1], (ast.Continue, ast.Return, ast.Raise)):
                tests = [prev.test]
                if isinstance(prev.test, ast.BoolOp) and isinstance(prev.test.op, ast.Or):
                    tests = prev.test.values
                if any(is_test(t, ast.NotIn) for t in tests) and len(tests) == 1:
                    return True
                if isinstance(prev.test, ast.BoolOp) and isinstance(prev.test.op, ast.And):
                    # ``if "=" not in part and i == 0: ...continue`` does not guard
                    pass
        st = parent(st)
        if isinstance(st, (ast.FunctionDef, ast.Lambda)):
            break
    return False


# ---------------------------------------------------------------------------
# tuple-unpack of a sequence whose length is decided by (document-controlled) text
#
# ``a, b, c = <expr>`` raises ValueError unless ``len(<expr>)`` is exactly 3 (at least 2 for
# ``a, b, *c``).  When <expr> is built from ``str.split``/``rsplit``/``splitlines`` results (directly,
# through locals, ``list()``/``tuple()``/``sorted()``, slices, ``+`` concatenation, ``[x] * n`` padding,
# comprehensions) the length is a function of the number of separators in the text.  The model below
# evaluates that function concretely for every split length up to a bound above all constants that
# occur in it (the function is piecewise linear in the split length, so the bound is exhaustive),
# restricted by ``maxsplit``, by a separator-presence test and by the ``len()`` facts that dominate
# the unpacking statement.


class _Opaque(Exception):
    """Not a sequence / number this model describes: the construct is not judged."""


class _UnpackUnsupported(Exception):
    """A split-derived sequence flows through an operator whose effect on the length is not modelled."""


_SPLITS = ("split", "rsplit", "splitlines")
_PARTITIONS = ("partition", "rpartition")
_SAME_LENGTH = ("list", "tuple", "sorted", "reversed", "enumerate")
_LIST_MUTATORS = ("append", "extend", "insert", "pop", "remove", "clear")


class _SeqLen:
    def __init__(self, fi: FunctionInfo, at: ast.stmt, extra_facts: list[tuple[ast.expr, bool]] = ()):  # type: ignore[assignment]
        self.fi = fi
        self.at = at
        self.bases: dict[int, tuple[ast.Call, int, int | None]] = {}  # id(call) -> (call, lo, hi or None)
        self.env: dict[int, int] = {}
        self.consts: set[int] = set()
        self._defs: dict[str, list] | None = None
        self._depth = 0
        self.cfg = None
        if not fi.is_lambda:
            try:
                from .flow import get_cfg

                self.cfg = get_cfg(fi)
            except Exception:
                self.cfg = None
        self.extra_facts = list(extra_facts)

    # -- bindings of locals ---------------------------------------------------------
    def _bindings(self) -> dict[str, list]:
        if self._defs is None:
            d: dict[str, list] = {}
            fn = self.fi.node
            if not isinstance(fn, ast.Lambda):
                a = fn.args
                for p in a.posonlyargs + a.args + a.kwonlyargs + ([a.vararg] if a.vararg else []) + ([a.kwarg] if a.kwarg else []):
                    d.setdefault(p.arg, []).append(None)
            for n in self.fi.local_nodes():
                if isinstance(n, ast.Assign):
                    for t in n.targets:
                        if isinstance(t, ast.Name):
                            d.setdefault(t.id, []).append(n.value)
                        else:
                            for x in ast.walk(t):
                                if isinstance(x, ast.Name) and isinstance(x.ctx, ast.Store):
                                    d.setdefault(x.id, []).append(None)
                elif isinstance(n, ast.AnnAssign) and isinstance(n.target, ast.Name):
                    if n.value is not None:
                        d.setdefault(n.target.id, []).append(n.value)
                elif isinstance(n, (ast.AugAssign, ast.NamedExpr)) and isinstance(n.target, ast.Name):
                    d.setdefault(n.target.id, []).append(None)
                elif isinstance(n, (ast.For, ast.comprehension)):
                    for x in ast.walk(n.target):
                        if isinstance(x, ast.Name):
                            d.setdefault(x.id, []).append(None)
                elif isinstance(n, ast.withitem) and n.optional_vars is not None:
                    for x in ast.walk(n.optional_vars):
                        if isinstance(x, ast.Name):
                            d.setdefault(x.id, []).append(None)
                elif isinstance(n, ast.ExceptHandler) and n.name:
                    d.setdefault(n.name, []).append(None)
            self._defs = d
        return self._defs

    def _defn(self, name: ast.Name) -> ast.expr:
        bs = self._bindings().get(name.id, [])
        if len(bs) != 1 or bs[0] is None:
            raise _Opaque(name.id)
        return bs[0]

    def _mutated(self, name: str) -> bool:
        for n in self.fi.local_nodes():
            if isinstance(n, ast.Call) and isinstance(n.func, ast.Attribute) and n.func.attr in _LIST_MUTATORS and isinstance(n.func.value, ast.Name) and n.func.value.id == name:
                return True
            if isinstance(n, ast.Subscript) and isinstance(n.ctx, (ast.Store, ast.Del)) and isinstance(n.value, ast.Name) and n.value.id == name:
                return True
        return False

    # -- bases -----------------------------------------------------------------------
    def _base(self, call: ast.Call) -> int:
        key = id(call)
        if key not in self.bases:
            attr = call.func.attr  # type: ignore[union-attr]
            if attr in _PARTITIONS:
                lo, hi = 3, 3
            elif attr == "splitlines":
                lo, hi = 0, None
            else:
                recv = call.func.value  # type: ignore[union-attr]
                if self.fi.module.resolve(dotted(recv) or "") == "re" or isinstance(recv, ast.Call) and (dotted(recv.func) or "").endswith("compile"):
                    raise _UnpackUnsupported("re.split: the number of fields also depends on the capture groups")
                sep = call.args[0] if call.args else None
                for k in call.keywords:
                    if k.arg == "sep":
                        sep = k.value
                whitespace = sep is None or (isinstance(sep, ast.Constant) and sep.value is None)
                lo = 0 if whitespace else 1
                ms = call.args[1] if len(call.args) > 1 else None
                for k in call.keywords:
                    if k.arg == "maxsplit":
                        ms = k.value
                hi = None
                if ms is not None:
                    if isinstance(ms, ast.Constant) and isinstance(ms.value, int) and not isinstance(ms.value, bool):
                        hi = None if ms.value < 0 else ms.value + 1
                    # a computed maxsplit leaves the upper bound open
                if not whitespace and _sep_present(call, sep, self):
                    lo = 2
                if hi is not None and hi < lo:
                    lo = hi
            self.bases[key] = (call, lo, hi)
        return self.env.get(key, self.bases[key][1])

    # -- evaluation -------------------------------------------------------------------
    def _guard_depth(self):
        self._depth += 1
        if self._depth > 40:
            raise _Opaque("too deep")

    def seq(self, e: ast.expr) -> set[int]:
        self._guard_depth()
        try:
            return self._seq(e)
        finally:
            self._depth -= 1

    def _seq(self, e: ast.expr) -> set[int]:
        if isinstance(e, ast.Call):
            f = e.func
            if isinstance(f, ast.Attribute) and f.attr in _SPLITS + _PARTITIONS and not any(isinstance(a, ast.Starred) for a in e.args):
                r_ = f.value
                if isinstance(r_, ast.Name) and (r_.id in self.fi.module.classes or r_.id in self.fi.module.imports or r_.id in ("cls", "self")):
                    raise _Opaque("a method named split of a class / module, not str.split")
                return {self._base(e)}
            d = dotted(f)
            if d in _SAME_LENGTH and len(e.args) == 1 and not isinstance(e.args[0], ast.Starred):
                return self.seq(e.args[0])
            if d == "map" and len(e.args) == 2:
                return self.seq(e.args[1])
            if d == "filter" and len(e.args) == 2:
                return {k for n in self.seq(e.args[1]) for k in range(n + 1)}
            raise _Opaque(short(e, 40))
        if isinstance(e, ast.Name):
            out = self.seq(self._defn(e))
            if self._mutated(e.id):
                raise _UnpackUnsupported(f"`{e.id}` is modified in place between the split and the unpacking")
            return out
        if isinstance(e, (ast.List, ast.Tuple)):
            tot = {0}
            for x in e.elts:
                if isinstance(x, ast.Starred):
                    inner = self._operand(x.value)
                    tot = {a + b for a in tot for b in inner}
                else:
                    tot = {a + 1 for a in tot}
            return tot
        if isinstance(e, ast.BinOp) and isinstance(e.op, ast.Add):
            sides, opaque = [], 0
            for x in (e.left, e.right):
                try:
                    sides.append(self.seq(x))
                except _Opaque:
                    opaque += 1
            if opaque == 2:
                raise _Opaque(short(e, 40))
            if opaque:
                raise _UnpackUnsupported(f"one operand of `{short(e, 50)}` has a length that is not modelled")
            return {a + b for a in sides[0] for b in sides[1]}
        if isinstance(e, ast.BinOp) and isinstance(e.op, ast.Mult):
            for s_, n_ in ((e.left, e.right), (e.right, e.left)):
                try:
                    ls = self.seq(s_)
                except _Opaque:
                    continue
                try:
                    ns = self.num(n_)
                except _Opaque:
                    raise _UnpackUnsupported(f"repetition count `{short(n_, 30)}` is not a function of the split length")
                return {a * max(0, b) for a in ls for b in ns}
            raise _Opaque(short(e, 40))
        if isinstance(e, ast.Subscript):
            if not isinstance(e.slice, ast.Slice):
                raise _Opaque("element")
            ls = self.seq(e.value)
            sl = e.slice
            try:
                los = self.num(sl.lower) if sl.lower is not None else {None}
                ups = self.num(sl.upper) if sl.upper is not None else {None}
                sts = self.num(sl.step) if sl.step is not None else {None}
            except _Opaque:
                return {k for n in ls for k in range(n + 1)}
            out = set()
            for n in ls:
                for a in los:
                    for b in ups:
                        for c in sts:
                            if c == 0:
                                continue
                            out.add(len(range(*slice(a, b, c).indices(n))))
            return out
        if isinstance(e, (ast.ListComp, ast.GeneratorExp)):
            if len(e.generators) != 1:
                raise _Opaque("nested comprehension")
            g = e.generators[0]
            ls = self.seq(g.iter)
            if g.ifs:
                return {k for n in ls for k in range(n + 1)}
            return ls
        if isinstance(e, ast.IfExp):
            out = set()
            for t in self.truth(e.test, default={True, False}):
                out |= self.seq(e.body if t else e.orelse)
            return out
        if isinstance(e, ast.BoolOp) and isinstance(e.op, ast.Or) and len(e.values) == 2:
            out = set()
            for a in self.seq(e.values[0]):
                if a == 0:
                    out |= self._operand(e.values[1])
                else:
                    out.add(a)
            return out
        raise _Opaque(short(e, 40))

    def _operand(self, e: ast.expr) -> set[int]:
        """Operand of a length-combining operator: an unmodelled operand next to a modelled one is outside
        the subset (the caller turns this into "not judged" when no split result is involved at all)."""
        try:
            return self.seq(e)
        except _Opaque as exc:
            raise _UnpackUnsupported(f"length of `{short(e, 40)}` is not modelled") from exc

    def num(self, e: ast.expr) -> set[int]:
        self._guard_depth()
        try:
            return self._num(e)
        finally:
            self._depth -= 1

    def _num(self, e: ast.expr) -> set[int]:
        if isinstance(e, ast.Constant) and isinstance(e.value, int) and not isinstance(e.value, bool):
            self.consts.add(abs(e.value))
            return {e.value}
        if isinstance(e, ast.Call):
            d = dotted(e.func)
            if d == "len" and len(e.args) == 1:
                return self.seq(e.args[0])
            if d in ("min", "max") and len(e.args) >= 2 and not e.keywords:
                vals = [self.num(a) for a in e.args]
                out = vals[0]
                fn = min if d == "min" else max
                for v in vals[1:]:
                    out = {fn(a, b) for a in out for b in v}
                return out
            raise _Opaque(short(e, 40))
        if isinstance(e, ast.BinOp) and isinstance(e.op, (ast.Add, ast.Sub, ast.Mult)):
            ls, rs = self.num(e.left), self.num(e.right)
            if isinstance(e.op, ast.Add):
                return {a + b for a in ls for b in rs}
            if isinstance(e.op, ast.Sub):
                return {a - b for a in ls for b in rs}
            return {a * b for a in ls for b in rs}
        if isinstance(e, ast.UnaryOp) and isinstance(e.op, ast.USub):
            return {-a for a in self.num(e.operand)}
        if isinstance(e, ast.Name):
            return self.num(self._defn(e))
        if isinstance(e, ast.IfExp):
            out = set()
            for t in self.truth(e.test, default={True, False}):
                out |= self.num(e.body if t else e.orelse)
            return out
        raise _Opaque(short(e, 40))

    def truth(self, t: ast.expr, default: set[bool] | None = None) -> set[bool]:
        try:
            return self._truth(t)
        except _Opaque:
            if default is not None:
                return set(default)
            raise

    def _truth(self, t: ast.expr) -> set[bool]:
        if isinstance(t, ast.UnaryOp) and isinstance(t.op, ast.Not):
            return {not b for b in self._truth(t.operand)}
        if isinstance(t, ast.BoolOp):
            vals = [self._truth(v) for v in t.values]
            out = vals[0]
            for v in vals[1:]:
                out = {(a and b) if isinstance(t.op, ast.And) else (a or b) for a in out for b in v}
            return out
        if isinstance(t, ast.Compare) and len(t.ops) == 1:
            op, r = t.ops[0], t.comparators[0]
            if isinstance(op, (ast.In, ast.NotIn)) and isinstance(r, (ast.Tuple, ast.List, ast.Set)):
                ls = self.num(t.left)
                members = set()
                for x in r.elts:
                    members |= self.num(x)
                res = {a in members for a in ls}
                return res if isinstance(op, ast.In) else {not b for b in res}
            ls, rs = self.num(t.left), self.num(r)
            import operator as _op

            fn = {ast.Eq: _op.eq, ast.NotEq: _op.ne, ast.Lt: _op.lt, ast.LtE: _op.le, ast.Gt: _op.gt, ast.GtE: _op.ge}.get(type(op))
            if fn is None:
                raise _Opaque("comparison")
            return {fn(a, b) for a in ls for b in rs}
        if isinstance(t, (ast.Name, ast.Subscript, ast.Call, ast.BinOp, ast.List, ast.Tuple)):
            return {n != 0 for n in self.seq(t)}
        raise _Opaque(short(t, 40))

    # -- facts dominating the unpacking statement ------------------------------------
    def facts(self) -> list[tuple[ast.expr, bool]]:
        out = list(self.extra_facts)
        if self.cfg is not None:
            try:
                out += self.cfg.guards(self.cfg.stmt_of(self.at))
            except Exception:
                pass
        return out

    def admissible(self) -> bool:
        for test, pol in self.facts():
            try:
                r = self._truth(test)
            except (_Opaque, _UnpackUnsupported):
                continue
            if r == {not pol}:
                return False
        return True


def _sep_present(call: ast.Call, sep: ast.expr | None, model: _SeqLen) -> bool:
    """``SEP in <receiver>`` is a fact wherever the split executes (separator constant, same receiver text,
    receiver not re-bound between the test and the split)."""
    if not isinstance(sep, ast.Constant) or not isinstance(sep.value, str):
        return False
    recv = call.func.value  # type: ignore[union-attr]
    rtext = unparse(recv)
    from .flow import facts as _atomic

    facts = list(model.extra_facts)
    if model.cfg is not None:
        try:
            facts += model.cfg.guards(model.cfg.stmt_of(call))
        except Exception:
            pass
    # tests of the enclosing expression: `x.split(s, 1) if s in x else ...`, `[p.split(s, 1) for p in ps if s in p]`
    node: ast.AST = call
    for a in ancestors(call):
        if isinstance(a, (ast.stmt, ast.Lambda)):
            break
        if isinstance(a, ast.IfExp) and node is not a.test:
            facts += _atomic(a.test, node is a.body)
        if isinstance(a, (ast.ListComp, ast.GeneratorExp, ast.SetComp)) and node is a.elt:
            for g in a.generators:
                for t in g.ifs:
                    facts += _atomic(t, True)
        node = a
    # the receiver is the loop variable over a list that was filtered by `SEP in x` when it was built
    # (`keys = [k for k in d if SEP in k]` ... `for name in keys: a, b = name.split(SEP, 1)`)
    if isinstance(recv, ast.Name) and not model.fi.is_lambda:
        for lp in model.fi.local_nodes():
            if isinstance(lp, ast.For) and isinstance(lp.target, ast.Name) and lp.target.id == recv.id and isinstance(lp.iter, ast.Name) and any(call is x for b in lp.body for x in ast.walk(b)):
                L = lp.iter.id
                defs = [n for n in model.fi.local_nodes() if isinstance(n, ast.Assign) and len(n.targets) == 1 and isinstance(n.targets[0], ast.Name) and n.targets[0].id == L]
                stores = [n for n in model.fi.local_nodes() if isinstance(n, ast.Name) and n.id == L and isinstance(n.ctx, (ast.Store, ast.Del))]
                grows = any(
                    isinstance(c, ast.Call) and isinstance(c.func, ast.Attribute) and isinstance(c.func.value, ast.Name) and c.func.value.id == L
                    and c.func.attr not in ("sort", "reverse", "index", "count", "copy")
                    for c in model.fi.local_nodes()
                ) or any(isinstance(x, ast.Subscript) and isinstance(x.ctx, (ast.Store, ast.Del)) and isinstance(x.value, ast.Name) and x.value.id == L for x in model.fi.local_nodes())
                rebinds_var = any(isinstance(x, ast.Name) and x.id == recv.id and isinstance(x.ctx, ast.Store) and x is not lp.target for x in ast.walk(lp))
                def reorders_self(v_: ast.expr) -> bool:
                    """``sorted(L, ..)`` / ``list(reversed(L))`` / ``L[::-1]``: the same elements in another order."""
                    while True:
                        if isinstance(v_, ast.Call) and dotted(v_.func) in ("sorted", "list", "tuple", "reversed") and v_.args:
                            v_ = v_.args[0]
                        elif isinstance(v_, ast.Subscript) and isinstance(v_.slice, ast.Slice):
                            v_ = v_.value
                        else:
                            break
                    return isinstance(v_, ast.Name) and v_.id == L

                builds = [d_ for d_ in defs if not reorders_self(d_.value)]
                if len(builds) == 1 and len(stores) == len(defs) and not grows and not rebinds_var:
                    d = builds[0].value
                    if isinstance(d, (ast.ListComp, ast.GeneratorExp)) and len(d.generators) == 1 and isinstance(d.generators[0].target, ast.Name) and isinstance(d.elt, ast.Name) and d.elt.id == d.generators[0].target.id:
                        v = d.elt.id
                        for t_ in d.generators[0].ifs:
                            for tt, pol in _atomic(t_, True):
                                if pol and isinstance(tt, ast.Compare) and len(tt.ops) == 1 and isinstance(tt.ops[0], ast.In) and isinstance(tt.left, ast.Constant) and tt.left.value == sep.value and isinstance(tt.comparators[0], ast.Name) and tt.comparators[0].id == v:
                                    return True
    # ... or over a list / dict of lists that is filled element by element, each element under `SEP in x`
    # (`d.setdefault(k, []).append(key)` under `if SEP in key`; read back through chain.from_iterable(d.values()))
    if isinstance(recv, ast.Name) and not model.fi.is_lambda and model.cfg is not None:
        for lp in model.fi.local_nodes():
            if not (isinstance(lp, ast.For) and isinstance(lp.target, ast.Name) and lp.target.id == recv.id and any(call is x for b in lp.body for x in ast.walk(b))):
                continue
            it = lp.iter
            coll = None
            if isinstance(it, ast.Call) and (dotted(it.func) or "").split(".")[-1] in ("from_iterable", "chain") and len(it.args) == 1:
                a0 = it.args[0].value if isinstance(it.args[0], ast.Starred) else it.args[0]
                if isinstance(a0, ast.Call) and isinstance(a0.func, ast.Attribute) and a0.func.attr == "values" and isinstance(a0.func.value, ast.Name):
                    coll = a0.func.value.id
            if coll is None:
                continue
            if any(isinstance(x, ast.Name) and x.id == recv.id and isinstance(x.ctx, ast.Store) and x is not lp.target for x in ast.walk(lp)):
                continue
            inits = [n for n in model.fi.local_nodes() if isinstance(n, (ast.Assign, ast.AnnAssign)) and isinstance(getattr(n, "target", None) or n.targets[0], ast.Name) and (getattr(n, "target", None) or n.targets[0]).id == coll]
            if len(inits) != 1 or not (isinstance(inits[0].value, ast.Dict) and not inits[0].value.keys or (isinstance(inits[0].value, ast.Call) and dotted(inits[0].value.func) in ("dict", "defaultdict", "collections.defaultdict") )):
                continue
            ok_all, n_add = True, 0
            for n in model.fi.local_nodes():
                # every way an element gets into the lists of `coll`
                if isinstance(n, ast.Call) and isinstance(n.func, ast.Attribute) and n.func.attr in ("append", "insert", "extend", "add", "update"):
                    base_ = n.func.value
                    into = (
                        (isinstance(base_, ast.Call) and isinstance(base_.func, ast.Attribute) and base_.func.attr in ("setdefault", "get") and isinstance(base_.func.value, ast.Name) and base_.func.value.id == coll)
                        or (isinstance(base_, ast.Subscript) and isinstance(base_.value, ast.Name) and base_.value.id == coll)
                    )
                    if not into:
                        continue
                    n_add += 1
                    elem = n.args[-1] if n.args else None
                    good = False
                    if n.func.attr == "append" and isinstance(elem, ast.Name):
                        try:
                            fs = model.cfg.guards(model.cfg.stmt_of(n))
                        except Exception:
                            fs = []
                        for tt, pol in fs:
                            if pol and isinstance(tt, ast.Compare) and len(tt.ops) == 1 and isinstance(tt.ops[0], ast.In) and isinstance(tt.left, ast.Constant) and tt.left.value == sep.value and isinstance(tt.comparators[0], ast.Name) and tt.comparators[0].id == elem.id:
                                good = True
                    ok_all = ok_all and good
                if isinstance(n, ast.Subscript) and isinstance(n.ctx, ast.Store) and isinstance(n.value, ast.Name) and n.value.id == coll:
                    ok_all = False  # `coll[k] = <list>`: not modelled
            if ok_all and n_add:
                return True
    for test, pol in facts:
        if not (isinstance(test, ast.Compare) and len(test.ops) == 1 and isinstance(test.left, ast.Constant) and test.left.value == sep.value):
            continue
        if unparse(test.comparators[0]) != rtext:
            continue
        if not ((isinstance(test.ops[0], ast.In) and pol) or (isinstance(test.ops[0], ast.NotIn) and not pol)):
            continue
        root = recv
        while isinstance(root, (ast.Attribute, ast.Subscript, ast.Call)):
            root = root.func if isinstance(root, ast.Call) else root.value
        rebound = False
        if isinstance(root, ast.Name):
            for n in model.fi.local_nodes():
                if isinstance(n, ast.Name) and n.id == root.id and isinstance(n.ctx, ast.Store):
                    if getattr(test, "lineno", 0) < n.lineno <= call.lineno:
                        rebound = True
        if not rebound:
            return True
    return False


def judge_unpack(fi: FunctionInfo, at: ast.stmt, target: ast.expr, rhs: ast.expr, extra_facts=()) -> tuple[str, str] | None:
    """('raise', witness) | ('ok', reason) | ('unsupported', why) | None (no split-derived sequence: not judged)."""
    elts = target.elts  # type: ignore[attr-defined]
    starred = sum(isinstance(x, ast.Starred) for x in elts)
    fixed = len(elts) - starred
    model = _SeqLen(fi, at, list(extra_facts))

    def fits(n: int) -> bool:
        return n >= fixed if starred else n == fixed

    try:
        for _round in range(4):
            known = set(model.bases)
            model.env = {}
            model.seq(rhs)  # discovery with the minimal lengths
            if not model.bases:
                return None
            span = sum(model.consts) + fixed + 3
            ids = sorted(model.bases)
            doms = []
            total = 1
            for i in ids:
                _, lo, hi = model.bases[i]
                top = lo + span if hi is None else min(hi, lo + span)
                doms.append(range(lo, top + 1))
                total *= len(doms[-1])
            if total > 20000:
                return ("unsupported", "too many independent split results in one unpacked expression")
            bad = None
            n_adm = 0
            import itertools

            for combo in itertools.product(*doms):
                model.env = dict(zip(ids, combo))
                if not model.admissible():
                    continue
                n_adm += 1
                lens = model.seq(rhs)
                wrong = sorted(n for n in lens if not fits(n))
                if wrong and bad is None:
                    bad = (combo, wrong[0])
            if set(model.bases) != known and _round < 3:
                continue  # a branch revealed another split: enumerate again
            break
    except _Opaque:
        return None
    except _UnpackUnsupported as exc:
        return ("unsupported", str(exc)) if model.bases else None
    want = f"{'at least ' if starred else ''}{fixed}"
    if bad is not None:
        combo, got = bad
        parts = ", ".join(f"`{short(model.bases[i][0], 40)}` yields {n} field(s)" for i, n in zip(ids, combo))
        return ("raise", f"{got} value(s) for {want} target(s) when {parts}")
    if n_adm == 0:
        return ("ok", "the unpacking is unreachable for every split length (dominating tests exclude them all)")
    return ("ok", f"the length is {want} for every admissible split length (maxsplit / separator test / len() guard / slice+padding)")


def _after_successful_relfn2path(call: ast.Call, arg: ast.expr, fi: FunctionInfo) -> bool:
    """The construct runs only when a local is truthy / not None that is bound (apart from None / False) solely where
    ``relfn2path(<same text>)`` has completed normally - in the ``else`` of the try around it or after it in the try
    body - or solely under such a local (``is_file = p.is_file()`` under ``if potential_path:``)."""
    if fi.is_lambda:
        return False
    try:
        from .flow import get_cfg

        cfg = get_cfg(fi)
    except Exception:
        return False
    atext = unparse(arg)

    def witnesses(stmt) -> list[str]:
        out = []
        for t, pol in cfg.guards(stmt):
            if isinstance(t, ast.Name) and pol:
                out.append(t.id)
            if isinstance(t, ast.Compare) and len(t.ops) == 1 and isinstance(t.left, ast.Name) and isinstance(t.comparators[0], ast.Constant) and t.comparators[0].value is None:
                if (isinstance(t.ops[0], ast.IsNot) and pol) or (isinstance(t.ops[0], ast.Is) and not pol):
                    out.append(t.left.id)
        return out

    def after_success(st: ast.AST, atext: str = atext) -> bool:
        for a in ancestors(st):
            if isinstance(a, (ast.FunctionDef, ast.Lambda)):
                break
            if isinstance(a, ast.Try):
                rcalls = [c for b in a.body for c in ast.walk(b) if isinstance(c, ast.Call) and isinstance(c.func, ast.Attribute) and c.func.attr == "relfn2path" and c.args and unparse(c.args[0]) == atext]
                if not rcalls:
                    continue
                if any(st is x or st in ast.walk(x) for x in a.orelse):
                    return True
                if any(st is x or st in ast.walk(x) for x in a.body) and all(c.lineno < st.lineno for c in rcalls):
                    return True
        return False

    def helper_success(e: ast.AST) -> bool:
        """``self.H(<same text>)`` / ``H(<same text>)`` where H gives a non-None / non-False result only after
        ``relfn2path(<its parameter>)`` completed normally inside H."""
        if not (isinstance(e, ast.Call) and e.args):
            return False
        name = e.func.attr if isinstance(e.func, ast.Attribute) and isinstance(e.func.value, ast.Name) and e.func.value.id in ("self", "cls") else (e.func.id if isinstance(e.func, ast.Name) else None)
        H = None
        if name and fi.cls is not None and isinstance(e.func, ast.Attribute):
            H = fi.cls.methods.get(name)
        elif name:
            H = fi.module.functions.get(name)
        if H is None or H.is_lambda:
            return False
        pos = [x.arg for x in H.node.args.posonlyargs + H.node.args.args]
        if H.cls is not None and "staticmethod" not in H.decorators():
            pos = pos[1:]
        idx = next((i for i, a_ in enumerate(e.args) if unparse(a_) == atext), None)
        if idx is None or idx >= len(pos):
            return False
        ptext = pos[idx]
        if any(isinstance(x, ast.Name) and x.id == ptext and isinstance(x.ctx, ast.Store) for x in H.local_nodes()):
            return False
        rets = [r for r in H.local_nodes() if isinstance(r, ast.Return)]
        real = [r for r in rets if not (r.value is None or (isinstance(r.value, ast.Constant) and (r.value.value is None or r.value.value is False)))]
        implicit_none_ok = True
        return bool(real) and all(after_success(r, ptext) for r in real) and implicit_none_ok

    def implies_success(name: str, depth: int, seen: frozenset) -> bool:
        if depth > 4 or name in seen or name in fi.params:
            return False
        defs = []
        for n in fi.local_nodes():
            if isinstance(n, ast.Assign) and len(n.targets) == 1 and isinstance(n.targets[0], ast.Name) and n.targets[0].id == name:
                defs.append((n, n.value))
            elif isinstance(n, ast.AnnAssign) and isinstance(n.target, ast.Name) and n.target.id == name and n.value is not None:
                defs.append((n, n.value))
            elif isinstance(n, ast.Name) and n.id == name and isinstance(n.ctx, ast.Store) and not isinstance(parent(n), (ast.Assign, ast.AnnAssign)):
                defs.append((n, None))
        real = [(n, v) for n, v in defs if not (isinstance(v, ast.Constant) and (v.value is None or v.value is False))]
        if not real or any(v is None for _, v in real):
            return False
        for n, v_ in real:
            if after_success(n) or helper_success(v_):
                continue
            try:
                ws = witnesses(cfg.stmt_of(n))
            except Exception:
                return False
            if not any(implies_success(w, depth + 1, seen | {name}) for w in ws):
                return False
        return True

    try:
        st0 = cfg.stmt_of(call)
        ws0 = witnesses(st0)
        facts0 = cfg.guards(st0)
    except Exception:
        return False
    if any(implies_success(w, 0, frozenset()) for w in ws0):
        return True
    # the witness is the helper call itself: `if self.H(x) is None: ... return` before the construct
    for t, pol in facts0:
        if isinstance(t, ast.Compare) and len(t.ops) == 1 and isinstance(t.comparators[0], ast.Constant) and t.comparators[0].value is None and helper_success(t.left):
            if (isinstance(t.ops[0], ast.IsNot) and pol) or (isinstance(t.ops[0], ast.Is) and not pol):
                return True
        if pol and helper_success(t):
            return True
    return False


_FIELD_ENUMS = ("get_fields", "as_triple", "fields", "asdict")


def _getattr_field_guard(call: ast.Call, fi: FunctionInfo) -> bool:
    """``getattr(obj, NAME)`` where ``NAME in F`` holds and F is a comprehension / dict() over a dataclass field
    enumeration (``x.get_fields()``, ``x.as_triple()``, ``dc.fields(x)``, ``dc.asdict(x)``): NAME is a field name."""
    nm = call.args[1]
    if not isinstance(nm, ast.Name) or fi.is_lambda:
        return False
    try:
        from .flow import get_cfg

        cfg = get_cfg(fi)
        facts = cfg.guards(cfg.stmt_of(call))
    except Exception:
        return False
    for t, pol in facts:
        if not (isinstance(t, ast.Compare) and len(t.ops) == 1 and isinstance(t.left, ast.Name) and t.left.id == nm.id and isinstance(t.comparators[0], ast.Name)):
            continue
        if not ((isinstance(t.ops[0], ast.In) and pol) or (isinstance(t.ops[0], ast.NotIn) and not pol)):
            continue
        coll = t.comparators[0].id
        defs = [n.value for n in fi.local_nodes() if isinstance(n, ast.Assign) and len(n.targets) == 1 and isinstance(n.targets[0], ast.Name) and n.targets[0].id == coll]
        stores = [n for n in fi.local_nodes() if isinstance(n, ast.Name) and n.id == coll and isinstance(n.ctx, ast.Store)]
        if len(defs) != 1 or len(stores) != 1:
            continue
        d = defs[0]
        its = []
        if isinstance(d, (ast.DictComp, ast.SetComp, ast.ListComp)) and len(d.generators) == 1:
            its = [d.generators[0].iter]
        elif isinstance(d, ast.Call) and dotted(d.func) in ("dict", "set", "list", "tuple") and len(d.args) == 1:
            its = [d.args[0]]
        for it in its:
            for c in ast.walk(it):
                if isinstance(c, ast.Call) and (dotted(c.func) or "").split(".")[-1] in _FIELD_ENUMS:
                    return True
    return False


def _iterated_elements(it: ast.expr) -> list[tuple[ast.expr, list]]:
    """Element expressions of an iterable written in place (with the comprehension filters that hold for them)."""
    if isinstance(it, (ast.ListComp, ast.GeneratorExp)) and len(it.generators) == 1:
        from .flow import facts as _atomic

        return [(it.elt, [f for t in it.generators[0].ifs for f in _atomic(t, True)])]
    if isinstance(it, (ast.List, ast.Tuple)):
        return [(x, []) for x in it.elts if not isinstance(x, ast.Starred)]
    return []


def _str_or_none_typed(e: ast.expr, fi: FunctionInfo) -> bool:
    """``e`` is a parameter annotated ``str`` / ``str | None`` whose only rebindings keep it a str
    (``x = x or "lit"``, ``x = "lit"``)."""
    if isinstance(e, ast.Constant):
        return isinstance(e.value, str) or e.value is None
    if not isinstance(e, ast.Name) or fi.is_lambda:
        return False
    a = fi.node.args
    ann = None
    for p in a.posonlyargs + a.args + a.kwonlyargs:
        if p.arg == e.id:
            ann = p.annotation
    if ann is None or unparse(ann).replace(" ", "") not in ("str", "str|None", "None|str", "Optional[str]"):
        return False
    for st in walk_local(fi.node):
        targets = []
        if isinstance(st, ast.Assign):
            targets = st.targets
        elif isinstance(st, (ast.AugAssign, ast.AnnAssign)):
            targets = [st.target]
        elif isinstance(st, (ast.For, ast.comprehension)):
            targets = [st.target]
        elif isinstance(st, ast.NamedExpr):
            targets = [st.target]
        elif isinstance(st, ast.withitem) and st.optional_vars is not None:
            targets = [st.optional_vars]
        for t in targets:
            if any(isinstance(x, ast.Name) and x.id == e.id for x in ast.walk(t)):
                v = getattr(st, "value", None)
                ok = isinstance(st, ast.Assign) and isinstance(t, ast.Name) and (
                    (isinstance(v, ast.Constant) and isinstance(v.value, str))
                    or (
                        isinstance(v, ast.BoolOp)
                        and isinstance(v.op, ast.Or)
                        and all((isinstance(o, ast.Name) and o.id == e.id) or (isinstance(o, ast.Constant) and isinstance(o.value, str)) for o in v.values)
                    )
                )
                if not ok:
                    return False
    return True


class EscapeAnalysis:
    """ctx: 'docutils' | 'sphinx' | None (resolve renderer methods by all overrides)."""

    RENDERER_BASE = "mdit_to_docutils.base:DocutilsRenderer"
    RENDERER_SPHINX = "mdit_to_docutils.sphinx_:SphinxRenderer"

    def __init__(self, corpus: Corpus, ctx: str | None = None):
        self.c = corpus
        self.g: CallGraph = get_callgraph(corpus)
        self.h: ExcHierarchy = corpus.cache("exc-hierarchy", lambda: ExcHierarchy(corpus))
        self.ctx = ctx
        self.summ: dict[str, set[Esc]] = {}
        self.via: dict[tuple[str, tuple], tuple[str, str | None]] = {}
        self.discharged: list[tuple[str, str, str, str]] = []  # (fq, text, site, reason)
        self.assumed: list[tuple[str, str, str, str]] = []
        self._assumed_seen: set = set()
        self.catalogue_sites: dict[tuple[str, str], tuple[str, list[str]]] = {}
        self._renderer_classes = None
        self._computed = False
        self.token_line_unguarded: list = []
        self._unpack_verdicts: dict = {}
        self.unpack_witness: dict[tuple[str, str], str] = {}  # (fq, text) -> example lengths that raise
        self.unsupported: list[tuple[str, str, str, str]] = []  # (fq, text, site, why): construct outside the modelled subset

    # -- renderer concretisation -------------------------------------------
    def renderer_hierarchy(self):
        if self._renderer_classes is None:
            base = self.c.cls(self.RENDERER_BASE)
            self._renderer_classes = {ci.fq for ci in [base] + self.c.subclasses(base)}
        return self._renderer_classes

    def concrete(self):
        if self.ctx == "docutils":
            return self.c.cls(self.RENDERER_BASE)
        if self.ctx == "sphinx":
            return self.c.cls(self.RENDERER_SPHINX)
        return None

    def concretise(self, targets: list[FunctionInfo]) -> list[FunctionInfo]:
        conc = self.concrete()
        if conc is None:
            return targets
        out = []
        for t in targets:
            if t.cls is not None and t.cls.fq in self.renderer_hierarchy():
                m = self.c.lookup_method(conc, t.name)
                if m is not None and m not in out:
                    out.append(m)
            elif t not in out:
                out.append(t)
        return out

    # -- class of a raised expression -----------------------------------------
    def exc_class_of(self, e: ast.expr, fi: FunctionInfo) -> str | None:
        mod = fi.module
        if isinstance(e, ast.Call):
            f = e.func
            if isinstance(f, ast.Attribute) and f.attr == "with_traceback":
                return self.exc_class_of(f.value, fi)
            if isinstance(f, ast.Attribute) and isinstance(f.value, ast.Call):
                # a method called on a freshly built exception: `Err(...).clone(...)` -> the method's annotated return class
                inner = self.exc_class_of(f.value, fi)
                ci = self.c.find_class(inner) if inner else None
                if ci is not None:
                    m_ = self.c.lookup_method(ci, f.attr)
                    if m_ is not None and not m_.is_lambda and m_.node.returns is not None:
                        r = self.g.ann_class(m_.node.returns, m_.module)
                        if r:
                            return self.h.canonical(f"{r[1].module.name}.{r[1].name}")
                        if unparse(m_.node.returns).strip("'\"") in ("Self", ci.name):
                            return inner
            d = dotted(f)
            if d:
                full = mod.resolve(d)
                ci = self.c.find_class(full)
                if ci is not None:
                    return self.h.canonical(f"{ci.module.name}.{ci.name}")
                # method returning an exception (TokenizeError.clone)
                for t in self.g.resolve_call(e, fi):
                    if isinstance(t, FunctionInfo) and not t.is_lambda and t.node.returns is not None:
                        r = self.g.ann_class(t.node.returns, t.module)
                        if r:
                            return self.h.canonical(f"{r[1].module.name}.{r[1].name}")
                if full.split(".")[-1][:1].isupper():
                    return self.h.canonical(full)
            return None
        d = dotted(e)
        if d:
            full = mod.resolve(d)
            if self.c.find_class(full) is not None or full.split(".")[-1][:1].isupper():
                return self.h.canonical(full)
        return None

    def handler_classes(self, h: ast.ExceptHandler, fi: FunctionInfo) -> list[str]:
        if h.type is None:
            return [B + "BaseException"]
        elts = h.type.elts if isinstance(h.type, ast.Tuple) else [h.type]
        out = []
        for e in elts:
            d = dotted(e)
            if not d:
                out.append(B + "BaseException")
                continue
            expanded = self._exception_tuple_constant(d, fi)
            if expanded is not None:
                out.extend(expanded)
            else:
                out.append(self.h.canonical(fi.module.resolve(d)))
        return out

    def _exception_tuple_constant(self, d: str, fi: FunctionInfo, depth: int = 0) -> list[str] | None:
        """``except NAME`` where NAME is a module-level constant bound to a tuple of exception classes (in this module,
        or imported - also by a function-level import - from another module of the package)."""
        if depth > 3:
            return None
        mod, name = fi.module, d
        full = fi.module.resolve(d)
        if full == d and "." not in d and not fi.is_lambda:
            # a function-level `from pkg.mod import NAME`
            for n in fi.local_nodes():
                if isinstance(n, ast.ImportFrom) and n.module:
                    for a in n.names:
                        if (a.asname or a.name) == d:
                            full = f"{n.module}.{a.name}"
        if full != d and "." in full:
            mname, _, name = full.rpartition(".")
            m2 = self.c.modules.get(mname) or self.c.modules.get("myst_parser." + mname)
            if m2 is None:
                return None
            mod = m2
        node = mod.const_nodes.get(name) if "." not in name else None
        if not isinstance(node, (ast.Tuple, ast.List)):
            return None
        out: list[str] = []
        for e in node.elts:
            de = dotted(e)
            if not de:
                return None
            out.append(self.h.canonical(mod.resolve(de)))
        return out

    def caught(self, exc: str, classes: list[str]) -> bool:
        return any(self.h.is_sub(exc, c) for c in classes)

    # -- catalogue ----------------------------------------------------------------
    def catalogue(self, call: ast.Call, targets: list, fi: FunctionInfo) -> list[tuple[str, str]]:
        """[(exception class, label)] a catalogued library call may raise."""
        out: list[tuple[str, str]] = []
        names = [str(t) for t in targets if isinstance(t, (External, Unresolved))]
        attr = call.func.attr if isinstance(call.func, ast.Attribute) else None
        st = call
        while not isinstance(st, ast.stmt) and parent(st) is not None:
            st = parent(st)

        def add(excs, label):
            out.extend((e, label) for e in excs)

        for n in names:
            if n in ("yaml.safe_load", "yaml.load", "yaml.safe_load_all", "yaml.full_load", "yaml.unsafe_load"):
                add(YAML_ERRORS, "yaml load")
                if self.yaml_recurses():
                    add([B + "RecursionError"], "yaml load (PyYAML's Composer/Constructor recurse once per nesting level: `[[[[...` deeper than the recursion limit)")
                extra = self.yaml_scalar_constructor_errors()
                if extra:
                    add(extra, "yaml load (SafeConstructor scalar constructors raise plain builtin exceptions, not YAMLError: ValueError for int()/datetime of a matched scalar; KeyError / IndexError / AttributeError for explicitly tagged scalars such as `!!bool maybe`, `!!int ''`, `!!timestamp today`)")
            elif n in ("urllib.parse.urlparse", "urllib.parse.urlsplit"):
                if call.args and isinstance(call.args[0], ast.Constant):
                    pass
                else:
                    add([B + "ValueError"], "urlparse/urlsplit of document text ('Invalid IPv6 URL' for an unbalanced '[' in the netloc, NFKC netloc check)")
            elif n == "json.dumps":
                if call.args and _str_or_none_typed(call.args[0], fi):
                    self._discharge(fi, call, "json.dumps(): the argument is a parameter annotated str / str | None that is only rebound to itself-or-a-string-literal (json serialises every str and None)")
                else:
                    add([B + "TypeError", B + "ValueError"], "json.dumps of an arbitrary value")
            elif n == B + "chr":
                if call.args and isinstance(call.args[0], ast.Constant):
                    pass
                elif _chr_guard(call):
                    self._discharge(fi, call, "chr(): preceded by `if code > MAX: raise` with MAX <= 0x10FFFF; code comes from int(<hex digits>, 16) >= 0")
                else:
                    add([B + "ValueError", B + "OverflowError"], "chr() of a computed code point")
            elif n == B + "int" and call.args:
                a0 = call.args[0]
                if isinstance(a0, ast.Constant) and isinstance(a0.value, (int, float, bool)):
                    pass
                elif _digits_guard(call):
                    self._discharge(fi, call, "int(): argument is dominated by a digit-set membership test")
                elif self._digits_guard_observer(call, fi):
                    self._discharge(fi, call, "int(): the argument is a pure observation of a parameter object (e.g. stream.peek()) made before the function changes that object; at every call site the same observation is dominated by a digit-set membership test with no change of the object in between")
                elif self._digits_guard_callers(call, fi):
                    self._discharge(fi, call, "int(): the argument is a parameter; at every call site of the function it is dominated by a digit-set membership test")
                elif _hex_loop_guard(call):
                    self._discharge(fi, call, "int(.., 16): preceded by a loop raising on the first non-hex digit")
                elif isinstance(a0, ast.Call) and dotted(a0.func) in ("len", "round", "int", "ord"):
                    pass
                elif (fi.fq.replace("myst_parser.", "", 1), unparse(call)) in self.ASSUMED_CALLS:
                    self._assume(fi, call, self.ASSUMED_CALLS[(fi.fq.replace("myst_parser.", "", 1), unparse(call))])
                else:
                    add([B + "ValueError"], "int() of a string")
            elif n in (B + "open", "urllib.request.urlopen"):
                add([B + "OSError", B + "ValueError"], "opening a file/URL")
            elif n == "html.parser.HTMLParser.feed":
                if self._marked_section_guard(fi):
                    self._discharge(fi, call, "HTMLParser.feed: the class overrides parse_marked_section and catches the AssertionError of the stdlib implementation (the only raise reachable from goahead() in CPython 3.12)")
                else:
                    add([B + "AssertionError"], "HTMLParser.feed (CPython raises AssertionError on unknown marked sections)")
            elif n == "docutils.utils.code_analyzer.Lexer":
                a2 = call.args[2] if len(call.args) > 2 else None
                if not (isinstance(a2, ast.Constant) and a2.value == "none"):
                    add(["docutils.utils.code_analyzer.LexerError"], "pygments lexer lookup")
            elif n in ("sphinx.util.parselinenos",):
                add([B + "ValueError"], "parselinenos")
            elif n == "importlib.import_module":
                add([B + "ImportError", B + "ValueError"], "import_module of a configured dotted path")
            elif n == B + "getattr" and len(call.args) == 2:
                if self._getattr_method_table(call, fi):
                    self._discharge(fi, call, "2-argument getattr(self, TABLE[k]): every value of the class-level table names a method the class defines")
                elif _getattr_field_guard(call, fi):
                    self._discharge(fi, call, "2-argument getattr: the attribute name is dominated by a membership test in a collection built from the dataclass' own field enumeration")
                else:
                    add([B + "AttributeError"], "2-argument getattr")
            elif n == B + "next" and len(call.args) == 1:
                if self._infinite_iterator(call.args[0], fi):
                    self._discharge(fi, call, "next(): the iterator is only ever bound to itertools.count()/cycle()/repeat(x), which never stop")
                else:
                    add([B + "StopIteration"], "next() without default")
            elif n == "jinja2.Environment" :
                pass
        # consuming N characters of the option stream before the loop that validates those N characters has run:
        # only validated characters are known to lie before the end sentinel (StreamBuffer.forward indexes the buffer)
        if attr == "forward" and len(call.args) == 1 and isinstance(call.args[0], ast.Name) and isinstance(st, ast.stmt):
            loop = _validation_loop_for(st, call.args[0].id)
            if loop is not None:
                blk_ = _block_of(st)
                if blk_ is not None and loop in blk_ and blk_.index(st) < blk_.index(loop):
                    add([B + "IndexError"], f"stream.forward({call.args[0].id}) before the {call.args[0].id} characters were validated: a sequence cut short by the end of the text runs past the sentinel")
        # Sphinx's env.relfn2path() ends in Path.resolve(): ValueError('embedded null byte') for a file name with NUL
        if attr == "relfn2path" and call.args and self.relfn2path_resolves():
            how = self._nul_status(call.args[0], call, fi)
            if how == "tainted":
                add([B + "ValueError"], "env.relfn2path() -> Path.resolve() of text that went through percent-decoding (%00 -> NUL: 'embedded null byte')")
            elif how == "tested":
                self._discharge(fi, call, "relfn2path(): the argument is dominated by a test that it contains no NUL")
            else:
                self._assume(fi, call, "relfn2path(): the argument does not derive from percent-decoded text; markdown-it's normalize rule replaces every NUL of the source by U+FFFD" + ("" if self.mdit_replaces_nul() else " (NOT confirmed in markdown_it/rules_core/normalize.py)"))
        for n in names:
            if n.endswith("addnodes.download_reference") and self.relfn2path_resolves():
                rt = next((k.value for k in call.keywords if k.arg == "reftarget"), None)
                if rt is not None:
                    how = self._nul_status(rt, call, fi)
                    if how == "tainted" and not _after_successful_relfn2path(call, rt, fi):
                        add([B + "ValueError"], "download_reference(reftarget=<percent-decoded text>): Sphinx's DownloadFileCollector passes it to env.relfn2path() -> 'embedded null byte' aborts the build")
                    elif how == "tainted":
                        self._discharge(fi, call, "download_reference(reftarget=..): only built when env.relfn2path() of the same text succeeded")
                    elif how == "tested":
                        self._discharge(fi, call, "download_reference(reftarget=..): dominated by a test that the target contains no NUL")
        if attr in ("read_text", "read_bytes"):
            add([B + "OSError", B + "ValueError", B + "LookupError"], "reading a file")
        elif attr in ("is_file", "is_dir", "exists") and not call.args:
            add([B + "OSError"], "Path stat (pathlib re-raises everything but ENOENT/ENOTDIR/EBADF/ELOOP, e.g. ENAMETOOLONG)")
        elif attr in ("decompress", "flush") and any(n.startswith("?.") for n in names) and self._zlib_receiver(call, fi):
            add(["zlib.error"], "zlib decompression")
        elif attr == "decode" and not call.args and any(n.startswith("?.") for n in names):
            add([B + "UnicodeDecodeError"], "bytes.decode()")
        elif attr in ("from_string", "parse", "render") and self._jinja_receiver(call, fi):
            if attr == "parse" and self._jinja_parse_after_compile(call, fi):
                self._assume(fi, call, "jinja env.parse of the very string from_string() compiled earlier on this path")
            else:
                add([B + "Exception"], "jinja2 template compilation/rendering")
                if attr == "render" and not self._jinja_sandboxed(call, fi):
                    add([B + "SystemExit"], "jinja2 expression rendered outside a SandboxedEnvironment: document text reaches __globals__/__builtins__ and can run arbitrary code (exit(), os._exit, open())")
        # (tuple-unpack of split-derived sequences: statement-level entry, see unpack_raises)
        # foreign callables
        for t in targets:
            if isinstance(t, Special) and t.kind == DIRECTIVE_RUN:
                add([B + "Exception"], f"{t.text}(): a directive's run() is foreign code; docutils' own directives raise outside their contract (Figure.run: IndexError on a body that parses to nothing)")
            elif isinstance(t, Special) and t.kind == FOREIGN:
                add([B + "Exception"], f"foreign callable {t.text}(...) applied to document text")
            elif isinstance(t, Special) and t.kind == CONVERTER_TABLE:
                bad = self.converter_tables_not_docutils()
                if bad:
                    add([B + "Exception"], f"attribute converter that is not a docutils option converter: {bad[0]}")
                else:
                    # docutils option converters raise ValueError for a bad *string* (TypeError only for None)
                    add([B + "ValueError"], "docutils option converter applied to str(value)")
        return out

    def relfn2path_resolves(self) -> bool:
        """Sphinx's BuildEnvironment.relfn2path calls ``.resolve()`` outside any try (read from the sibling source)."""

        def compute():
            m = self.c.sibling_module("sphinx.environment")
            f = m.functions.get("BuildEnvironment.relfn2path") if m is not None else None
            if f is None:
                return True  # not readable: assume the behaviour of the pinned Sphinx
            for c in f.local_nodes():
                if isinstance(c, ast.Call) and isinstance(c.func, ast.Attribute) and c.func.attr in ("resolve", "realpath", "abspath"):
                    if not any(isinstance(a, ast.Try) and any(c in ast.walk(b) for b in a.body) for a in ancestors(c)):
                        return True
            return False

        return self.c.cache("sphinx-relfn2path-resolves", compute)

    def mdit_replaces_nul(self) -> bool:
        def compute():
            try:
                m = self.c.sibling("markdown_it/rules_core/normalize.py")
            except Exception:
                return False
            pat = m.const_nodes.get("NULL_RE")
            ok_pat = pat is not None and any(isinstance(x, ast.Constant) and x.value in ("\\0", "\0", "\x00") for x in ast.walk(pat))
            subs = any(isinstance(c, ast.Call) and unparse(c.func) == "NULL_RE.sub" for f in m.functions.values() for c in f.local_nodes())
            return ok_pat and subs

        return self.c.cache("mdit-replaces-nul", compute)

    _DECODERS = ("normalizeLinkText", "unquote", "unquote_plus", "unquote_to_bytes")

    def _nul_tainted(self, e: ast.AST, fi: FunctionInfo, seen: set, depth: int = 0) -> bool:
        """The text may contain a NUL: it derives from a percent-decoding call or from a parameter of unknown origin."""
        if depth > 8:
            return True
        for x in ast.walk(e):
            if isinstance(x, ast.Call):
                nm = x.func.attr if isinstance(x.func, ast.Attribute) else (x.func.id if isinstance(x.func, ast.Name) else "")
                if nm in self._DECODERS or fi.module.resolve(dotted(x.func) or "") in ("mdurl.decode", "mdurl._decode.decode"):
                    return True
            if isinstance(x, ast.Name) and isinstance(x.ctx, ast.Load) and x.id not in seen and x.id not in ("self", "cls"):
                if isinstance(parent(x), ast.Call) and parent(x).func is x:
                    continue
                seen.add(x.id)
                if not fi.is_lambda and x.id in fi.params:
                    return True
                if fi.is_lambda:
                    continue
                for n in fi.local_nodes():
                    val = None
                    if isinstance(n, ast.Assign) and any(isinstance(t, ast.Name) and t.id == x.id and isinstance(t.ctx, ast.Store) for tg in n.targets for t in ast.walk(tg)):
                        val = n.value
                    elif isinstance(n, (ast.AnnAssign, ast.AugAssign, ast.NamedExpr)) and isinstance(n.target, ast.Name) and n.target.id == x.id:
                        val = n.value
                    elif isinstance(n, (ast.For, ast.comprehension)) and any(isinstance(t, ast.Name) and t.id == x.id for t in ast.walk(n.target)):
                        val = n.iter
                    if val is not None and self._nul_tainted(val, fi, seen, depth + 1):
                        return True
        return False

    def _nul_status(self, arg: ast.expr, call: ast.Call, fi: FunctionInfo) -> str:
        """'tainted' | 'tested' | 'clean'"""
        if not self._nul_tainted(arg, fi, set()):
            return "clean"
        if fi.is_lambda:
            return "tainted"
        try:
            from .flow import get_cfg

            cfg = get_cfg(fi)
            facts = cfg.guards(cfg.stmt_of(call))
        except Exception:
            return "tainted"
        names = {x.id for x in ast.walk(arg) if isinstance(x, ast.Name)}
        for t, pol in facts:
            if not (isinstance(t, ast.Compare) and len(t.ops) == 1 and isinstance(t.left, ast.Constant) and t.left.value in ("\x00", "\0")):
                continue
            if not ((isinstance(t.ops[0], ast.In) and not pol) or (isinstance(t.ops[0], ast.NotIn) and pol)):
                continue
            tested = t.comparators[0]
            if unparse(tested) == unparse(arg):
                return "tested"
            # the argument is a part (split / slice) of the tested text, bound after the test or before it from the same text
            if isinstance(tested, ast.Name) and isinstance(arg, ast.Name) and not fi.is_lambda:
                defs = [n.value for n in fi.local_nodes() if isinstance(n, ast.Assign) and any(isinstance(x, ast.Name) and x.id == arg.id and isinstance(x.ctx, ast.Store) for tg in n.targets for x in ast.walk(tg))]
                if defs and all({x.id for x in ast.walk(d) if isinstance(x, ast.Name) and isinstance(x.ctx, ast.Load) and not (isinstance(parent(x), ast.Call) and parent(x).func is x)} <= {tested.id} for d in defs):
                    return "tested"
        return "tainted"

    def yaml_recurses(self) -> bool:
        """PyYAML's Composer is recursive in the nesting depth of the document: ``compose_node`` calls
        ``compose_sequence_node`` / ``compose_mapping_node``, which call ``compose_node`` again (read from the sibling
        source; when it cannot be read the documented behaviour is assumed)."""

        def compute():
            try:
                m = self.c.sibling("yaml/composer.py")
            except Exception:
                return True
            ci = m.classes.get("Composer")
            if ci is None:
                return True
            edges: dict[str, set[str]] = {}
            for name, f in ci.methods.items():
                edges[name] = {
                    c.func.attr
                    for c in f.local_nodes()
                    if isinstance(c, ast.Call) and isinstance(c.func, ast.Attribute) and isinstance(c.func.value, ast.Name) and c.func.value.id == "self" and c.func.attr in ci.methods
                }
            # a cycle reachable from compose_node
            start = "compose_node"
            if start not in edges:
                return True
            seen, work = set(), [start]
            while work:
                n = work.pop()
                for t in edges.get(n, ()):
                    if t == start:
                        return True
                    if t not in seen:
                        seen.add(t)
                        work.append(t)
            return False

        return self.c.cache("yaml-recurses", compute)

    def yaml_scalar_constructor_errors(self) -> list[str]:
        """What the scalar constructors of PyYAML's SafeConstructor raise besides YAMLError, read from the sibling
        source: a ``construct_yaml_*`` method that calls ``int``/``float``/``datetime.date``/``datetime.datetime``/
        ``datetime.timezone`` outside any ``try`` lets the ValueError of an out-of-range but regex-matching scalar
        (``2001-13-45``, ``0x_``, ``+99:00``) propagate out of ``yaml.safe_load``."""

        def compute():
            try:
                m = self.c.sibling("yaml/constructor.py")
            except Exception:
                return [B + "ValueError"]  # source not readable: assume the documented behaviour of PyYAML 5/6
            ci = m.classes.get("SafeConstructor")
            if ci is None:
                return [B + "ValueError"]
            fallible = ("int", "float", "datetime.date", "datetime.datetime", "datetime.timezone")
            found: set[str] = set()
            for name, f in ci.methods.items():
                if not name.startswith("construct_yaml_"):
                    continue
                def unprotected(x) -> bool:
                    return not any(isinstance(a, ast.Try) and any(x in ast.walk(b) for b in a.body) for a in ancestors(x))

                for c in f.local_nodes():
                    if isinstance(c, ast.Call) and dotted(c.func) in fallible and c.args and not isinstance(c.args[0], ast.Constant):
                        if unprotected(c):
                            found.add(B + "ValueError")
                    # an explicitly tagged scalar (`!!bool maybe`, `!!int ''`, `!!timestamp today`) reaches the constructor
                    # without having matched the implicit resolver's regex:
                    if isinstance(c, ast.Subscript) and isinstance(c.ctx, ast.Load) and unprotected(c):
                        if isinstance(c.value, ast.Attribute) and isinstance(c.value.value, ast.Name) and c.value.value.id == "self" and not isinstance(c.slice, ast.Constant):
                            found.add(B + "KeyError")  # self.bool_values[value.lower()]
                        if isinstance(c.value, ast.Name) and isinstance(c.slice, ast.Constant) and isinstance(c.slice.value, int):
                            found.add(B + "IndexError")  # value[0] of an empty scalar
                    if isinstance(c, ast.Attribute) and isinstance(c.value, ast.Name) and unprotected(c):
                        # the result of <regexp>.match(..) dereferenced without a None test
                        src_ = [n for n in f.local_nodes() if isinstance(n, ast.Assign) and len(n.targets) == 1 and isinstance(n.targets[0], ast.Name) and n.targets[0].id == c.value.id]
                        if src_ and all(isinstance(n.value, ast.Call) and isinstance(n.value.func, ast.Attribute) and n.value.func.attr in ("match", "fullmatch", "search") for n in src_):
                            tested = any(isinstance(i, ast.If) and c.value.id in unparse(i.test) for i in f.local_nodes())
                            if not tested:
                                found.add(B + "AttributeError")
            return sorted(found)

        return self.c.cache("yaml-scalar-constructor-errors", compute)

    def converter_tables_not_docutils(self) -> list[str]:
        """Every ``converters=`` argument in the package is a dict literal whose values are
        ``docutils.parsers.rst.directives.*`` functions or lambdas that only call those."""

        def compute():
            bad = []
            n = 0
            for fi in self.c.all_functions():
                if fi.is_lambda:
                    continue
                for call in [x for x in walk_local(fi.node) if isinstance(x, ast.Call)]:
                    for k in call.keywords:
                        if k.arg != "converters":
                            continue
                        n += 1
                        table = k.value
                        # a module-level constant, possibly wrapped read-only: NAME = MappingProxyType({...}) / dict({...})
                        if isinstance(table, ast.Name) and table.id in fi.module.const_nodes:
                            table = fi.module.const_nodes[table.id]
                        if isinstance(table, ast.Call) and (dotted(table.func) or "").split(".")[-1] in ("MappingProxyType", "dict", "frozendict") and len(table.args) == 1 and not table.keywords:
                            table = table.args[0]
                        if not isinstance(table, ast.Dict):
                            bad.append(f"{fi.module.site(call)} converters= is not a dict literal (or a module constant bound to one)")
                            continue

                        def docutils_only(e: ast.expr, depth: int = 0) -> bool:
                            f = e.func if isinstance(e, ast.Call) else e
                            full = fi.module.resolve(dotted(f) or "")
                            if full.startswith("docutils.parsers.rst.directives."):
                                return True
                            # a package function that only wraps docutils converters
                            pf = fi.module.functions.get(dotted(f) or "")
                            if pf is not None and not pf.is_lambda and depth < 2:
                                calls = [c for c in pf.local_nodes() if isinstance(c, ast.Call)]
                                return bool(calls) and all(docutils_only(c, depth + 1) for c in calls) and not any(isinstance(x, ast.Raise) for x in pf.local_nodes())
                            return False

                        for v in table.values:
                            exprs = [v.body] if isinstance(v, ast.Lambda) else [v]
                            for e in exprs:
                                if not docutils_only(e):
                                    bad.append(f"{fi.module.site(call)} {unparse(v)}")
            self.converter_table_count = n
            return bad

        return self.c.cache("converter-tables", compute)

    def _digits_guard_callers(self, call: ast.Call, fi: FunctionInfo) -> bool:
        """``int(PARAM)`` where PARAM is a never re-bound parameter: discharged when the function is only ever
        called (it is not passed around as a value) and at EVERY call site the corresponding argument is a name
        dominated by a digit-set membership test."""
        if len(call.args) != 1 or not isinstance(call.args[0], ast.Name) or call.keywords:
            return False
        name = call.args[0].id
        pi = _param_index(fi, name)
        if pi is None or fi.cls is not None or fi.parent_func is not None:
            return False
        idx = pi[0]
        sites = self.g.callers().get(fi.fq, [])
        if not sites or self._used_as_value(fi):
            return False
        for caller, c in sites:
            if any(isinstance(x, ast.Starred) for x in c.args) or any(k.arg is None for k in c.keywords):
                return False
            arg = None
            if 0 <= idx < len(c.args):
                arg = c.args[idx]
            for k in c.keywords:
                if k.arg == name:
                    arg = k.value
            if not isinstance(arg, ast.Name) or not _digit_test_encloses(c, arg.id):
                return False
        return True

    # -- int(P.observe()) with the digit test at the call sites ---------------------------------------
    def _pure_observers(self, ci) -> set[str]:
        """Methods of a package class whose body is a single ``return <expression without calls or stores>``."""
        out = set()
        for c in self.c.mro(ci):
            for name, m in c.methods.items():
                body = [st for st in m.node.body if not (isinstance(st, ast.Expr) and isinstance(st.value, ast.Constant))]
                if len(body) == 1 and isinstance(body[0], ast.Return) and body[0].value is not None:
                    if not any(isinstance(x, (ast.Call, ast.NamedExpr, ast.Yield, ast.Await)) for x in ast.walk(body[0].value)):
                        out.add(name)
        return out

    def _param_class(self, fi: FunctionInfo, pname: str):
        a = fi.node.args
        for p_ in a.posonlyargs + a.args + a.kwonlyargs:
            if p_.arg == pname and p_.annotation is not None:
                r = self.g.ann_class(p_.annotation, fi.module)
                if r:
                    return r[1]
        return None

    def _changes_object(self, st, obj: str, observers: set[str]) -> bool:
        """The CFG statement may change the object bound to ``obj`` (or re-bind the name)."""
        exprs = [st.test] if isinstance(st, (ast.If, ast.While)) else [st.iter, st.target] if isinstance(st, ast.For) else list(st.items) if isinstance(st, ast.With) else [] if isinstance(st, (ast.Try, ast.FunctionDef, ast.ClassDef)) else [st]
        for e in exprs:
            for x in ast.walk(e):
                if isinstance(x, ast.Name) and x.id == obj and isinstance(x.ctx, (ast.Store, ast.Del)):
                    return True
                if isinstance(x, ast.Call):
                    if isinstance(x.func, ast.Attribute) and isinstance(x.func.value, ast.Name) and x.func.value.id == obj:
                        if x.func.attr not in observers:
                            return True
                        continue
                    if any(isinstance(a, ast.Name) and a.id == obj for a in list(x.args) + [k.value for k in x.keywords]):
                        return True
                if isinstance(x, (ast.Attribute, ast.Subscript)) and isinstance(x.ctx, (ast.Store, ast.Del)):
                    r = x
                    while isinstance(r, (ast.Attribute, ast.Subscript)):
                        r = r.value
                    if isinstance(r, ast.Name) and r.id == obj:
                        return True
        return False

    def _digits_guard_observer(self, call: ast.Call, fi: FunctionInfo) -> bool:
        if len(call.args) != 1 or call.keywords or fi.is_lambda or fi.cls is not None or fi.parent_func is not None:
            return False
        e = call.args[0]
        if not (isinstance(e, ast.Call) and isinstance(e.func, ast.Attribute) and isinstance(e.func.value, ast.Name) and not e.keywords and all(isinstance(a, ast.Constant) for a in e.args)):
            return False
        pname, meth = e.func.value.id, e.func.attr
        pi = _param_index(fi, pname)
        ci = self._param_class(fi, pname)
        if pi is None or ci is None:
            return False
        observers = self._pure_observers(ci)
        if meth not in observers:
            return False
        from .flow import get_cfg

        # inside the helper: the observation happens before anything changes the object
        try:
            cfg = get_cfg(fi)
            here = cfg.stmt_of(call)
        except Exception:
            return False
        for nd in cfg.nodes:
            if isinstance(nd, ast.stmt) and nd is not here and self._changes_object(nd, pname, observers) and here in cfg.reachable_from(nd):
                return False
        sites = self.g.callers().get(fi.fq, [])
        if not sites or self._used_as_value(fi):
            return False
        obs_args = [unparse(a) for a in e.args]
        for caller, c in sites:
            if caller.is_lambda or any(isinstance(x, ast.Starred) for x in c.args) or any(k.arg is None for k in c.keywords):
                return False
            arg = c.args[pi[0]] if 0 <= pi[0] < len(c.args) else None
            for k in c.keywords:
                if k.arg == pname:
                    arg = k.value
            if not isinstance(arg, ast.Name):
                return False
            if not self._observation_digit_tested(caller, c, arg.id, meth, obs_args, observers):
                return False
        return True

    def _observation_digit_tested(self, caller: FunctionInfo, c: ast.Call, obj: str, meth: str, obs_args: list[str], observers: set[str]) -> bool:
        """The call sits in the true branch of ``if <obs> in "<digits>"`` where <obs> is ``obj.meth(args)`` itself or a
        local whose reaching definition is that observation, and nothing changes ``obj`` between the observation
        and the call."""
        from .flow import get_cfg

        try:
            cfg = get_cfg(caller)
            C = cfg.stmt_of(c)
        except Exception:
            return False

        def is_obs(x: ast.AST) -> bool:
            return (
                isinstance(x, ast.Call) and isinstance(x.func, ast.Attribute) and x.func.attr == meth and isinstance(x.func.value, ast.Name)
                and x.func.value.id == obj and [unparse(a) for a in x.args] == obs_args and not x.keywords
            )

        for a in ancestors(c):
            if isinstance(a, (ast.FunctionDef, ast.Lambda)):
                break
            if not isinstance(a, ast.If):
                continue
            t = a.test
            if not (isinstance(t, ast.Compare) and len(t.ops) == 1 and isinstance(t.ops[0], ast.In) and _is_digit_set(t.comparators[0])):
                continue
            n_ = c
            while parent(n_) is not a:
                n_ = parent(n_)
            if n_ not in a.body:
                continue
            if is_obs(t.left):
                starts = [("T", a)]
            elif isinstance(t.left, ast.Name):
                v = t.left.id
                defs = [n for n in caller.local_nodes() if isinstance(n, ast.Assign) and len(n.targets) == 1 and isinstance(n.targets[0], ast.Name) and n.targets[0].id == v]
                others = [n for n in caller.local_nodes() if isinstance(n, ast.Name) and n.id == v and isinstance(n.ctx, ast.Store) and not any(n is d.targets[0] for d in defs)]
                if others or not defs:
                    continue
                # every definition of v that can reach the test without passing another definition must be the observation
                reaching = [d for d in defs if cfg.paths_avoiding(d, a, lambda nd: any(nd is o for o in defs))]
                if not reaching or not all(is_obs(d.value) for d in reaching):
                    continue
                starts = reaching
            else:
                continue
            # nothing changes the object on a path from the observation to the call
            bad = False
            for nd in cfg.nodes:
                if isinstance(nd, ast.stmt) and nd is not C and self._changes_object(nd, obj, observers):
                    for s0 in starts:
                        if nd in cfg.reachable_from(s0) and C in cfg.reachable_from(nd) and not (isinstance(s0, ast.stmt) and nd is s0):
                            # ... unless every path from the change to the call passes the observation again
                            if cfg.paths_avoiding(nd, C, lambda x: any(x is s1 for s1 in starts)):
                                bad = True
            if not bad:
                return True
        return False

    def _used_as_value(self, fi: FunctionInfo) -> bool:
        """The function's name occurs somewhere in the package other than as the callee of a call (or its own def)."""

        def compute():
            refs: dict[str, int] = {}
            for m in self.c.modules.values():
                for n in ast.walk(m.tree):
                    nm = None
                    if isinstance(n, ast.Name) and isinstance(n.ctx, ast.Load):
                        nm = n.id
                    elif isinstance(n, ast.Attribute) and isinstance(n.ctx, ast.Load):
                        nm = n.attr
                    if nm is None:
                        continue
                    p = parent(n)
                    if isinstance(p, ast.Call) and p.func is n:
                        continue
                    refs[nm] = refs.get(nm, 0) + 1
            return refs

        return self.c.cache("names-used-as-values", compute).get(fi.name, 0) > 0

    def _infinite_iterator(self, e: ast.expr, fi: FunctionInfo) -> bool:
        def infinite(v: ast.expr, mod) -> bool:
            if not isinstance(v, ast.Call):
                return False
            full = mod.resolve(dotted(v.func) or "")
            return full in ("itertools.count", "itertools.cycle") or (full == "itertools.repeat" and len(v.args) == 1 and not v.keywords)

        binds: list[tuple[ast.expr | None, object]] = []
        if isinstance(e, ast.Name) and not fi.is_lambda:
            if e.id in fi.params:
                return False
            for n in fi.local_nodes():
                if isinstance(n, ast.Name) and n.id == e.id and isinstance(n.ctx, ast.Store):
                    p_ = parent(n)
                    binds.append((p_.value if isinstance(p_, ast.Assign) and len(p_.targets) == 1 and p_.targets[0] is n else None, fi.module))
        elif isinstance(e, ast.Attribute) and isinstance(e.value, ast.Name) and e.value.id in ("self", "cls") and fi.cls is not None:
            for m in self.c.modules.values():
                for n in ast.walk(m.tree):
                    if isinstance(n, ast.Attribute) and n.attr == e.attr and isinstance(n.ctx, ast.Store):
                        p_ = parent(n)
                        binds.append((p_.value if isinstance(p_, ast.Assign) and len(p_.targets) == 1 else None, m))
            for c in self.c.mro(fi.cls) + self.c.subclasses(fi.cls):
                for st in c.node.body:
                    tg = st.targets[0] if isinstance(st, ast.Assign) and len(st.targets) == 1 else (st.target if isinstance(st, ast.AnnAssign) else None)
                    if isinstance(tg, ast.Name) and tg.id == e.attr:
                        binds.append((getattr(st, "value", None), c.module))
        return bool(binds) and all(v is not None and infinite(v, m) for v, m in binds)

    # -- asserts that restate a proved fact -----------------------------------------------------------
    def _assert_discharged(self, fi: FunctionInfo, st: ast.Assert) -> str | None:
        key = id(st)
        cache = self.__dict__.setdefault("_assert_cache", {})
        if key not in cache:
            try:
                cache[key] = self._assert_directive_result(fi, st) or self._assert_yield_protocol(fi, st)
            except Exception:
                cache[key] = None
        return cache[key]

    def _assert_directive_result(self, fi: FunctionInfo, st: ast.Assert) -> str | None:
        """``assert isinstance(<directive result>[..], ...)``: the docutils contract "run() returns a list of nodes",
        wherever the check lives (the result may arrive through a parameter from every caller)."""
        t = st.test
        if not (isinstance(t, ast.Call) and dotted(t.func) == "isinstance" and len(t.args) == 2):
            return None
        root = t.args[0]
        while isinstance(root, ast.Subscript):
            root = root.value
        if not isinstance(root, ast.Name) or fi.is_lambda:
            return None

        def is_result(name: str, f: FunctionInfo, depth: int) -> bool:
            if depth > 3 or f.is_lambda:
                return False
            if name in f.params:
                if any(isinstance(x, ast.Name) and x.id == name and isinstance(x.ctx, ast.Store) for x in f.local_nodes()):
                    return False
                a = f.node.args
                pos = [x.arg for x in a.posonlyargs + a.args]
                sites = self.g.callers().get(f.fq, [])
                if not sites:
                    return False
                for caller, c in sites:
                    ppos = pos[1:] if f.cls is not None and isinstance(c.func, ast.Attribute) and "staticmethod" not in f.decorators() and "classmethod" not in f.decorators() else pos
                    if f.cls is not None and isinstance(c.func, ast.Attribute) and "staticmethod" in f.decorators():
                        ppos = pos
                    bound = dict(zip(ppos, c.args))
                    for k in c.keywords:
                        if k.arg:
                            bound[k.arg] = k.value
                    v = bound.get(name)
                    if not (isinstance(v, ast.Name) and is_result(v.id, caller, depth + 1)):
                        return False
                return True
            defs = [n.value for n in f.local_nodes() if isinstance(n, ast.Assign) and len(n.targets) == 1 and isinstance(n.targets[0], ast.Name) and n.targets[0].id == name]
            others = [n for n in f.local_nodes() if isinstance(n, ast.Name) and n.id == name and isinstance(n.ctx, ast.Store) and not (isinstance(parent(n), ast.Assign) and len(parent(n).targets) == 1)]
            if not defs or others:
                return False
            n_run = 0
            for d in defs:
                if isinstance(d, ast.List):
                    continue  # a list the renderer builds itself (e.g. the error message of a failed run)
                if not isinstance(d, ast.Call):
                    return False
                if not any(isinstance(t_, Special) and t_.kind == DIRECTIVE_RUN for t_ in self.g.resolve_call(d, f)):
                    return False
                n_run += 1
            return n_run > 0

        if is_result(root.id, fi, 0):
            return "assert on the result of directive_instance.run(): docutils directive contract (run() returns a list of nodes)"
        return None

    def _assert_yield_protocol(self, fi: FunctionInfo, st: ast.Assert) -> str | None:
        """``assert X is not None`` in ``for tok in producer():`` under ``isinstance(tok, V)``, where X is set to the token in
        the ``isinstance(tok, K)`` branch and cleared only in the V branch, and the producer generator yields a K-typed
        token on every path before each V-typed one (and between two V-typed ones)."""
        t = st.test
        if not (isinstance(t, ast.Compare) and len(t.ops) == 1 and isinstance(t.ops[0], ast.IsNot) and isinstance(t.left, ast.Name)
                and isinstance(t.comparators[0], ast.Constant) and t.comparators[0].value is None) or fi.is_lambda:
            return None
        X = t.left.id
        loop = next((a for a in ancestors(st) if isinstance(a, ast.For)), None)
        if loop is None or not isinstance(loop.target, ast.Name) or not isinstance(loop.iter, ast.Call):
            return None
        tok = loop.target.id
        prods = [p_ for p_ in self.g.flat_targets(self.g.resolve_call(loop.iter, fi))]
        if len(prods) != 1 or prods[0].is_lambda or not prods[0].is_generator():
            return None
        P = prods[0]
        from .flow import get_cfg, facts as _atomic

        cfg = get_cfg(fi)

        def inst_facts(node) -> set[str]:
            out = set()
            for tt, pol in cfg.guards(cfg.stmt_of(node)):
                if pol and isinstance(tt, ast.Call) and dotted(tt.func) == "isinstance" and len(tt.args) == 2 and isinstance(tt.args[0], ast.Name) and tt.args[0].id == tok and isinstance(tt.args[1], ast.Name):
                    out.add(tt.args[1].id)
            return out

        vs = inst_facts(st)
        if len(vs) != 1:
            return None
        V = next(iter(vs))
        sets, clears = [], []
        for n in ast.walk(loop):
            if isinstance(n, ast.Name) and n.id == X and isinstance(n.ctx, (ast.Store, ast.Del)):
                a = parent(n)
                if isinstance(a, ast.Assign) and len(a.targets) == 1 and isinstance(a.value, ast.Name) and a.value.id == tok:
                    sets.append(a)
                elif isinstance(a, ast.Assign) and len(a.targets) == 1 and isinstance(a.value, ast.Constant) and a.value.value is None:
                    clears.append(a)
                else:
                    return None
        if not sets or any(inst_facts(c) != {V} for c in clears):
            return None
        ks = set.union(*[inst_facts(s_) for s_ in sets])
        if len(ks) != 1 or any(inst_facts(s_) != ks for s_ in sets):
            return None
        K = next(iter(ks))
        kci, vci = fi.module.classes.get(K), fi.module.classes.get(V)
        if kci is None or vci is None or K == V:
            return None
        if any(c.name == V for c in self.c.mro(kci)) or any(c.name == K for c in self.c.mro(vci)):
            return None
        # the K branch: a top-level `if isinstance(tok, K):` of the loop body on which every path stores the token
        branch = next((b for b in loop.body if isinstance(b, ast.If) and isinstance(b.test, ast.Call) and dotted(b.test.func) == "isinstance"
                       and len(b.test.args) == 2 and unparse(b.test.args[0]) == tok and unparse(b.test.args[1]) == K), None)
        if branch is None or loop.body.index(branch) != next((i for i, b in enumerate(loop.body) if not isinstance(b, (ast.Expr,)) or not isinstance(b.value, ast.Constant)), 0):
            return None
        if cfg.paths_avoiding(("T", branch), loop, lambda nd: any(nd is s_ for s_ in sets)):
            return None
        # producer protocol
        pcfg = get_cfg(P)
        kinds: dict[int, tuple[ast.stmt, str]] = {}
        for y in P.local_nodes():
            if isinstance(y, ast.YieldFrom):
                return None
            if not isinstance(y, ast.Yield):
                continue
            kind = self._yield_kind(y.value, P, K, V)
            if kind is None:
                return None
            ys = pcfg.stmt_of(y)
            kinds[id(ys)] = (ys, kind)
        k_stmts = [s_ for s_, kd in kinds.values() if kd == "K"]
        v_stmts = [s_ for s_, kd in kinds.values() if kd == "V"]
        if not v_stmts:
            return None

        def reach_avoiding_k(starts, goal) -> bool:
            seen, work = set(), list(starts)
            while work:
                nd = work.pop()
                key_ = nd if isinstance(nd, (tuple, str)) else id(nd)
                if key_ in seen:
                    continue
                seen.add(key_)
                if nd is goal:
                    return True
                if any(nd is k_ for k_ in k_stmts):
                    continue
                work.extend(pcfg.succ.get(nd, []))
            return False

        for v in v_stmts:
            if reach_avoiding_k(pcfg.succ.get("ENTRY", []), v):
                return None
            for u in v_stmts:
                if reach_avoiding_k(pcfg.succ.get(u, []), v):
                    return None
        return (
            f"assert {X} is not None: `{P.name}` yields a {K} on every path before each {V} (and between two of them); the consumer stores the token in its "
            f"{K} branch on every path and clears `{X}` only after a {V}"
        )

    def _yield_kind(self, e: ast.expr | None, P: FunctionInfo, K: str, V: str) -> str | None:
        """'K' | 'V' | 'O' (another token class) for the value of a yield in the producer."""
        if not isinstance(e, ast.Call):
            return None
        d = dotted(e.func)
        if d in P.module.classes:
            ci = P.module.classes[d]
            names = [c.name for c in self.c.mro(ci)]
            return "K" if K in names else "V" if V in names else "O"
        fs = self.g.flat_targets(self.g.resolve_call(e, P))
        if len(fs) != 1 or fs[0].is_lambda:
            return None
        f = fs[0]
        rets = [r.value for r in f.local_nodes() if isinstance(r, ast.Return)]
        if not rets or any(r is None for r in rets):
            return None

        def ctor(x) -> str | None:
            return dotted(x.func) if isinstance(x, ast.Call) and dotted(x.func) in (K, V) else None

        if all(ctor(r) == V for r in rets):
            return "V"
        if all(ctor(r) == K for r in rets):
            return "K"
        flags = set()
        for r in rets:
            if not (isinstance(r, ast.IfExp) and isinstance(r.test, ast.Name) and ctor(r.body) == K and ctor(r.orelse) == V):
                return None
            flags.add(r.test.id)
        if len(flags) != 1:
            return None
        flag = flags.pop()
        if flag not in f.params or any(isinstance(x, ast.Name) and x.id == flag and isinstance(x.ctx, ast.Store) for x in f.local_nodes()):
            return None
        val = next((k.value for k in e.keywords if k.arg == flag), None)
        if val is None:
            a = f.node.args
            pos = [x.arg for x in a.posonlyargs + a.args]
            if flag in pos and pos.index(flag) < len(e.args):
                val = e.args[pos.index(flag)]
            else:
                for p_, dflt in zip(reversed(a.posonlyargs + a.args), reversed(a.defaults)):
                    if p_.arg == flag:
                        val = dflt
        if isinstance(val, ast.Constant) and isinstance(val.value, bool):
            return "K" if val.value else "V"
        return None

    def _getattr_method_table(self, call: ast.Call, fi: FunctionInfo) -> bool:
        """``getattr(self, self.TABLE[k])`` where TABLE is a dict display in the class body (or a base class) whose
        values are string constants naming methods that the class (through its MRO) defines."""
        if fi.cls is None or unparse(call.args[0]) not in ("self", "cls"):
            return False
        e = call.args[1]
        if not (isinstance(e, ast.Subscript) and isinstance(e.value, ast.Attribute) and isinstance(e.value.value, ast.Name) and e.value.value.id in ("self", "cls")):
            return False
        for c in self.c.mro(fi.cls):
            for st in c.node.body:
                tg = st.targets[0] if isinstance(st, ast.Assign) and len(st.targets) == 1 else (st.target if isinstance(st, ast.AnnAssign) else None)
                if isinstance(tg, ast.Name) and tg.id == e.value.attr and isinstance(getattr(st, "value", None), ast.Dict):
                    vals = st.value.values
                    # the table must not be modified anywhere in the package
                    for m in self.c.modules.values():
                        for n in ast.walk(m.tree):
                            if isinstance(n, ast.Attribute) and n.attr == tg.id:
                                p_ = parent(n)
                                if isinstance(p_, ast.Subscript) and isinstance(p_.ctx, (ast.Store, ast.Del)):
                                    return False
                                if isinstance(p_, ast.Attribute) and p_.attr in ("update", "pop", "setdefault", "clear", "popitem") and isinstance(parent(p_), ast.Call):
                                    return False
                                if isinstance(n.ctx, (ast.Store, ast.Del)):
                                    return False
                    return bool(vals) and all(
                        isinstance(v, ast.Constant) and isinstance(v.value, str) and self.c.lookup_method(fi.cls, v.value) is not None for v in vals
                    )
        return False

    def _marked_section_guard(self, fi) -> bool:
        """The class whose method calls ``HTMLParser.feed`` overrides ``parse_marked_section`` such that
        every call of the inherited implementation sits in a ``try`` whose handler covers AssertionError."""
        ci = fi.cls
        if ci is None:
            return False
        m = None
        for c in self.c.mro(ci):
            if "parse_marked_section" in c.methods:
                m = c.methods["parse_marked_section"]
                break
        if m is None:
            return False
        sup = [
            c
            for c in m.local_nodes()
            if isinstance(c, ast.Call) and isinstance(c.func, ast.Attribute) and c.func.attr == "parse_marked_section"
        ]
        if not sup:
            return False  # a re-implementation: not understood
        for c in sup:
            ok = False
            for a in ancestors(c):
                if a is m.node:
                    break
                if isinstance(a, ast.Try) and any(c is x or c in ast.walk(x) for st in a.body for x in [st]):
                    for h in a.handlers:
                        names = [h.type] if h.type is not None and not isinstance(h.type, ast.Tuple) else (list(h.type.elts) if h.type is not None else [None])
                        for t in names:
                            if t is None or dotted(t) in ("AssertionError", "Exception", "BaseException"):
                                ok = True
            if not ok:
                return False
        return True

    def _zlib_receiver(self, call: ast.Call, fi: FunctionInfo) -> bool:
        recv = call.func.value
        if not isinstance(recv, ast.Name):
            return False
        for n in walk_local(fi.node):
            if isinstance(n, ast.Assign) and any(isinstance(t, ast.Name) and t.id == recv.id for t in n.targets):
                if isinstance(n.value, ast.Call) and (dotted(n.value.func) or "").startswith("zlib."):
                    return True
        return False

    def _jinja_receiver(self, call: ast.Call, fi: FunctionInfo) -> bool:
        recv = call.func.value
        if isinstance(recv, ast.Call) and isinstance(recv.func, ast.Attribute) and recv.func.attr == "from_string":
            return self._jinja_receiver(recv, fi)
        if not isinstance(recv, ast.Name):
            return False
        for n in walk_local(fi.node):
            if isinstance(n, ast.Assign) and any(isinstance(t, ast.Name) and t.id == recv.id for t in n.targets):
                if isinstance(n.value, ast.Call) and fi.module.resolve(dotted(n.value.func) or "").startswith("jinja2."):
                    return True
        return False

    def _jinja_sandboxed(self, call: ast.Call, fi: FunctionInfo) -> bool:
        """Every jinja2 environment constructed in the function (or bound to the receiver) is a sandboxed one."""
        envs = [
            n.value for n in walk_local(fi.node)
            if isinstance(n, ast.Assign) and isinstance(n.value, ast.Call) and fi.module.resolve(dotted(n.value.func) or "").startswith("jinja2.")
            and fi.module.resolve(dotted(n.value.func) or "").rsplit(".", 1)[-1].endswith("Environment")
        ]
        if not envs:
            return True  # built elsewhere: not judged here
        return all("Sandboxed" in fi.module.resolve(dotted(e.func) or "") for e in envs)

    def _jinja_parse_after_compile(self, call: ast.Call, fi: FunctionInfo) -> bool:
        if len(call.args) != 1:
            return False
        text = unparse(call.args[0])
        for n in walk_local(fi.node):
            if (
                isinstance(n, ast.Call)
                and isinstance(n.func, ast.Attribute)
                and n.func.attr == "from_string"
                and n.lineno < call.lineno
                and len(n.args) == 1
                and unparse(n.args[0]) == text
            ):
                # the compile must sit in a try whose handlers all leave the function
                for a in ancestors(n):
                    if isinstance(a, ast.Try) and any(n in ast.walk(s) for s in a.body):
                        if all(h.body and isinstance(h.body[-1], (ast.Return, ast.Raise)) for h in a.handlers):
                            return True
        return False

    def _discharge(self, fi, node, reason):
        t = (fi.fq, short(node), fi.module.site(node), reason)
        if t not in self.discharged:
            self.discharged.append(t)

    def _assume(self, fi, node, reason):
        k = (fi.fq, short(node))
        if k not in self._assumed_seen:
            self._assumed_seen.add(k)
            self.assumed.append((fi.fq, short(node), fi.module.site(node), reason))

    # -- assumptions at origins / edges -----------------------------------------
    # (function fq suffix, exception short name) -> reason.  Each entry is a producer
    # invariant that was confirmed by reading; the shape is re-verified where noted.
    ASSUMED_ORIGINS: dict[tuple[str, str], str] = {
        ("mdit_to_docutils.base:DocutilsRenderer.render_table", "AssertionError"): "markdown-it's table rule always emits thead > tr > th+ (producer invariant)",
        ("mdit_to_docutils.base:DocutilsRenderer.render_colon_fence", "AssertionError"): "a colon_fence SyntaxTreeNode always wraps one Token (markdown-it tree invariant)",
        ("mdit_to_docutils.base:DocutilsRenderer.run_directive", "AssertionError"): "docutils directive contract: run() returns a list of nodes",
        ("sphinx_ext.myst_refs:MystReferenceResolver.resolve_myst_ref_doc", "AssertionError"): "Sphinx sets app.builder before post-transforms run",
        ("sphinx_ext.myst_refs:MystReferenceResolver.resolve_myst_ref_any", "AssertionError"): "Sphinx sets app.builder before post-transforms run",
        ("sphinx_ext.myst_refs:MystReferenceResolver._resolve_ref_nested", "AssertionError"): "Sphinx sets app.builder before post-transforms run",
        ("sphinx_ext.myst_refs:MystReferenceResolver._resolve_doc_nested", "AssertionError"): "Sphinx sets app.builder before post-transforms run",
        ("parsers.parse_html:Element.reset_children", "AssertionError"): "C16.R1/R2: only Elements are inserted and inserted elements are fresh or already children of self",
        ("parsers.parse_html:Element.__setitem__", "AssertionError"): "C16.R1/R2 (as above)",
        ("parsers.parse_html:Element.insert", "AssertionError"): "C16.R1/R2 (as above)",
        ("parsers.parse_html:Element.render", "NotImplementedError"): "abstract: every instantiated Element subclass overrides render (checked by C16.R3)",
        ("mdit_to_docutils.base:DocutilsRenderer.__getattr__", "AttributeError"): "only reached for attributes read before setup_render(); C15.R5 checks setup_render assigns all of them",
    }

    ASSUMED_CALLS: dict[tuple[str, str], str] = {
        ("mdit_to_docutils.base:DocutilsRenderer.render_heading", "int(token.tag[1])"): "markdown-it pushes heading tokens with tag 'h'+digit (heading.py, lheading.py; re-read in the thorough tier)",
    }

    def compute(self, entries: list[FunctionInfo]) -> None:
        reach = self.g.reachable(entries)
        funcs = []
        for fq in reach:
            m, _, q = fq.partition(":")
            funcs.append(self.c.modules[m].functions[q])
        self.funcs = funcs
        for f in funcs:
            self.summ.setdefault(f.fq, set())
        # worklist fixpoint: recompute a function when one of its callees' summaries grew
        by_fq = {f.fq: f for f in funcs}
        users: dict[str, set[str]] = {f.fq: set() for f in funcs}
        for f in funcs:
            for call, targets in self.g.callees(f):
                for t in self.g.flat_targets(targets):
                    if t.fq in users:
                        users[t.fq].add(f.fq)
        # MD_RENDER / concretised dispatch may add targets that flat_targets already lists; be safe:
        work = list(funcs)
        queued = {f.fq for f in funcs}
        steps = 0
        while work:
            steps += 1
            if steps > 200000:
                raise RuntimeError("escape fixpoint did not converge")
            f = work.pop()
            queued.discard(f.fq)
            new = self.function_escapes(f)
            if not new <= self.summ[f.fq]:
                self.summ[f.fq] |= new
                for u in users.get(f.fq, ()):  # callers
                    if u not in queued:
                        queued.add(u)
                        work.append(by_fq[u])
        self._computed = True

    def function_escapes(self, fi: FunctionInfo) -> set[Esc]:
        if isinstance(fi.node, ast.Lambda):
            return self.expr_raises(fi.node.body, fi)
        return self.block(fi.node.body, fi, frozenset())

    def origin(self, fi: FunctionInfo, node: ast.AST, exc: str) -> Esc | None:
        short_exc = exc.rsplit(".", 1)[-1]
        key = (fi.fq.replace("myst_parser.", "", 1), short_exc)
        if key in self.ASSUMED_ORIGINS:
            self._assume(fi, node, f"{short_exc}: {self.ASSUMED_ORIGINS[key]}")
            return None
        return Esc(exc, fi.fq, short(node), fi.module.site(node))

    def block(self, stmts, fi, reraise: frozenset) -> set[Esc]:
        out: set[Esc] = set()
        for st in stmts:
            out |= self.stmt(st, fi, reraise)
        return out

    def stmt(self, st: ast.stmt, fi: FunctionInfo, reraise: frozenset) -> set[Esc]:
        out: set[Esc] = set()
        if isinstance(st, (ast.FunctionDef, ast.AsyncFunctionDef, ast.ClassDef)):
            return out
        if isinstance(st, ast.Try):
            body = self.block(st.body, fi, reraise)
            caught_by: list[set[Esc]] = [set() for _ in st.handlers]
            for item in body:
                for i, h in enumerate(st.handlers):
                    if self.caught(item.exc, self.handler_classes(h, fi)):
                        caught_by[i].add(item)
                        break
                else:
                    out.add(item)
            for i, h in enumerate(st.handlers):
                names = frozenset(caught_by[i])
                hr = self.block(h.body, fi, names)
                out |= hr
            out |= self.block(st.orelse, fi, reraise)
            out |= self.block(st.finalbody, fi, reraise)
            return out
        if isinstance(st, ast.With):
            suppressed: list[str] = []
            for it in st.items:
                ce = it.context_expr
                if isinstance(ce, ast.Call) and fi.module.resolve(dotted(ce.func) or "") in ("contextlib.suppress", "suppress"):
                    for a in ce.args:
                        d = dotted(a)
                        suppressed.append(self.h.canonical(fi.module.resolve(d)) if d else B + "BaseException")
                else:
                    out |= self.expr_raises(ce, fi)
            body = self.block(st.body, fi, reraise)
            out |= {i for i in body if not (suppressed and self.caught(i.exc, suppressed))}
            return out
        if isinstance(st, ast.Raise):
            if st.exc is None:
                return set(reraise)
            out |= self.expr_raises(st.exc, fi)
            cls = self.exc_class_of(st.exc, fi)
            if cls is None:
                # ``raise err`` of the handler variable, or unknown
                if isinstance(st.exc, ast.Name) and reraise:
                    return out | set(reraise)
                cls = B + "Exception"
            o = self.origin(fi, st, cls)
            if o is not None:
                out.add(o)
            return out
        if isinstance(st, ast.Assert):
            out |= self.expr_raises(st.test, fi)
            why = self._assert_discharged(fi, st)
            if why:
                self._discharge(fi, st, why)
                return out
            o = self.origin(fi, st, B + "AssertionError")
            if o is not None:
                out.add(o)
            return out
        # compound statements: header expressions + bodies
        if isinstance(st, (ast.If, ast.While)):
            out |= self.expr_raises(st.test, fi)
            out |= self.block(st.body, fi, reraise) | self.block(st.orelse, fi, reraise)
            return out
        if isinstance(st, ast.For):
            out |= self.expr_raises(st.iter, fi)
            if isinstance(st.target, (ast.Tuple, ast.List)):
                for elt, facts in _iterated_elements(st.iter):
                    out |= self.unpack_raises(st, st.target, elt, fi, facts)
            out |= self.block(st.body, fi, reraise) | self.block(st.orelse, fi, reraise)
            return out
        if isinstance(st, ast.Match):
            out |= self.expr_raises(st.subject, fi)
            for c in st.cases:
                out |= self.block(c.body, fi, reraise)
            return out
        if isinstance(st, ast.Assign) and len(st.targets) == 1 and isinstance(st.targets[0], (ast.Tuple, ast.List)):
            out |= self.unpack_raises(st, st.targets[0], st.value, fi)
        for child in ast.iter_child_nodes(st):
            if isinstance(child, ast.expr):
                out |= self.expr_raises(child, fi)
        return out

    def unpack_raises(self, st: ast.stmt, target: ast.expr, rhs: ast.expr, fi: FunctionInfo, facts=()) -> set[Esc]:
        """Catalogue entry "tuple-unpack of a sequence whose length is decided by the text" (ValueError)."""
        key = (id(st), id(rhs))
        if key not in self._unpack_verdicts:
            self._unpack_verdicts[key] = judge_unpack(fi, st, target, rhs, facts)
        verdict = self._unpack_verdicts[key]
        if verdict is None:
            return set()
        kind, msg = verdict
        site = fi.module.site(rhs)
        if kind == "ok":
            self._discharge(fi, rhs, f"tuple-unpack of a split-derived sequence: {msg}")
            return set()
        if kind == "unsupported":
            t = (fi.fq, short(rhs), site, msg)
            if t not in self.unsupported:
                self.unsupported.append(t)
            return set()
        exc = B + "ValueError"
        text = short(rhs)
        prev = self.catalogue_sites.get((fi.fq, text))
        self.catalogue_sites[(fi.fq, text)] = (site, sorted(set(prev[1] if prev else []) | {exc}))
        self.unpack_witness[(fi.fq, text)] = msg
        o = self.origin(fi, rhs, exc)
        if o is None:
            return set()
        self.via.setdefault((fi.fq, o.ident()), (site, None))
        return {o}

    def expr_raises(self, e: ast.AST, fi: FunctionInfo) -> set[Esc]:
        out: set[Esc] = set()
        calls = getattr(e, "_calls", None)
        if calls is None:
            calls = [n for n in [e] + list(walk_local(e, into_lambdas=False)) if isinstance(n, ast.Call)]
            e._calls = calls  # type: ignore[attr-defined]
        for n in calls:
            out |= self.call_raises(n, fi)
        return out

    def _self_recursive_call(self, call: ast.Call, targets: list, fi: FunctionInfo) -> bool:
        """The call re-enters the function it is written in on ANOTHER object (``child.render(..)`` inside ``render``):
        a structural recursion, one Python frame per nesting level of the structure."""
        if fi.is_lambda or not isinstance(call.func, ast.Attribute) or call.func.attr != fi.name or fi.cls is None:
            return False
        recv = call.func.value
        if isinstance(recv, ast.Name) and recv.id in ("self", "cls"):
            return False
        if isinstance(recv, ast.Call) and dotted(recv.func) == "super":
            return False
        return any(isinstance(t, FunctionInfo) and t.fq == fi.fq for t in targets)

    def call_raises(self, call: ast.Call, fi: FunctionInfo) -> set[Esc]:
        out: set[Esc] = set()
        targets = self.g.resolve_call(call, fi)
        site = fi.module.site(call)
        if self._self_recursive_call(call, targets, fi):
            self.catalogue_sites[(fi.fq, short(call))] = (site, [B + "RecursionError"])
            o = self.origin(fi, call, B + "RecursionError")
            if o is not None:
                out.add(o)
                self.via.setdefault((fi.fq, o.ident()), (site, None))
        # catalogue
        cat = self.catalogue(call, targets, fi)
        if cat:
            self.catalogue_sites[(fi.fq, short(call))] = (site, sorted({e for e, _ in cat}))
        for exc, label in cat:
            o = self.origin(fi, call, self.h.canonical(exc))
            if o is not None:
                out.add(o)
                self.via.setdefault((fi.fq, o.ident()), (site, None))
        # callees
        callee_fns: list[tuple[FunctionInfo, str | None]] = []
        for t in targets:
            if isinstance(t, FunctionInfo):
                callee_fns.append((t, None))
            elif isinstance(t, Special):
                if t.kind == RENDER_DISPATCH:
                    callee_fns += [(x, None) for x in t.targets]
                elif t.kind == MD_RENDER:
                    conc = self.concrete() or self.c.cls(self.RENDERER_BASE)
                    m = self.c.lookup_method(conc, "render")
                    if m is not None:
                        callee_fns.append((m, None))
                elif t.kind in (DIRECTIVE_RUN, ROLE_FUNC):
                    callee_fns += [(x, t.kind) for x in t.targets]
                elif t.kind == RST_PARSE:
                    pass
                else:
                    callee_fns += [(x, None) for x in t.targets]
        seen = set()
        for t, kind in callee_fns:
            for tt in self.concretise([t]):
                if tt.fq in seen:
                    continue
                seen.add(tt.fq)
                if self._tabled_nonraising_call(call, tt) or self._foreign_typed_receiver(call, fi, tt):
                    continue
                for item in self.summ.get(tt.fq, ()):  # type: ignore[arg-type]
                    if kind is not None and self._edge_contract(kind, item, fi, call, tt):
                        continue
                    if tt.fq.endswith(":token_line") and self._token_line_ok(call, fi, item):
                        continue
                    out.add(item)
                    self.via.setdefault((fi.fq, item.ident()), (site, tt.fq))
        return out

    def _foreign_typed_receiver(self, call: ast.Call, fi: FunctionInfo, target: FunctionInfo) -> bool:
        """``x.m()`` where ``x`` is a parameter annotated with a class from outside the package (``node: nodes.Element``)
        cannot be the package method of the same name that the name-based resolution offers."""
        if fi.is_lambda or target.cls is None or not isinstance(call.func, ast.Attribute):
            return False
        recv0 = call.func.value
        if not (isinstance(recv0, ast.Name) and recv0.id in ("self", "cls")) and not (isinstance(recv0, ast.Call) and dotted(recv0.func) == "super"):
            # an untyped receiver resolved by method name only: objects of a class whose module the caller's module does
            # not import (and is not itself) are not what the caller handles (docutils nodes also have deepcopy/walk/...)
            typed = None
            try:
                typed = self.g.expr_type(recv0, fi)
            except Exception:
                typed = None
            if typed is None and target.cls.module is not fi.module:
                tm = target.cls.module.name
                imported = {v for v in fi.module.imports.values()}
                if not any(v == tm or v.startswith(tm + ".") for v in imported):
                    return True
        root = call.func.value
        while isinstance(root, (ast.Subscript, ast.Attribute)):
            root = root.value  # an element / attribute of a foreign object is foreign as well (docutils trees)
        if not isinstance(root, ast.Name):
            return False
        nm = root.id
        a = fi.node.args
        ann = next((p_.annotation for p_ in a.posonlyargs + a.args + a.kwonlyargs if p_.arg == nm), None)
        if ann is None or any(isinstance(x, ast.Name) and x.id == nm and isinstance(x.ctx, ast.Store) and not (isinstance(parent(x), ast.Assign) and isinstance(parent(x).value, ast.Call) and isinstance(parent(x).value.func, ast.Attribute) and isinstance(parent(x).value.func.value, ast.Name) and parent(x).value.func.value.id == nm) for x in fi.local_nodes()):
            return False
        names = [dotted(x) for x in ast.walk(ann) if isinstance(x, (ast.Name, ast.Attribute)) and dotted(x)]
        full = [fi.module.resolve(n) for n in names if n not in ("None",)]
        tops = [f_ for f_ in full if "." in f_]
        return bool(tops) and all(not f_.startswith("myst_parser") for f_ in tops)

    def _tabled_nonraising_call(self, call: ast.Call, target: FunctionInfo) -> bool:
        # MdParserConfig() / config_cls(): defaults were validated when the class was defined/imported
        if target.name == "__post_init__" and not call.args and not call.keywords:
            return True
        return False

    def _token_line_ok(self, call: ast.Call, fi: FunctionInfo, item: Esc) -> bool:
        """C01.R2: ``token_line(tok)`` raises ValueError only without a default and without a map."""
        if not item.exc.endswith("ValueError"):
            return False
        d = call.args[1] if len(call.args) > 1 else None
        for k in call.keywords:
            if k.arg == "default":
                d = k.value
        if d is not None and not (isinstance(d, ast.Constant) and d.value is None):
            return True
        # guarded by ``<tok>.map`` (if / conditional expression)
        tok = unparse(call.args[0]) if call.args else ""
        node: ast.AST = call
        for a in ancestors(call):
            if isinstance(a, (ast.FunctionDef, ast.Lambda)):
                break
            if isinstance(a, (ast.If, ast.IfExp)) and unparse(a.test) == f"{tok}.map":
                body = a.body if isinstance(a.body, list) else [a.body]
                if node in body:
                    return True
            node = a
        self.token_line_unguarded.append((fi, call))
        return True  # judged by rule C01.R2, which reports unguarded sites itself

    def _edge_contract(self, kind: str, item: Esc, fi: FunctionInfo, call: ast.Call, callee: FunctionInfo) -> bool:
        """Callback contracts of docutils (verified against its sources in the thorough tier)."""
        short_exc = item.exc.rsplit(".", 1)[-1]
        if kind == DIRECTIVE_RUN and short_exc == "MarkupError" and callee.fq.endswith("MockState.parse_directive_block"):
            self._assume(fi, call, "MarkupError from MockState.parse_directive_block: its only docutils caller (the `role` directive) catches MarkupError")
            return True
        if kind == ROLE_FUNC and short_exc == "MockingError":
            self._assume(fi, call, "MockingError from MockInliner.__getattr__: builtin roles read only attributes MockInliner defines")
            return True
        return False

    # -- reporting ------------------------------------------------------------------
    def chain(self, entry_fq: str, item: Esc, limit: int = 30) -> list[str]:
        out = []
        cur = entry_fq
        seen = set()
        while cur and cur not in seen and len(out) < limit:
            seen.add(cur)
            v = self.via.get((cur, item.ident()))
            if v is None:
                out.append(f"{cur} (raises here: {item.origin_text})")
                break
            site, callee = v
            if callee is None:
                out.append(f"{cur} @ {site}: {item.origin_text}")
                break
            out.append(f"{cur} @ {site} -> {callee}")
            cur = callee
        return out


# replace dataclasses.replace(self) -> __post_init__ edge: handled by rule C13/C01 tables
