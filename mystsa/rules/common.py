"""Rule helpers shared by several properties."""

from __future__ import annotations

import ast

from ..callgraph import get_callgraph
from ..corpus import Corpus, FunctionInfo, short, splice, unparse, walk_local
from ..escape import Esc, EscapeAnalysis
from ..report import Report


def rule(rule_id: str):
    def deco(fn):
        fn.rule_id = rule_id
        return fn

    return deco


def short_exc(name: str) -> str:
    return name.rsplit(".", 1)[-1]


def escape_closure(
    corpus: Corpus,
    rep: Report,
    rule_id: str,
    entries: list[tuple[str | None, str, list[str]]],
    doc: str,
) -> None:
    """``Esc(entry) ⊆ allowed`` for every (ctx, entry fq, allowed exception classes).

    One obligation per (entry, raising construct reachable from it).
    """
    rep.rule(rule_id, doc)
    analyses: dict[str | None, EscapeAnalysis] = {}
    for ctx in {c for c, _, _ in entries}:
        ea = EscapeAnalysis(corpus, ctx)
        ea.compute([corpus.func(fq) for c, fq, _ in entries if c == ctx])
        analyses[ctx] = ea
        for f in ea.funcs:
            rep.saw_function(f.fq)
    g = get_callgraph(corpus)
    for ctx, fq, allowed in entries:
        entry = corpus.func(fq)
        ea = analyses[ctx]
        reach = set(g.reachable([entry]))
        esc = ea.summ[entry.fq]
        allowed_c = [ea.h.canonical(a) for a in allowed]
        escaping = {i.ident(): i for i in esc if not any(ea.h.is_sub(i.exc, a) for a in allowed_c)}
        # obligations: every origin construct in the reachable functions
        origins = collect_origins(ea)
        seen = set()
        for (ofq, text, site, exc) in origins:
            ident = (exc, ofq, text)
            if ident in seen or ofq not in reach:
                continue
            seen.add(ident)
            k = f"entry={entry.fq}|{short_exc(exc)}|origin={ofq}|{text}"
            if ident in escaping:
                it = escaping[ident]
                rep.violation(
                    rule_id,
                    k,
                    it.origin_site,
                    f"{short_exc(exc)} raised by `{text}` in {ofq.split(':')[1]} can propagate out of {entry.fq.split(':')[1]}"
                    + (f" (allowed there: {', '.join(short_exc(a) for a in allowed)})" if allowed else " uncaught"),
                    ea.chain(entry.fq, it),
                )
            else:
                rep.ok(rule_id, k, site)
        for ident, it in escaping.items():
            if ident not in seen:  # safety net: never lose an escaping item
                k = f"entry={entry.fq}|{short_exc(it.exc)}|origin={it.origin_fq}|{it.origin_text}"
                rep.violation(rule_id, k, it.origin_site, f"{short_exc(it.exc)} can propagate out of {entry.fq}", ea.chain(entry.fq, it))
    done = set()
    for ea in analyses.values():
        for fq_, text, site, reason in ea.assumed:
            if (fq_, text) not in done:
                done.add((fq_, text))
                rep.assumed(rule_id, f"assumed|{fq_}|{text}", site, reason)
        for fq_, text, site, reason in ea.discharged:
            if (fq_, text) not in done:
                done.add((fq_, text))
                rep.ok(rule_id, f"discharged|{fq_}|{text}", site, reason)
        for (fq_, text), (site, excs) in ea.catalogue_sites.items():
            rep.saw_call(f"{site} {text}")
    return analyses


def collect_origins(ea: EscapeAnalysis) -> list[tuple[str, str, str, str]]:
    """(function fq, construct text, site, exception class) for every raising construct
    the analysis considered (whether or not it escapes anywhere)."""
    out = []
    seen = set()
    # everything that appears in any summary, plus explicit raise/assert/catalogue sites that were caught locally
    for fq, items in ea.summ.items():
        for it in items:
            if it.ident() not in seen:
                seen.add(it.ident())
                out.append((it.origin_fq, it.origin_text, it.origin_site, it.exc))
    for f in ea.funcs:
        if f.is_lambda:
            continue
        for n in f.local_nodes():
            if isinstance(n, ast.Raise) and n.exc is not None:
                cls = ea.exc_class_of(n.exc, f) or "builtins.Exception"
                ident = (cls, f.fq, short(n))
                if ident not in seen and (f.fq.replace("myst_parser.", "", 1), short_exc(cls)) not in ea.ASSUMED_ORIGINS:
                    seen.add(ident)
                    out.append((f.fq, short(n), f.module.site(n), cls))
            elif isinstance(n, ast.Assert):
                ident = ("builtins.AssertionError", f.fq, short(n))
                if ident not in seen and (f.fq.replace("myst_parser.", "", 1), "AssertionError") not in ea.ASSUMED_ORIGINS:
                    seen.add(ident)
                    out.append((f.fq, short(n), f.module.site(n), "builtins.AssertionError"))
    for (fq, text), (site, excs) in ea.catalogue_sites.items():
        for e in excs:
            ce = ea.h.canonical(e)
            ident = (ce, fq, text)
            if ident not in seen:
                seen.add(ident)
                out.append((fq, text, site, ce))
    return out


# ---------------------------------------------------------------------------
# mutant helpers (AST-computed edits of the current tree)


def find_stmt(fi: FunctionInfo, pred) -> ast.stmt | None:
    for n in walk_local(fi.node):
        if isinstance(n, ast.stmt) and pred(n):
            return n
    return None


def find_node(fi: FunctionInfo, pred) -> ast.AST | None:
    cands = [n for n in walk_local(fi.node) if pred(n)]
    cands.sort(key=lambda n: (getattr(n, "lineno", 0), getattr(n, "col_offset", 0)))
    return cands[0] if cands else None


def replace_node(fi: FunctionInfo, node: ast.AST, text: str) -> str:
    return splice(fi.module.src, node, text)


def indent_of(fi: FunctionInfo, st: ast.stmt) -> str:
    line = fi.module.lines[st.lineno - 1]
    return line[: len(line) - len(line.lstrip())]


def delete_stmt(fi: FunctionInfo, st: ast.stmt) -> str:
    return splice(fi.module.src, st, "pass")


def unwrap_try(fi: FunctionInfo, tr: ast.Try) -> str:
    """Replace ``try: BODY except...: H`` by BODY (handlers dropped)."""
    src = fi.module.src
    lines = src.splitlines(keepends=True)
    ind = indent_of(fi, tr)
    body_first, body_last = tr.body[0].lineno, tr.body[-1].end_lineno
    body_lines = lines[body_first - 1 : body_last]
    # dedent body by one level
    inner = indent_of(fi, tr.body[0])
    out = []
    for l in body_lines:
        out.append(ind + l[len(inner):] if l.startswith(inner) else l)
    if tr.orelse:
        e_first, e_last = tr.orelse[0].lineno, tr.orelse[-1].end_lineno
        einner = indent_of(fi, tr.orelse[0])
        for l in lines[e_first - 1 : e_last]:
            out.append(ind + l[len(einner):] if l.startswith(einner) else l)
    return "".join(lines[: tr.lineno - 1] + out + lines[tr.end_lineno :])
