"""C08 - directive text split: closed failure mode, option priority, argument counts,
one validation path for both option styles, body offset not computed across a lossy round trip."""

from __future__ import annotations

import ast
from collections import defaultdict

from ..callgraph import External, get_callgraph
from ..corpus import (
    AnchorMissing,
    Corpus,
    FunctionInfo,
    Unsupported,
    ancestors,
    dotted,
    parent,
    short,
    splice,
    stmt_key,
    unparse,
    walk_local,
)
from ..flow import ENTRY, get_cfg
from ..flow import facts as split_facts
from ..mutant import Mutant
from ..report import Report
from .common import escape_closure, find_node, indent_of, rule

PROP = "C08"
READY = False
TECHNIQUE = (
    "exception-escape closure of parse_directive_text; role-based AST/CFG rules: operand order of the option merge, "
    "linear normal forms of the argument-count comparisons, dominance and path counting over the option validation loop, "
    "flow-aware taint of returned option dicts, string-origin tracing of the body-offset arithmetic, newline-span analysis of the delimiter regex tree"
)

META = {
    "explanation": (
        "All rules analyse parsers/directives.py after *inlining* its private helpers: single-exit helpers at `x = helper(...)` call sites (parameters "
        "bound, locals renamed, `return e` turned into the assignment of the call statement) and helpers with any number of returns in tail position "
        "(`return helper(...)`), helpers with early returns at `x = helper(...)` sites (the returns are lowered to if/else nesting without duplicating code), "
        "a NamedTuple result unpacked in field order, and pure predicate helpers (string tests and regex matches; a parameter used once may take any argument) (straight-line string tests) substituted as expressions; line numbers kept, nothing executed, "
        "so a function split into "
        "helpers is judged as the one function it is equivalent to; roles (option-spec lookup, converter call, validation loop, result dict, "
        "warnings list, block text, remaining content) are found by data flow, never by name. "
        "R1: inter-procedural exception-escape analysis - only MarkupError can leave parse_directive_text (TokenizeError is caught where it is "
        "raised into, yaml errors incl. the plain ValueError of PyYAML's scalar constructors are caught, the option converter - a foreign callable "
        "looked up in option_spec - runs under `except Exception`); int(<cursor character>) in a tokenizer helper is discharged only by a "
        "caller-side digit test with no cursor movement in between; `assert X is not None` in the consumer loop of the token generator is discharged only "
        "by a typestate exploration of (producer CFG location x X is None/set) that never reaches the assert with X unset; the engine's literal-only "
        "guards for int(<hex>, 16) / chr(code) / int(ch) are re-applied with module constants folded; `raise C(...).m(...)` typed Exception by the engine is "
        "re-typed by m's return annotation and discharged only if other origins of that class leave the same function and none reaches the entry; a finding "
        "whose construct sits in a try of its own function with `except <tuple constant>` (module-level tuple of exception classes, possibly imported) that "
        "covers the class and does not re-raise is discharged; in the escape idiom the cursor is advanced over the escape's characters only behind the loop that "
        "proves them to be hex digits (else IndexError from StreamBuffer.forward at the end of the text); regexes are recognised in every spelling (re.match(P, s), re.compile(P).match(s), CONST.match(s)). "
        "R2: additional_options flow hop by hop from render_fence (fence_as_directive; value built from token.attrs, also through a helper) to the "
        "merge in the options parser; in the merge the operand holding the tokenized block is the later (winning) one (dict display, |, |=, update, "
        "dict(a, **b), setdefault, M[k] = v with/without `k not in M` / `M.get(k) is None` - a guard on the *truthiness* of the block's value is not an absence "
        "guard); a function that hands the defaults to the validated dict without combining them with the block counts as the merge site too; behind the merge no store puts a possibly-default value under another key without an "
        "absence test; a return of the option parser that can be reached with defaults present but without their merge is a violation (a warning about the "
        "block does not report the loss; the docutils TestDirective return, too, must come behind the merge) - this includes the validate_options=False path, whose raw YAML "
        "mapping must be merged under the same priority rule; in parse_directive_text every path either calls the option parser with the defaults or appends "
        "a warning under a test that they are present (directives without an option_spec); the caller's defaults mapping is only read - no mutator call, "
        "item store or deletion on the parameter or on a name that was made a plain copy of the reference. "
        "R3: the guards of the two MarkupError raises and of the re-split in parse_directive_arguments, as linear normal forms over {len(args), "
        "required, optional}, are exactly len < required / len > required+optional and not final_argument_whitespace / maxsplit = "
        "required+optional-1 under final_argument_whitespace; every path of parse_directive_text either calls parse_directive_arguments or crosses "
        "an edge establishing 'no arguments declared' (truth table over the test's leaves). "
        "R4: the options parser is only called under a test that implies a non-empty option_spec; the opening '---' delimiter is a whole line (dashes, then only blanks up "
        "to the line end - a prefix test or a pattern that lets other text follow is reported); neither style rewrites the lines of the block text (textwrap.dedent empties "
        "whitespace-only lines: known finding), and a rewriting that is present applies on every path through its branch; the two option-style branches are mutually "
        "exclusive, each assigns the block text and re-assigns the remaining content on every path, and no flag set differently by them is tested "
        "behind their join, both terminate the lines of the block text alike (separator join vs line-terminated join), and recognising the ':' style skips "
        "spaces and tabs only (no bare lstrip()/strip(), no \\s class); when the style test refuses a leading ':::' (nested colon fence), every statement in a "
        "loop that appends a content line to the option lines is guarded by the same refusal; tokenise / yaml load / spec lookup / convert / store / warn lie behind the join; per loop iteration the lookup-failure and "
        "conversion-failure paths store nothing and report exactly once, the success path stores exactly once (key = option name, value = converter "
        "result, converter = option_spec[name] - looked up by subscript, as docutils does: `.get()` or a membership test bypass a mapping's __getitem__, "
        "e.g. sphinx.ext.autodoc's DummyOptionSpec) and reports nothing; every return hands back the validated dict, a dict no option value can reach "
        "(flow-aware taint), or is a documented bypass (validate_options=False, docutils TestDirective; guards re-verified). "
        "R5: a package helper used to split text into lines is judged by what it does (exact = str.splitlines() or text.split('\\n') minus the one empty "
        "piece behind a final newline; anything that also drops, strips or filters pieces is reported where its result becomes the body or is counted); "
        "no definition of body_offset combines the line count of a string rebuilt with a lossy '\\n'.join with that of another string (origins "
        "traced through the parser's result object, inlined helpers, `a or b` / conditional expressions and a module-level dict the result is "
        "memoised in - the lookup key must then mention every parameter the counted string depends on; a line-terminated join is lossless; `s.count('\\n')` is a line count only for a string whose every line is provably terminated); dropping the leading blank body line "
        "and `offset += 1` are control-equivalent, happen once and only under a blank test on body[0]; the first line is merged in front of the body "
        "only under a test that excludes whitespace-only text, and the offset goes back by one on the same paths (a reset to 0 is the known finding); no other statement removes, adds, reorders or rewrites body lines (pop/remove/clear/del, "
        "end slices, filtering comprehensions, append/extend, item stores). "
        "R6: for every regex whose match object is kept and used to cut the content (parsed with re._parser; regexes that are only tested are exempt) the number of newlines a match can contain is fixed, pattern + "
        "slice offset skip exactly one line terminator, and the pattern matches a whole line (anchored at the line start and, after the marker and blanks, at the line end)."
    ),
    "not_decided": (
        "the exact partition (body lines / offset values) for every content layout; the values converters return; what dedent does to a --- block; "
        "whether a tolerated (reported) loss of the defaults on the tokenizer-error path is desirable; line numbers carried by ParseWarnings (C04); "
        "recursion depth / resource use on pathologically nested or huge option blocks (a runtime quantity); helpers with early returns or *args are not "
        "inlined (the rules then answer ANALYSIS-ERROR if an anchor moved into one)"
    ),
    "trusted_base": [
        "CPython ast and re._parser",
        "engine call graph + escape analysis (DESIGN E3/E6) incl. the catalogue of fallible calls",
        "the inlining transformation (single-exit private helpers, module-level, no recursion)",
        "docutils attribute names required_arguments / optional_arguments / final_argument_whitespace / option_spec / has_content",
    ],
    "assumptions": [
        "option converters are arbitrary callables (may raise anything); directive classes declare non-negative integer argument counts",
        "tokenizer helpers are only called, never passed around as values (checked by reference count)",
        "Esc(options_to_items) beyond the engine's catalogue is C07.R1's obligation",
    ],
}

MOD = "parsers.directives"
ENTRY_FQ = f"{MOD}:parse_directive_text"
MARKUP_ERROR = "docutils.parsers.rst.states.MarkupError"


# ---------------------------------------------------------------------------
# small helpers


def names_in(e: ast.AST) -> set[str]:
    return {n.id for n in ast.walk(e) if isinstance(n, ast.Name)}


def target_names(t: ast.AST) -> list[str]:
    if isinstance(t, ast.Name):
        return [t.id]
    if isinstance(t, (ast.Tuple, ast.List)):
        return [x for e in t.elts for x in target_names(e)]
    if isinstance(t, ast.Starred):
        return target_names(t.value)
    return []


def simple_defs(fi: FunctionInfo, name: str) -> list[tuple[ast.stmt, ast.expr | None]]:
    """(statement, value) for every binding of ``name`` in ``fi`` (value None: loop/with/unpack target)."""
    out = []
    for n in fi.local_nodes():
        if isinstance(n, ast.Assign):
            for t in n.targets:
                if isinstance(t, ast.Name) and t.id == name:
                    out.append((n, n.value))
                elif name in target_names(t):
                    if isinstance(t, (ast.Tuple, ast.List)) and isinstance(n.value, (ast.Tuple, ast.List)) and len(t.elts) == len(n.value.elts) and not any(isinstance(x, ast.Starred) for x in t.elts + n.value.elts):
                        # a, b = x, y binds element by element
                        for te, ve in zip(t.elts, n.value.elts):
                            if isinstance(te, ast.Name) and te.id == name:
                                out.append((n, ve))
                            elif name in target_names(te):
                                out.append((n, None))
                    else:
                        out.append((n, None))
        elif isinstance(n, ast.AnnAssign) and isinstance(n.target, ast.Name) and n.target.id == name and n.value is not None:
            out.append((n, n.value))
        elif isinstance(n, ast.AugAssign) and isinstance(n.target, ast.Name) and n.target.id == name:
            out.append((n, None))
        elif isinstance(n, (ast.For, ast.comprehension)) and name in target_names(n.target):
            out.append((n if isinstance(n, ast.stmt) else _stmt(n), None))
        elif isinstance(n, ast.NamedExpr) and n.target.id == name:
            out.append((_stmt(n), n.value))
    return out


def _stmt(n: ast.AST) -> ast.stmt:
    while not isinstance(n, ast.stmt):
        n = parent(n)
    return n


def single_value(fi: FunctionInfo, name: str) -> ast.expr | None:
    """The value of the only binding of a local (None if a parameter, rebound, or unpacked)."""
    if name in fi.params:
        return None
    d = simple_defs(fi, name)
    if len(d) == 1 and d[0][1] is not None:
        return d[0][1]
    return None


def is_attr_of(e: ast.AST, attr: str, fi: FunctionInfo, depth: int = 0) -> bool:
    """``<anything>.attr`` or a local bound once to it."""
    if isinstance(e, ast.Attribute) and e.attr == attr:
        return True
    if isinstance(e, ast.Name) and depth < 4:
        v = single_value(fi, e.id)
        return v is not None and is_attr_of(v, attr, fi, depth + 1)
    return False


def dataclass_fields(corpus: Corpus, ci) -> list[str]:
    out = [st.target.id for st in ci.node.body if isinstance(st, ast.AnnAssign) and isinstance(st.target, ast.Name)]
    if not out:
        raise Unsupported(f"{ci.fq} has no annotated fields")
    return out


def ctor_field(call: ast.Call, fields: list[str], name: str) -> ast.expr | None:
    if any(isinstance(a, ast.Starred) for a in call.args) or any(k.arg is None for k in call.keywords):
        raise Unsupported(f"star arguments in {short(call, 60)}")
    idx = fields.index(name)
    if idx < len(call.args):
        return call.args[idx]
    for k in call.keywords:
        if k.arg == name:
            return k.value
    return None


def ctor_returns(corpus: Corpus, fi: FunctionInfo, cls_name: str) -> list[tuple[ast.Return, ast.Call]]:
    """Return statements of ``fi`` whose value constructs the package class ``cls_name``."""
    out = []
    for n in fi.local_nodes():
        if isinstance(n, ast.Return) and isinstance(n.value, ast.Call):
            full = fi.module.resolve(dotted(n.value.func) or "")
            if full.endswith("." + cls_name):
                out.append((n, n.value))
    return out


def bind_args(call: ast.Call, callee: FunctionInfo) -> dict[str, ast.expr]:
    """parameter name -> argument expression at this call."""
    if any(isinstance(a, ast.Starred) for a in call.args) or any(k.arg is None for k in call.keywords):
        raise Unsupported(f"star arguments at {short(call, 60)}")
    a = callee.node.args
    pos = [x.arg for x in a.posonlyargs + a.args]
    if callee.cls is not None and pos[:1] in (["self"], ["cls"]):
        pos = pos[1:]
    out: dict[str, ast.expr] = {}
    for i, e in enumerate(call.args):
        if i < len(pos):
            out[pos[i]] = e
        elif a.vararg is None:
            raise Unsupported(f"too many positional arguments at {short(call, 60)}")
    allnames = set(callee.params)
    for k in call.keywords:
        if k.arg in allnames:
            out[k.arg] = k.value
        elif a.kwarg is None:
            raise Unsupported(f"unknown keyword {k.arg} at {short(call, 60)}")
    return out


def block_of(st: ast.stmt) -> list | None:
    p = parent(st)
    for fld in ("body", "orelse", "finalbody"):
        b = getattr(p, fld, None)
        if isinstance(b, list) and st in b:
            return b
    return None


def control_equivalent(cfg, a, b) -> bool:
    return (cfg.dominates(a, b) and cfg.postdominates(b, a)) or (cfg.dominates(b, a) and cfg.postdominates(a, b))


def path_counts(cfg, start, stops, weight) -> dict[object, set[int]]:
    """Event counts (saturating at 2) over all paths start -> stop, *exclusive* of the stop node.
    The weight of a statement is not charged on its exceptional edge into a handler (the
    exception interrupted it)."""
    stops = set(stops)
    inn: dict[object, set[int]] = defaultdict(set)
    inn[start] = {0}
    work = [start]
    while work:
        n = work.pop()
        for s in cfg.succ.get(n, []):
            w = 0 if (isinstance(s, tuple) and s[0] == "H") else weight(n)
            new = {min(2, c + w) for c in inn[n]}
            if not new <= inn[s]:
                inn[s] |= new
                if s not in stops:
                    work.append(s)
    return {s: set(inn[s]) for s in stops if inn[s]}


# ---------------------------------------------------------------------------
# R1 closed failure mode


STREAM_READS = ("peek", "prefix", "get_position")
DIGITS = set("0123456789")


def _advancing(stmt, q: str) -> bool:
    """Does the CFG statement (header) call anything on / with the stream ``q`` that can move its cursor?"""
    for r in _header_roots(stmt):
        for c in ast.walk(r):
            if isinstance(c, ast.Call):
                if isinstance(c.func, ast.Attribute) and isinstance(c.func.value, ast.Name) and c.func.value.id == q and c.func.attr not in STREAM_READS:
                    return True
                if any(isinstance(a, ast.Name) and a.id == q for a in list(c.args) + [k.value for k in c.keywords]):
                    return True
    return False


def _digit_precondition(corpus: Corpus, fq: str, text: str) -> str | None:
    """``int(<p>.peek())`` at the start of a helper whose every call site is guarded by a digit test on the
    same cursor character, with no cursor movement in between: reason string, or None if not established."""
    g = get_callgraph(corpus)
    try:
        fi = corpus.func(fq.replace("myst_parser.", "", 1))
    except AnchorMissing:
        return None
    if fi.is_lambda or fi.cls is not None:
        return None
    calls = [c for c in fi.local_nodes() if isinstance(c, ast.Call) and dotted(c.func) == "int" and len(c.args) == 1 and short(c) == text]
    if len(calls) != 1:
        return None
    e = calls[0].args[0]
    if isinstance(e, ast.Name):
        v = single_value(fi, e.id)
        e = v if v is not None else e
    if not (isinstance(e, ast.Call) and isinstance(e.func, ast.Attribute) and e.func.attr == "peek" and not e.args and isinstance(e.func.value, ast.Name) and e.func.value.id in fi.params):
        return None
    p = e.func.value.id
    if simple_defs(fi, p):
        return None
    cfg = get_cfg(fi)
    st = cfg.stmt_of(calls[0])
    # nothing moves the cursor between the helper's entry and the conversion
    for a in cfg.nodes:
        if isinstance(a, ast.stmt) and a is not st and _advancing(a, p) and st in cfg.reachable_from(a) and cfg.is_reachable(a):
            return None
    sites = g.callers().get(fi.fq, [])
    refs = sum(1 for m_ in corpus.modules.values() for n in ast.walk(m_.tree) if isinstance(n, ast.Name) and n.id == fi.name and isinstance(n.ctx, ast.Load))
    if not sites or refs != len(sites):
        return None  # also passed around as a value
    for caller, c in sites:
        try:
            arg = bind_args(c, fi).get(p)
        except Unsupported:
            return None
        if not isinstance(arg, ast.Name) or caller.is_lambda:
            return None
        q = arg.id
        ccfg = get_cfg(caller)
        cst = ccfg.stmt_of(c)
        ok = False
        for dnode in ccfg.dom().get(cst, set()):
            if not (isinstance(dnode, tuple) and dnode[0] in ("T", "F") and isinstance(dnode[1], (ast.If, ast.While))):
                continue
            for t, pol in split_facts(dnode[1].test, dnode[0] == "T"):
                if not (pol and isinstance(t, ast.Compare) and len(t.ops) == 1 and isinstance(t.ops[0], ast.In)):
                    continue
                ds_ = _const_str(caller, t.comparators[0])
                if not ds_ or not set(ds_) <= DIGITS:
                    continue
                left = t.left
                movers = [a for a in ccfg.nodes if isinstance(a, ast.stmt) and a is not cst and _advancing(a, q)]
                if isinstance(left, ast.Call) and unparse(left) == f"{q}.peek()":
                    # no cursor movement between the test and the call
                    if not any(a in ccfg.reachable_from(dnode) and cst in ccfg.reachable_from(a) for a in movers):
                        ok = True
                elif isinstance(left, ast.Name):
                    defs = simple_defs(caller, left.id)
                    if defs and all(v is not None and unparse(v) == f"{q}.peek()" for _, v in defs):
                        isdef = lambda n, nm=left.id: isinstance(n, ast.stmt) and any(s_ is n for s_, _ in simple_defs(caller, nm))
                        bad = False
                        for d_, _ in defs:
                            for a in movers:
                                # the cursor may have moved since the character was read into the local
                                if a in ccfg.reachable_from(d_) and ccfg.paths_avoiding(a, cst, isdef):
                                    bad = True
                        if not bad:
                            ok = True
        if not ok:
            return None
    return f"every call site of {fi.qualname} is guarded by a digit test on the cursor character and nothing moves the cursor before int()"


# ---------------------------------------------------------------------------
# `assert X is not None` in the consumer of a token generator: typestate proof over producer x consumer


class _Fail(Exception):
    pass


def _yield_kinds(corpus: Corpus, fi: FunctionInfo, y: ast.expr | None) -> set[str]:
    """Concrete class names of the object a ``yield <expr>`` hands over (constructor, or a package function whose
    returns are constructors selected by a constant boolean keyword)."""
    g = get_callgraph(corpus)
    if not isinstance(y, ast.Call):
        raise Unsupported("yield of a non-call")
    d = dotted(y.func) or ""
    ci = corpus.find_class(fi.module.resolve(d))
    if ci is not None:
        return {ci.name}
    out: set[str] = set()
    targets = [t for t in g.resolve_call(y, fi) if isinstance(t, FunctionInfo) and not t.is_lambda]
    if not targets:
        raise Unsupported(f"producer of {short(y, 40)} not resolved")
    for t in targets:
        consts = {k: v.value for k, v in bind_args(y, t).items() if isinstance(v, ast.Constant)}
        a = t.node.args
        pos = [x.arg for x in a.args]
        for nm, dv in list(zip(pos[len(pos) - len(a.defaults) :], a.defaults)) + [(x.arg, dv) for x, dv in zip(a.kwonlyargs, a.kw_defaults) if dv is not None]:
            if nm not in bind_args(y, t) and isinstance(dv, ast.Constant):
                consts[nm] = dv.value
        if any(simple_defs(t, nm) for nm in consts):
            raise Unsupported("selector parameter is rebound")
        tcfg = get_cfg(t)

        def ret_kinds(e: ast.expr | None) -> set[str]:
            if isinstance(e, ast.IfExp) and isinstance(e.test, ast.Name) and e.test.id in consts:
                return ret_kinds(e.body if consts[e.test.id] else e.orelse)
            if isinstance(e, ast.IfExp) and isinstance(e.test, ast.UnaryOp) and isinstance(e.test.op, ast.Not) and isinstance(e.test.operand, ast.Name) and e.test.operand.id in consts:
                return ret_kinds(e.orelse if consts[e.test.operand.id] else e.body)
            if isinstance(e, ast.Call):
                c2 = corpus.find_class(t.module.resolve(dotted(e.func) or ""))
                if c2 is not None:
                    return {c2.name}
            raise Unsupported(f"return value of {t.qualname} is not a constructor: {short(e, 40) if e is not None else None}")

        for r in t.local_nodes():
            if isinstance(r, ast.Return):
                # returns excluded by the constant selector
                if any(isinstance(x, ast.Name) and x.id in consts and bool(consts[x.id]) != pol for x, pol in tcfg.guards(r)):
                    continue
                out |= ret_kinds(r.value)
        if t.is_generator():
            raise Unsupported("producer call is itself a generator")
    return out


def _assert_cannot_fail(corpus: Corpus, fq: str, text: str) -> str | None:
    """``assert X is not None`` inside ``for tok in <generator>(...)``: explore the producer's CFG (yields as events)
    together with the abstract value of X (None / set) under the consumer's loop body; reason, or None."""
    try:
        fi = corpus.func(fq.replace("myst_parser.", "", 1))
        asserts = [n for n in fi.local_nodes() if isinstance(n, ast.Assert) and short(n) == text]
        if len(asserts) != 1:
            return None
        target = asserts[0]
        t = target.test
        if not (isinstance(t, ast.Compare) and len(t.ops) == 1 and isinstance(t.ops[0], ast.IsNot) and isinstance(t.left, ast.Name) and isinstance(t.comparators[0], ast.Constant) and t.comparators[0].value is None):
            return None
        X = t.left.id
        loop = next((a for a in ancestors(target) if isinstance(a, (ast.For, ast.While))), None)
        if not (isinstance(loop, ast.For) and isinstance(loop.target, ast.Name) and isinstance(loop.iter, ast.Call)):
            return None
        TOK = loop.target.id
        g = get_callgraph(corpus)
        prods = [p_ for p_ in g.resolve_call(loop.iter, fi) if isinstance(p_, FunctionInfo)]
        if len(prods) != 1 or not prods[0].is_generator():
            return None
        prod = prods[0]
        # X before the loop: every binding outside the loop body is None
        outside = [(s_, v) for s_, v in simple_defs(fi, X) if not any(a is loop for a in ancestors(s_))]
        if not outside or any(not (isinstance(v, ast.Constant) and v.value is None) for _, v in outside):
            return None
        if any(s_ is loop or any(a is loop for a in ancestors(s_)) for s_, _ in simple_defs(fi, TOK) if s_ is not loop):
            return None
        classes = {c.name: c for c in fi.module.classes.values()}

        def is_sub(kind: str, cls: str) -> bool:
            ci = classes.get(kind)
            return ci is not None and any(x.name == cls for x in corpus.mro(ci))

        def test(e: ast.expr, st: str, kind: str) -> bool:
            if isinstance(e, ast.UnaryOp) and isinstance(e.op, ast.Not):
                return not test(e.operand, st, kind)
            if isinstance(e, ast.BoolOp):
                vals = [test(v, st, kind) for v in e.values]
                return all(vals) if isinstance(e.op, ast.And) else any(vals)
            if isinstance(e, ast.Call) and dotted(e.func) == "isinstance" and len(e.args) == 2 and isinstance(e.args[0], ast.Name) and e.args[0].id == TOK:
                cs = e.args[1].elts if isinstance(e.args[1], ast.Tuple) else [e.args[1]]
                return any(is_sub(kind, (dotted(c) or "").rsplit(".", 1)[-1]) for c in cs)
            if isinstance(e, ast.Compare) and len(e.ops) == 1 and isinstance(e.left, ast.Name) and e.left.id == X and isinstance(e.comparators[0], ast.Constant) and e.comparators[0].value is None and isinstance(e.ops[0], (ast.Is, ast.IsNot)):
                return (st == "N") == isinstance(e.ops[0], ast.Is)
            if isinstance(e, ast.Name) and e.id == X:
                return st == "S"
            raise Unsupported(f"test not modelled: {short(e, 40)}")

        def run(stmts, st: str, kind: str) -> set[str]:
            """States at the end of the iteration (any way of leaving the body); raises _Fail if the target assert can fail."""
            cur = {st}
            ends: set[str] = set()
            for s_ in stmts:
                nxt: set[str] = set()
                for c in cur:
                    if isinstance(s_, ast.If):
                        br = s_.body if test(s_.test, c, kind) else s_.orelse
                        a, e = run_inner(br, c, kind)
                        nxt |= a
                        ends |= e
                    elif isinstance(s_, ast.Assert):
                        ok = test(s_.test, c, kind)
                        if not ok:
                            if s_ is target:
                                raise _Fail()
                            continue  # another assert fails: path ends
                        nxt.add(c)
                    elif isinstance(s_, (ast.Assign, ast.AnnAssign)) and X in [x for t_ in (s_.targets if isinstance(s_, ast.Assign) else [s_.target]) for x in target_names(t_)]:
                        v = s_.value
                        if isinstance(v, ast.Constant) and v.value is None:
                            nxt.add("N")
                        elif isinstance(v, ast.Name) and v.id == TOK:
                            nxt.add("S")
                        else:
                            raise Unsupported(f"binding of {X} not modelled: {short(s_, 40)}")
                    elif isinstance(s_, (ast.Raise, ast.Return)):
                        continue
                    elif isinstance(s_, (ast.Continue, ast.Break)):
                        ends.add(c)
                    elif isinstance(s_, (ast.Expr, ast.Assign, ast.AnnAssign, ast.AugAssign, ast.Pass)):
                        if any(isinstance(n, ast.Name) and n.id == X and isinstance(n.ctx, (ast.Store, ast.Del)) for n in ast.walk(s_)):
                            raise Unsupported(f"binding of {X} not modelled")
                        nxt.add(c)
                    else:
                        raise Unsupported(f"statement not modelled in the consumer loop: {type(s_).__name__}")
                cur = nxt
            return cur | ends

        def run_inner(stmts, st, kind):
            # like run(), but separates fall-through states from states that left the iteration
            cur = {st}
            ends: set[str] = set()
            for s_ in stmts:
                nxt: set[str] = set()
                for c in cur:
                    r = run([s_], c, kind)
                    if isinstance(s_, (ast.Continue, ast.Break)):
                        ends |= r
                    elif isinstance(s_, ast.If):
                        br = s_.body if test(s_.test, c, kind) else s_.orelse
                        a, e = run_inner(br, c, kind)
                        nxt |= a
                        ends |= e
                    else:
                        nxt |= r
                cur = nxt
            return cur, ends

        # the assert must sit directly in the loop body of a try-free path: find the statement list that is the loop body
        body = loop.body
        pcfg = get_cfg(prod)
        kinds_at: dict = {}
        for n in pcfg.nodes:
            if isinstance(n, ast.stmt):
                ys = [x for r_ in _header_roots(n) for x in ast.walk(r_) if isinstance(x, (ast.Yield, ast.YieldFrom))]
                if not ys:
                    continue
                if len(ys) != 1 or not (isinstance(n, ast.Expr) and n.value is ys[0] and isinstance(ys[0], ast.Yield)):
                    raise Unsupported("yield shape not modelled")
                kinds_at[n] = _yield_kinds(corpus, prod, ys[0].value)
        seen: set = set()
        work = [("ENTRY", "N")]
        while work:
            node, st = work.pop()
            if (node, st) in seen:
                continue
            seen.add((node, st))
            outs = {st}
            if node in kinds_at:
                outs = set()
                for kind in kinds_at[node]:
                    outs |= run(body, st, kind)
            for nx in pcfg.succ.get(node, []):
                if nx in ("RAISE",) or (isinstance(nx, tuple) and nx[0] == "H"):
                    if nx == "RAISE":
                        continue
                for o in outs:
                    work.append((nx, o))
        return f"explored {len(seen)} (producer location, {X} is None/set) pairs of {prod.qualname} x {fi.qualname}: whenever the asserting branch runs, {X} is set"
    except _Fail:
        return None
    except (Unsupported, AnchorMissing):
        return None


class _Held(Report):
    """Report proxy: ValueError findings about int(<cursor character>) inside the option tokenizer are held back
    and re-judged with the caller-side digit precondition (the engine's digit guard is intra-procedural / by-name)."""

    def __init__(self, real: Report, corpus: Corpus):
        self.__dict__["_real"] = real
        self.__dict__["_corpus"] = corpus

    def __getattr__(self, name):
        return getattr(self._real, name)

    def __setattr__(self, name, value):
        setattr(self._real, name, value)

    def violation(self, rule_id, key, site, what, path=None):
        if "|origin=" in key:
            self.__dict__.setdefault("held", []).append((rule_id, key, site, what, path))
            return
        self._real.violation(rule_id, key, site, what, path)

    def rejudge(self, analyses) -> None:
        """Findings whose origin lies in the option tokenizer, re-judged with facts the engine's intra-procedural,
        literal-only guards do not see (module constants, caller-side preconditions, generator protocol, the class
        of `raise C(...).method(...)`)."""
        ea = analyses.get(None) if isinstance(analyses, dict) else None
        for rule_id, key, site, what, path in self.__dict__.get("held", []):
            exc = key.split("|")[1]
            fq, _, text = key.split("|origin=", 1)[1].partition("|")
            why = None
            in_tokenizer = fq.startswith("myst_parser.parsers.options:")
            if ea is not None:
                why = _caught_by_tuple_constant(self._corpus, ea, key.split("|")[0].split("=", 1)[1], fq, text, exc)
            if why or not in_tokenizer:
                pass
            elif exc in ("ValueError", "OverflowError") and text.startswith(("int(", "chr(")):
                why = _scalar_guard(self._corpus, fq, text) or (_digit_precondition(self._corpus, fq, text) if text.startswith("int(") else None)
            elif exc == "AssertionError":
                r = _assert_cannot_fail(self._corpus, fq, text)
                why = "the assertion cannot fail: " + r if r else None
            elif exc == "Exception" and text.startswith("raise ") and ea is not None:
                why = _retyped_raise(self._corpus, ea, key.split("|")[0].split("=", 1)[1], fq, text)
            if why:
                self._real.ok(rule_id, key, site, "discharged: " + why)
            else:
                self._real.violation(rule_id, key, site, what, path)


def _caught_by_tuple_constant(corpus: Corpus, ea, entry_fq: str, fq: str, text: str, exc_short: str) -> str | None:
    """The raising construct sits in a ``try`` of its own function whose handler names a module-level tuple constant of
    exception classes (possibly imported from another module) that covers the exception, and the handler does not re-raise."""
    try:
        fi = corpus.func(fq.replace("myst_parser.", "", 1))
    except AnchorMissing:
        return None
    nodes = [n for n in fi.local_nodes() if isinstance(n, (ast.Call, ast.Raise, ast.Assert)) and short(n) == text]
    if len(nodes) != 1:
        return None
    node = nodes[0]
    excs = {it.exc for it in ea.summ.get(entry_fq, ()) if it.origin_fq == fq and it.origin_text == text and it.exc.rsplit(".", 1)[-1] == exc_short}
    if len(excs) != 1:
        return None
    exc = next(iter(excs))
    cur: ast.AST = node
    for a in ancestors(node):
        if isinstance(a, (ast.FunctionDef, ast.Lambda)):
            break
        if isinstance(a, ast.Try) and any(cur is s_ for s_ in a.body):
            for h in a.handlers:
                if h.type is None or not isinstance(h.type, (ast.Name, ast.Attribute)):
                    continue
                d = dotted(h.type)
                full = fi.module.resolve(d or "")
                modname, _, cname = full.rpartition(".")
                cm = corpus.modules.get(modname)
                if cm is None or cname not in cm.const_nodes:
                    continue
                tv = cm.const_nodes[cname]
                if not isinstance(tv, ast.Tuple):
                    continue
                classes = []
                for e_ in tv.elts:
                    de = dotted(e_)
                    if de is None:
                        classes = None
                        break
                    classes.append(ea.h.canonical(cm.resolve(de)))
                if not classes:
                    continue
                if any(isinstance(x, ast.Raise) and x.exc is None for s_ in h.body for x in ast.walk(s_)):
                    continue
                hit = [c_ for c_ in classes if ea.h.is_sub(exc, c_)]
                if hit:
                    return f"caught in {fi.qualname} by `except {d}`, a tuple constant of {cm.name} that lists {hit[0].rsplit('.', 1)[-1]}"
        cur = a
    return None


def _const_str(fi: FunctionInfo, e: ast.expr) -> str | None:
    """A string literal, or a module constant / concatenation of such that evaluates to a string."""
    try:
        v = fi.module.eval_const(e)
    except (Unsupported, AnchorMissing, TypeError):
        return None
    return v if isinstance(v, str) else None


HEXDIGITS = set("0123456789ABCDEFabcdef")


def _find_call(fi: FunctionInfo, text: str) -> ast.Call | None:
    calls = [c for c in fi.local_nodes() if isinstance(c, ast.Call) and short(c) == text]
    return calls[0] if len(calls) == 1 else None


def _hex_loop(fi: FunctionInfo, call: ast.Call) -> bool:
    """``int(S.prefix(N), 16)`` preceded in its block by ``for k in range(N): if S.peek(k) not in HEX: raise`` with HEX
    a (constant-folded) set of hex digits."""
    if not (dotted(call.func) == "int" and len(call.args) == 2 and isinstance(call.args[1], ast.Constant) and call.args[1].value == 16):
        return False
    a0 = call.args[0]
    dname = None
    if isinstance(a0, ast.Name):
        # the digits were read once into a local: `digits = S.prefix(N)` ... `for ch in digits: if ch not in HEX: raise`
        v0 = single_value(fi, a0.id)
        if v0 is None:
            return False
        dname, a0 = a0.id, v0
    if not (isinstance(a0, ast.Call) and isinstance(a0.func, ast.Attribute) and a0.func.attr == "prefix" and len(a0.args) == 1):
        return False
    recv, n_text = unparse(a0.func.value), unparse(a0.args[0])
    st = _stmt(call)
    blk = block_of(st)
    if blk is None:
        return False
    for prev in blk[: blk.index(st)]:
        if dname is not None and isinstance(prev, ast.For) and isinstance(prev.iter, ast.Name) and prev.iter.id == dname and isinstance(prev.target, ast.Name):
            for s_ in prev.body:
                if isinstance(s_, ast.If) and any(isinstance(x, ast.Raise) for x in s_.body):
                    t = s_.test
                    if isinstance(t, ast.Compare) and len(t.ops) == 1 and isinstance(t.ops[0], ast.NotIn) and isinstance(t.left, ast.Name) and t.left.id == prev.target.id:
                        hs = _const_str(fi, t.comparators[0])
                        if hs and set(hs) <= HEXDIGITS:
                            return _consumed_after_validation(fi, blk, prev, recv, n_text)
        if isinstance(prev, ast.For) and isinstance(prev.iter, ast.Call) and dotted(prev.iter.func) == "range" and len(prev.iter.args) == 1 and unparse(prev.iter.args[0]) == n_text and isinstance(prev.target, ast.Name):
            kname = prev.target.id
            for s_ in prev.body:
                if isinstance(s_, ast.If) and any(isinstance(x, ast.Raise) for x in s_.body):
                    t = s_.test
                    if isinstance(t, ast.Compare) and len(t.ops) == 1 and isinstance(t.ops[0], ast.NotIn) and unparse(t.left) == f"{recv}.peek({kname})":
                        hs = _const_str(fi, t.comparators[0])
                        if hs and set(hs) <= HEXDIGITS:
                            return _consumed_after_validation(fi, blk, prev, recv, n_text)
    return False


EARLY_FORWARD: list = []  # (function, forward call) found while judging: reported by r1 as IndexError origins


def _consumed_after_validation(fi: FunctionInfo, blk: list, loop: ast.For, recv: str, n_text: str) -> bool:
    """validate-before-consume: `S.forward(N)` for the N characters of the escape only behind the loop that proved them to be
    hex digits (hence inside the text: the end sentinel is not a hex digit). An earlier forward(N) runs past the sentinel when
    the text ends inside the escape (IndexError in StreamBuffer.forward)."""
    ok = True
    for st in blk[: blk.index(loop)]:
        for c in ast.walk(st):
            if isinstance(c, ast.Call) and isinstance(c.func, ast.Attribute) and c.func.attr == "forward" and unparse(c.func.value) == recv and len(c.args) == 1 and unparse(c.args[0]) == n_text:
                ok = False
                if (fi.fq, short(c)) not in [(f_.fq, short(c_)) for f_, c_ in EARLY_FORWARD]:
                    EARLY_FORWARD.append((fi, c))
    return ok


def _scalar_guard(corpus: Corpus, fq: str, text: str) -> str | None:
    """The engine's discharge shapes for int(<hex>, 16) / chr(code) / int(NAME), with the character sets taken from
    module constants as well as from literals."""
    try:
        fi = corpus.func(fq.replace("myst_parser.", "", 1))
    except AnchorMissing:
        return None
    call = _find_call(fi, text)
    if call is None:
        return None
    d = dotted(call.func)
    if d == "int" and len(call.args) == 2:
        return "int(.., 16) is preceded by a loop that raises on the first character outside the (constant-folded) hex digit set" if _hex_loop(fi, call) else None
    if d == "int" and len(call.args) == 1 and isinstance(call.args[0], ast.Name):
        name = call.args[0].id
        cur: ast.AST = call
        for a in ancestors(call):
            if isinstance(a, (ast.FunctionDef, ast.Lambda)):
                break
            if isinstance(a, ast.If) and cur in a.body:
                t = a.test
                if isinstance(t, ast.Compare) and len(t.ops) == 1 and isinstance(t.ops[0], ast.In) and isinstance(t.left, ast.Name) and t.left.id == name:
                    ds = _const_str(fi, t.comparators[0])
                    if ds and set(ds) <= DIGITS:
                        return "int(): the argument is dominated by a membership test in a (constant-folded) digit set"
            cur = a
        return None
    if d == "chr" and len(call.args) == 1 and isinstance(call.args[0], ast.Name):
        name = call.args[0].id
        st = _stmt(call)
        blk = block_of(st)
        if blk is None:
            return None
        upper = nonneg = False
        for prev in blk[: blk.index(st)]:
            if isinstance(prev, ast.Assign) and any(isinstance(t_, ast.Name) and t_.id == name for t_ in prev.targets):
                upper = False
                nonneg = isinstance(prev.value, ast.Call) and _hex_loop(fi, prev.value)
            if isinstance(prev, ast.If) and not prev.orelse and prev.body and isinstance(prev.body[-1], ast.Raise):
                t = prev.test
                if isinstance(t, ast.Compare) and len(t.ops) == 1 and isinstance(t.left, ast.Name) and t.left.id == name:
                    try:
                        c = fi.module.eval_const(t.comparators[0])
                    except (Unsupported, AnchorMissing):
                        c = None
                    if isinstance(c, int) and ((isinstance(t.ops[0], ast.Gt) and c <= 0x10FFFF) or (isinstance(t.ops[0], ast.GtE) and c <= 0x110000)):
                        upper = True
        return "chr(): code comes from int(<hex digits>, 16) >= 0 and is preceded by `if code > MAX: raise` with MAX <= 0x10FFFF" if (upper and nonneg) else None
    return None


def _retyped_raise(corpus: Corpus, ea, entry_fq: str, fq: str, text: str) -> str | None:
    """``raise C(...).m(...)`` that the engine typed as plain Exception: m's return annotation names the class T;
    the raise is outside any try of its function F, and some T that escapes F does not escape the entry, so a T leaving F
    is caught on every call chain."""
    try:
        fi = corpus.func(fq.replace("myst_parser.", "", 1))
    except AnchorMissing:
        return None
    raises = [n for n in fi.local_nodes() if isinstance(n, ast.Raise) and n.exc is not None and short(n) == text]
    if len(raises) != 1:
        return None
    r = raises[0]
    e = r.exc
    if not (isinstance(e, ast.Call) and isinstance(e.func, ast.Attribute) and isinstance(e.func.value, ast.Call)):
        return None
    ci = corpus.find_class(fi.module.resolve(dotted(e.func.value.func) or ""))
    if ci is None:
        return None
    meth = corpus.lookup_method(ci, e.func.attr)
    if meth is None or meth.is_lambda or meth.node.returns is None:
        return None
    ann = meth.node.returns
    if isinstance(ann, ast.Constant) and isinstance(ann.value, str):
        ann = ast.parse(ann.value, mode="eval").body
    tci = corpus.find_class(meth.module.resolve(dotted(ann) or ""))
    if tci is None:
        return None
    T = ea.h.canonical(f"{tci.module.name}.{tci.name}")
    for a in ancestors(r):
        if isinstance(a, ast.Try):
            return None
        if isinstance(a, (ast.FunctionDef, ast.Lambda)):
            break
    leaving_f = [x for x in ea.summ.get(fi.fq, ()) if ea.h.canonical(x.exc) == T]
    at_entry = {x.ident() for x in ea.summ.get(entry_fq, ())}
    if leaving_f and all(x.ident() not in at_entry for x in leaving_f):
        return f"`{short(e, 50)}` is a {tci.name} ({ci.name}.{e.func.attr} is annotated to return it); {len(leaving_f)} other {tci.name} origin(s) leave {fi.qualname} the same way and none reaches {entry_fq.split(':')[1]}"
    return None


@rule("C08.R1")
def r1_failure_mode(corpus: Corpus, rep: Report, tier: str):
    held = _Held(rep, corpus)
    analyses = escape_closure(
        corpus,
        held,
        "C08.R1",
        [(None, ENTRY_FQ, [MARKUP_ERROR])],
        "only MarkupError can leave parse_directive_text; the option converter (foreign callable) runs under `except Exception`",
    )
    del EARLY_FORWARD[:]
    held.rejudge(analyses)
    # the validate-before-consume obligation of the escape idiom, judged whether or not the engine held a finding there
    for fi_ in corpus.mod("parsers.options").functions.values():
        if fi_.is_lambda:
            continue
        for c_ in fi_.local_nodes():
            if isinstance(c_, ast.Call) and dotted(c_.func) == "int" and len(c_.args) == 2 and isinstance(c_.args[1], ast.Constant) and c_.args[1].value == 16:
                _hex_loop(fi_, c_)
    for fi_, c_ in list(EARLY_FORWARD):
        rep.violation(
            "C08.R1",
            f"entry=myst_parser.{ENTRY_FQ}|IndexError|origin={fi_.fq}|{short(c_)}",
            fi_.module.site(c_),
            f"`{short(c_)}` advances the cursor over the characters of an escape before the loop that validates them: when the text ends inside the escape the cursor runs past the end "
            "sentinel and StreamBuffer.forward raises IndexError, which is not a TokenizeError and leaves parse_directive_text",
        )
    # the converter call, located by role (callable looked up in <directive class>.option_spec), independent of the local's name
    vm = validation_machinery(corpus)
    corpus = vm.corpus
    f = vm.f
    call = vm.conv_call
    k = f"{f.fq}|foreign converter call is under a handler that covers Exception"
    tr = None
    node: ast.AST = call
    for a in ancestors(call):
        if isinstance(a, (ast.FunctionDef, ast.Lambda)):
            break
        if isinstance(a, ast.Try) and any(node is s for s in a.body):
            tr = a
            break
        node = a
    if tr is None:
        rep.violation("C08.R1", k, f.module.site(call), f"`{short(call, 50)}` applies a callable taken from the directive's option_spec outside any try: whatever it raises leaves parse_directive_text")
    else:
        broad = False
        for h in tr.handlers:
            elts = [None] if h.type is None else (h.type.elts if isinstance(h.type, ast.Tuple) else [h.type])
            for e in elts:
                if e is None or f.module.resolve(dotted(e) or "") in ("Exception", "BaseException", "builtins.Exception", "builtins.BaseException"):
                    broad = True
        if broad:
            rep.ok("C08.R1", k, f.module.site(call))
        else:
            rep.violation(
                "C08.R1",
                k,
                f.module.site(call),
                f"`{short(call, 50)}` is a foreign callable (option_spec converter, given None for an empty value) but its handlers "
                f"`{', '.join(unparse(h.type) if h.type else 'bare' for h in tr.handlers)}` do not cover Exception: e.g. an empty :figwidth: raises AttributeError out of parse_directive_text",
            )
    rep.expect_min("C08.R1", 8, "raise sites and catalogued calls reachable from parse_directive_text (tokenizer raises, MarkupError x2, yaml load, converter)")


# ---------------------------------------------------------------------------
# the option validation machinery of _parse_directive_options, located by role


# ---------------------------------------------------------------------------
# helper inlining: private single-exit helpers of the directives module are substituted at their call
# sites (parameters bound, locals renamed, `return e` turned into the assignment of the call statement),
# so that a function split into helpers is analysed as the one function it is equivalent to.
# Nodes keep their line numbers; nothing is executed.


def _single_exit_helper(fn: ast.FunctionDef) -> bool:
    if not fn.name.startswith("_") or fn.name.startswith("__") or fn.decorator_list:
        return False
    a = fn.args
    if a.vararg or a.kwarg or a.posonlyargs:
        return False
    if not fn.body or not isinstance(fn.body[-1], ast.Return):
        return False
    for n in ast.walk(fn):
        if n is fn:
            continue
        if isinstance(n, (ast.FunctionDef, ast.AsyncFunctionDef, ast.ClassDef, ast.Yield, ast.YieldFrom, ast.Global, ast.Nonlocal, ast.Import, ast.ImportFrom, ast.Await)):
            return False
        if isinstance(n, ast.Return) and n is not fn.body[-1]:
            return False
        if isinstance(n, ast.Name) and n.id == fn.name:
            return False
    return True


NAMEDTUPLES: dict[str, list[str]] = {}  # class name -> field names, of the module being inlined (set by _build_inlined)


def _tail_helper(fn: ast.FunctionDef) -> bool:
    """A private module-level function that may be substituted for `return fn(...)` (any number of returns)."""
    if not fn.name.startswith("_") or fn.name.startswith("__") or fn.decorator_list:
        return False
    a = fn.args
    if a.vararg or a.kwarg or a.posonlyargs or not fn.body:
        return False
    for n in ast.walk(fn):
        if n is fn:
            continue
        if isinstance(n, (ast.FunctionDef, ast.AsyncFunctionDef, ast.ClassDef, ast.Yield, ast.YieldFrom, ast.Global, ast.Nonlocal, ast.Import, ast.ImportFrom, ast.Await)):
            return False
        if isinstance(n, ast.Name) and n.id == fn.name:
            return False
    return True


def _inline_call(stmt: ast.stmt, call: ast.Call, fn: ast.FunctionDef, prefix: str) -> list[ast.stmt] | None:
    import copy

    a = fn.args
    pos = [x.arg for x in a.args]
    kwonly = [x.arg for x in a.kwonlyargs]
    if any(isinstance(x, ast.Starred) for x in call.args) or any(k.arg is None for k in call.keywords) or len(call.args) > len(pos):
        return None
    bound: dict[str, ast.expr] = {}
    for i, e in enumerate(call.args):
        bound[pos[i]] = e
    for k in call.keywords:
        if k.arg in bound or k.arg not in pos + kwonly:
            return None
        bound[k.arg] = k.value
    defaults = dict(zip(pos[len(pos) - len(a.defaults) :], a.defaults))
    defaults.update({n: d for n, d in zip(kwonly, a.kw_defaults) if d is not None})
    for p_ in pos + kwonly:
        if p_ not in bound:
            if p_ not in defaults:
                return None
            bound[p_] = defaults[p_]
    body = copy.deepcopy(fn.body)
    local = set(pos + kwonly)
    for st in body:
        for n in ast.walk(st):
            if isinstance(n, ast.Name) and isinstance(n.ctx, (ast.Store, ast.Del)):
                local.add(n.id)
            elif isinstance(n, ast.ExceptHandler) and n.name:
                local.add(n.name)
    for st in body:
        for n in ast.walk(st):
            if isinstance(n, ast.Name) and n.id in local:
                n.id = prefix + n.id
            elif isinstance(n, ast.ExceptHandler) and n.name in local:
                n.name = prefix + n.name
    out: list[ast.stmt] = []
    for p_ in pos + kwonly:
        b = ast.Assign(targets=[ast.Name(id=prefix + p_, ctx=ast.Store())], value=copy.deepcopy(bound[p_]))
        b._c08_glue = True  # parameter binding generated by the inliner
        ast.copy_location(b, stmt)
        out.append(b)
    if isinstance(stmt, ast.Return):
        # tail position: the helper's own returns become returns of the host
        out.extend(body)
        if not isinstance(body[-1], (ast.Return, ast.Raise)):
            end = ast.Return(value=ast.Constant(value=None))  # the helper may fall off its end
            ast.copy_location(end, stmt)
            out.append(end)
        for n in out:
            ast.fix_missing_locations(n)
        return out
    def result_of(ret: ast.Return) -> list[ast.stmt]:
        val = ret.value if ret.value is not None else ast.Constant(value=None)
        if isinstance(stmt, ast.Expr):
            new = [ast.Expr(value=val)]
        else:
            tgt = stmt.targets[0] if isinstance(stmt, ast.Assign) else stmt.target
            vals = None
            if isinstance(val, ast.Tuple):
                vals = list(val.elts)
            elif isinstance(val, ast.Call) and isinstance(val.func, ast.Name) and val.func.id in NAMEDTUPLES and not any(isinstance(x, ast.Starred) for x in val.args) and not any(k_.arg is None for k_ in val.keywords):
                # a NamedTuple result is unpacked in field order
                flds = NAMEDTUPLES[val.func.id]
                byname = {k_.arg: k_.value for k_ in val.keywords}
                vals = [val.args[i] if i < len(val.args) else byname.get(fn_) for i, fn_ in enumerate(flds)]
                if any(v_ is None for v_ in vals) or len(val.args) > len(flds):
                    vals = None
            if isinstance(tgt, ast.Tuple) and vals is not None and len(tgt.elts) == len(vals) and all(isinstance(e, ast.Name) for e in tgt.elts):
                new = [ast.Assign(targets=[copy.deepcopy(t_)], value=v_) for t_, v_ in zip(tgt.elts, vals)]
            else:
                new = [ast.Assign(targets=[copy.deepcopy(tgt)], value=val)]
        for n in new:
            n._c08_glue = True  # result assignment generated by the inliner
            ast.copy_location(n, ret)
        return new

    def definitely_returns(blk: list) -> bool:
        if not blk:
            return False
        last = blk[-1]
        if isinstance(last, (ast.Return, ast.Raise)):
            return True
        return isinstance(last, ast.If) and definitely_returns(last.body) and definitely_returns(last.orelse)

    def has_return(blk: list) -> bool:
        return any(isinstance(n, ast.Return) for st_ in blk for n in ast.walk(st_))

    def lower(blk: list) -> list | None:
        """Early returns turned into if/else nesting whose every path ends in the result assignment (no duplication:
        the statements behind an `if` go into the branch that falls through, the other branch must return)."""
        res: list = []
        for i, st_ in enumerate(blk):
            if isinstance(st_, ast.Return):
                return res + result_of(st_)
            if isinstance(st_, ast.If) and (has_return(st_.body) or has_return(st_.orelse)):
                rest = blk[i + 1 :]
                b_ret, o_ret = definitely_returns(st_.body), definitely_returns(st_.orelse)
                if b_ret and o_ret:
                    nb, no = lower(st_.body), lower(st_.orelse)
                elif b_ret:
                    nb, no = lower(st_.body), lower(st_.orelse + rest)
                elif o_ret:
                    nb, no = lower(st_.body + rest), lower(st_.orelse)
                else:
                    return None
                if nb is None or no is None:
                    return None
                st_.body, st_.orelse = nb, no
                return res + [st_]
            if has_return([st_]):
                return None  # a return inside a loop / try / with
            res.append(st_)
        # fell off the end: the helper returns None
        end = ast.Return(value=ast.Constant(value=None))
        ast.copy_location(end, stmt)
        return res + result_of(end)

    low = lower(body)
    if low is None:
        return None
    out.extend(low)
    for n in out:
        ast.fix_missing_locations(n)
    return out


def _inline_block(stmts: list, helpers: dict, counter: list) -> tuple[list, bool]:
    out: list = []
    changed = False
    for st in stmts:
        call = None
        if isinstance(st, ast.Assign) and len(st.targets) == 1 and isinstance(st.value, ast.Call):
            call = st.value
        elif isinstance(st, ast.AnnAssign) and isinstance(st.value, ast.Call) and isinstance(st.target, ast.Name):
            call = st.value
        elif isinstance(st, ast.Expr) and isinstance(st.value, ast.Call):
            call = st.value
        tail = isinstance(st, ast.Return) and isinstance(st.value, ast.Call) and isinstance(st.value.func, ast.Name) and st.value.func.id in helpers.get("__tail__", {})
        if tail:
            counter[0] += 1
            fn_ = helpers["__tail__"][st.value.func.id]
            new = _inline_call(st, st.value, fn_, f"_{fn_.name.strip('_')}{counter[0]}__")
            if new is not None:
                out.extend(new)
                changed = True
                continue
        if call is not None and isinstance(call.func, ast.Name) and call.func.id != "__tail__" and (call.func.id in helpers or call.func.id in helpers.get("__tail__", {})):
            counter[0] += 1
            fn2_ = helpers.get(call.func.id) or helpers["__tail__"][call.func.id]
            new = _inline_call(st, call, fn2_, f"_{call.func.id.strip('_')}{counter[0]}__")
            if new is not None:
                out.extend(new)
                changed = True
                continue
        for fld in ("body", "orelse", "finalbody"):
            blk = getattr(st, fld, None)
            if isinstance(blk, list) and blk and isinstance(blk[0], ast.stmt):
                nb, ch = _inline_block(blk, helpers, counter)
                if ch:
                    setattr(st, fld, nb)
                    changed = True
        for h in getattr(st, "handlers", []) or []:
            nb, ch = _inline_block(h.body, helpers, counter)
            if ch:
                h.body = nb
                changed = True
        out.append(st)
    return out, changed


PURE_CALLS = {
    "lstrip", "rstrip", "strip", "startswith", "endswith", "lower", "upper", "casefold", "isspace", "isdigit", "isalpha", "isalnum",
    "removeprefix", "removesuffix", "find", "rfind", "count", "splitlines", "split", "partition", "rpartition", "expandtabs",
    "len", "bool", "str", "isinstance", "any", "all", "min", "max", "match", "fullmatch", "search",
}


def _predicate_helper(fn: ast.FunctionDef) -> tuple[list[str], ast.expr] | None:
    """(parameters, expression) of a private helper that only computes an expression from its parameters with pure
    string methods / builtins: straight-line single bindings of locals followed by one ``return <expr>``."""
    import copy

    if not fn.name.startswith("_") or fn.name.startswith("__") or fn.decorator_list:
        return None
    a = fn.args
    if a.vararg or a.kwarg or a.posonlyargs or a.kwonlyargs or a.defaults:
        return None
    body = list(fn.body)
    if body and isinstance(body[0], ast.Expr) and isinstance(body[0].value, ast.Constant):
        body = body[1:]
    if not body or not isinstance(body[-1], ast.Return) or body[-1].value is None:
        return None
    env: dict[str, ast.expr] = {}

    def subst(e: ast.expr) -> ast.expr | None:
        e = copy.deepcopy(e)
        ok = [True]

        class T(ast.NodeTransformer):
            def visit_Name(self, n):
                if isinstance(n.ctx, ast.Load) and n.id in env:
                    return copy.deepcopy(env[n.id])
                if not isinstance(n.ctx, ast.Load):
                    ok[0] = False
                return n

            def visit_Call(self, n):
                nm = n.func.attr if isinstance(n.func, ast.Attribute) else (n.func.id if isinstance(n.func, ast.Name) else None)
                if nm not in PURE_CALLS:
                    ok[0] = False
                return self.generic_visit(n)

            def visit_Lambda(self, n):
                ok[0] = False
                return n

            def visit_ListComp(self, n):
                ok[0] = False
                return n

            visit_GeneratorExp = visit_SetComp = visit_DictComp = visit_NamedExpr = visit_ListComp

        out = T().visit(e)
        return out if ok[0] else None

    for st in body[:-1]:
        if not (isinstance(st, ast.Assign) and len(st.targets) == 1 and isinstance(st.targets[0], ast.Name) and st.targets[0].id not in env and st.targets[0].id not in [x.arg for x in a.args]):
            return None
        v = subst(st.value)
        if v is None:
            return None
        env[st.targets[0].id] = v
    ret = subst(body[-1].value)
    if ret is None:
        return None
    return [x.arg for x in a.args], ret


def _inline_predicates(tree: ast.Module) -> bool:
    """Replace calls of predicate helpers by their expression (arguments must be plain names or constants)."""
    import copy

    preds = {}
    for fn in tree.body:
        if isinstance(fn, ast.FunctionDef):
            r = _predicate_helper(fn)
            if r is not None:
                preds[fn.name] = r
    if not preds:
        return False
    changed = [False]

    class T(ast.NodeTransformer):
        def visit_Call(self, n):
            self.generic_visit(n)
            if isinstance(n.func, ast.Name) and n.func.id in preds and not n.keywords and len(n.args) == len(preds[n.func.id][0]) and all(
                isinstance(x, (ast.Name, ast.Constant)) or sum(1 for y in ast.walk(preds[n.func.id][1]) if isinstance(y, ast.Name) and y.id == p_) <= 1
                for p_, x in zip(preds[n.func.id][0], n.args)
            ):
                params, expr = preds[n.func.id]
                env = dict(zip(params, n.args))
                new = copy.deepcopy(expr)

                class S(ast.NodeTransformer):
                    def visit_Name(self, m_):
                        if isinstance(m_.ctx, ast.Load) and m_.id in env:
                            return copy.deepcopy(env[m_.id])
                        return m_

                new = S().visit(new)
                for x in ast.walk(new):
                    ast.copy_location(x, n)
                changed[0] = True
                return new
            return n

    for fn in tree.body:
        if isinstance(fn, ast.FunctionDef) and fn.name not in preds:
            T().visit(fn)
    return changed[0]


def inlined(corpus: Corpus) -> Corpus:
    """The corpus with the private single-exit helpers of parsers/directives.py inlined into their callers
    (the entry function parse_directive_text is left alone). The original corpus if there is nothing to inline."""
    return corpus.cache("c08-inlined", lambda: _build_inlined(corpus))


def _build_inlined(corpus: Corpus) -> Corpus:
    from ..corpus import Module

    m = corpus.mod(MOD)
    tree = ast.parse(m.src)
    NAMEDTUPLES.clear()
    for cd in tree.body:
        if isinstance(cd, ast.ClassDef) and any((dotted(b_) or "").rsplit(".", 1)[-1] == "NamedTuple" for b_ in cd.bases):
            NAMEDTUPLES[cd.name] = [st_.target.id for st_ in cd.body if isinstance(st_, ast.AnnAssign) and isinstance(st_.target, ast.Name)]
    any_change = _inline_predicates(tree)
    for _ in range(3):
        funcs = [n for n in tree.body if isinstance(n, ast.FunctionDef)]
        helpers = {fn.name: fn for fn in funcs if _single_exit_helper(fn)}
        tails = {fn.name: fn for fn in funcs if _tail_helper(fn)}
        if not helpers and not tails:
            break
        changed = False
        counter = [0]
        for host in funcs:
            if host.name == "parse_directive_text":
                continue
            usable: dict = {k: v for k, v in helpers.items() if k != host.name}
            usable["__tail__"] = {k: v for k, v in tails.items() if k != host.name}
            nb, ch = _inline_block(host.body, usable, counter)
            if ch:
                host.body = nb
                changed = True
        any_change |= changed
        if not changed:
            break
    if not any_change:
        return corpus
    nm = Module.__new__(Module)
    nm.name, nm.path, nm.rel, nm.src, nm.lines = m.name, m.path, m.rel, m.src, m.lines
    nm.tree = tree
    nm.imports, nm.star_imports, nm.functions, nm.classes, nm.const_nodes = {}, [], {}, {}, {}
    nm._index()
    mods = dict(corpus.modules)
    mods[m.name] = nm
    return Corpus(corpus.root, mods)


def alias_closure(fi: FunctionInfo, name: str) -> set[str]:
    """``name`` plus the locals connected to it by the copy statements the inliner generated (parameter binding
    in, result assignment out), transitively. Ordinary copies written in the source are not followed."""
    s = {name}
    changed = True
    while changed:
        changed = False
        for n in fi.local_nodes():
            if isinstance(n, ast.Assign) and getattr(n, "_c08_glue", False) and len(n.targets) == 1 and isinstance(n.targets[0], ast.Name) and isinstance(n.value, ast.Name):
                a, b = n.targets[0].id, n.value.id
                if (a in s) != (b in s):
                    s |= {a, b}
                    changed = True
    return s


def copies_of(fi: FunctionInfo, name: str) -> set[str]:
    """``name``, its inliner aliases, and every local that is bound to a plain copy of one of them (`x = name`)."""
    s_ = set(alias_closure(fi, name))
    changed = True
    while changed:
        changed = False
        for n in fi.local_nodes():
            if isinstance(n, ast.Assign) and len(n.targets) == 1 and isinstance(n.targets[0], ast.Name) and isinstance(n.value, ast.Name) and n.value.id in s_ and n.targets[0].id not in s_:
                if all(isinstance(v, ast.Name) and v.id in s_ for _, v in simple_defs(fi, n.targets[0].id)):
                    s_.add(n.targets[0].id)
                    changed = True
    return s_


def real_assign(fi: FunctionInfo, names: set[str]):
    """Predicate: statement binds one of ``names`` to something that is not a plain copy within ``names``."""

    def pred(n) -> bool:
        if not isinstance(n, ast.stmt):
            return False
        for nm in names:
            for s_, v in simple_defs(fi, nm):
                if s_ is n and not (isinstance(v, ast.Name) and v.id in names):
                    return True
        return False

    return pred


class Machinery:
    pass


def validation_machinery(corpus: Corpus) -> Machinery:
    return corpus.cache("c08-machinery", lambda: _machinery(corpus))


def _machinery(corpus: Corpus) -> Machinery:
    corpus = inlined(corpus)
    g = get_callgraph(corpus)
    m = corpus.mod(MOD)
    entry = m.func("parse_directive_text")
    vm = Machinery()
    vm.entry = entry
    vm.corpus = corpus
    # the options function: the callee of parse_directive_text that reads <param>.option_spec
    cands = []
    for call, targets in g.callees(entry):
        for t in g.flat_targets(targets):
            if t.module is m and not t.is_lambda and any(isinstance(n, ast.Attribute) and n.attr == "option_spec" for n in t.local_nodes()):
                if (t, call) not in cands:
                    cands.append((t, call))
    if len({t.fq for t, _ in cands}) != 1:
        raise AnchorMissing(f"expected exactly one callee of parse_directive_text that reads option_spec, found {[t.fq for t, _ in cands]}")
    f, vm.options_call = cands[0]
    vm.f = f
    # spec lookup: Subscript (Load) on <param>.option_spec
    lookups = [
        n
        for n in f.local_nodes()
        if isinstance(n, ast.Subscript) and isinstance(n.ctx, ast.Load) and is_attr_of(n.value, "option_spec", f) and not isinstance(n.slice, ast.Slice)
    ]
    gets = [
        n
        for n in f.local_nodes()
        if isinstance(n, ast.Call) and isinstance(n.func, ast.Attribute) and n.func.attr == "get" and is_attr_of(n.func.value, "option_spec", f)
        and (len(n.args) == 1 or (len(n.args) == 2 and isinstance(n.args[1], ast.Constant) and n.args[1].value is None)) and not n.keywords
    ]
    if len(lookups) + len(gets) != 1:
        raise Unsupported(f"expected one converter lookup in option_spec, found {len(lookups)} subscript(s) and {len(gets)} .get() call(s)")
    vm.lookup_kind = "subscript" if lookups else "get"
    vm.lookup = (lookups or gets)[0]
    spec_root = vm.lookup.value if lookups else vm.lookup.func.value
    while isinstance(spec_root, ast.Name):
        spec_root = single_value(f, spec_root.id)
    if not (isinstance(spec_root, ast.Attribute) and isinstance(spec_root.value, ast.Name)):
        raise Unsupported("option_spec is not read from a parameter of the options function")
    vm.cls_aliases = alias_closure(f, spec_root.value.id)
    cps = [x for x in vm.cls_aliases if x in f.params]
    if len(cps) != 1:
        raise Unsupported("option_spec is not read from a parameter of the options function")
    vm.cls_param = cps[0]
    st = _stmt(vm.lookup)
    key_e = vm.lookup.slice if lookups else vm.lookup.args[0]
    if not (isinstance(st, ast.Assign) and st.value is vm.lookup and len(st.targets) == 1 and isinstance(st.targets[0], ast.Name) and isinstance(key_e, ast.Name)):
        raise Unsupported(f"spec lookup is not `<name> = <spec>[<key name>]` / `<spec>.get(<key name>)`: {short(st, 60)}")
    vm.lookup_stmt = st
    vm.conv_name = st.targets[0].id
    vm.key_name = key_e.id
    calls = [n for n in f.local_nodes() if isinstance(n, ast.Call) and isinstance(n.func, ast.Name) and n.func.id == vm.conv_name]
    if len(calls) != 1:
        raise Unsupported(f"expected exactly one call of the looked-up converter, found {len(calls)}")
    vm.conv_call = calls[0]
    cst = _stmt(vm.conv_call)
    if not (isinstance(cst, ast.Assign) and cst.value is vm.conv_call and len(cst.targets) == 1 and isinstance(cst.targets[0], ast.Name)):
        raise Unsupported(f"converter result is not bound to a local: {short(cst, 60)}")
    vm.conv_stmt = cst
    vm.conv_result = cst.targets[0].id
    # the validation loop
    loop = None
    for a in ancestors(vm.conv_call):
        if isinstance(a, (ast.For, ast.While)):
            loop = a
            break
        if isinstance(a, (ast.FunctionDef, ast.Lambda)):
            break
    if not isinstance(loop, ast.For):
        raise Unsupported("converter call is not inside a for loop")
    vm.loop = loop
    it = loop.iter
    if not (isinstance(it, ast.Call) and isinstance(it.func, ast.Attribute) and it.func.attr == "items" and isinstance(it.func.value, ast.Name) and isinstance(loop.target, ast.Tuple) and len(loop.target.elts) == 2 and all(isinstance(e, ast.Name) for e in loop.target.elts)):
        raise Unsupported(f"validation loop is not `for k, v in <name>.items()`: {short(loop.iter, 50)}")
    vm.merged_name = it.func.value.id
    vm.loop_key, vm.loop_val = loop.target.elts[0].id, loop.target.elts[1].id
    if any(s is not loop and any(a is loop for a in ancestors(s)) for s, _ in simple_defs(f, vm.loop_key)):
        raise Unsupported("the loop key is rebound inside the validation loop")
    # result fields
    ci = m.cls("_DirectiveOptions") if "_DirectiveOptions" in m.classes else None
    rets = []
    for n in f.local_nodes():
        if isinstance(n, ast.Return) and isinstance(n.value, ast.Call):
            c = corpus.find_class(m.resolve(dotted(n.value.func) or ""))
            if c is not None:
                rets.append((n, n.value, c))
    if not rets or len({c.fq for _, _, c in rets}) != 1:
        raise Unsupported("the options function does not return one result class on every path")
    if any(isinstance(n, ast.Return) and n not in [r for r, _, _ in rets] for n in f.local_nodes()):
        raise Unsupported("a return of the options function does not construct the result class")
    vm.result_cls = rets[0][2]
    vm.fields = dataclass_fields(corpus, vm.result_cls)
    vm.returns = [(r, c) for r, c, _ in rets]
    cfg = get_cfg(f)
    vm.cfg = cfg
    after = cfg.reachable_from(("F", loop))
    vm.final_returns = [(r, c) for r, c in vm.returns if r in after]
    if len(vm.final_returns) != 1:
        raise Unsupported(f"expected one return after the validation loop, found {len(vm.final_returns)}")
    # roles by field *type*: dict-of-options, list-of-warnings, the str content
    stores = []
    for n in walk_local(loop):
        if isinstance(n, ast.Subscript) and isinstance(n.ctx, ast.Store) and isinstance(n.value, ast.Name):
            stores.append(n)
    final_call = vm.final_returns[0][1]
    final_args = {fld: ctor_field(final_call, vm.fields, fld) for fld in vm.fields}
    by_name = {}
    for fld, v in final_args.items():
        if isinstance(v, ast.Name):
            for al in alias_closure(f, v.id):
                by_name.setdefault(al, fld)
    res_names = {n.value.id for n in stores if n.value.id in by_name}
    if len(res_names) != 1:
        raise Unsupported(f"expected the loop to store into exactly one returned dict, found {sorted(res_names)}")
    vm.res_name = res_names.pop()
    vm.res_aliases = alias_closure(f, vm.res_name)
    vm.options_field = by_name[vm.res_name]
    # warnings list: the returned Name that receives .append(ParseWarnings(...)) / .extend(...) in the function
    warn_fields = set()
    for n in f.local_nodes():
        if isinstance(n, ast.Call) and isinstance(n.func, ast.Attribute) and n.func.attr in ("append", "extend") and isinstance(n.func.value, ast.Name) and n.func.value.id in by_name and n.func.value.id not in vm.res_aliases:
            warn_fields.add(by_name[n.func.value.id])
    if len(warn_fields) != 1:
        raise Unsupported(f"expected one returned warnings list, found fields {sorted(warn_fields)}")
    vm.warn_field = warn_fields.pop()
    vm.warn_name = unparse(final_args[vm.warn_field])
    # every list whose elements end up in the returned warnings: aliases and sources of W.extend(X) / W += X
    ws = alias_closure(f, vm.warn_name)
    grew = True
    while grew:
        grew = False
        for n in f.local_nodes():
            src_ = None
            if isinstance(n, ast.Call) and isinstance(n.func, ast.Attribute) and n.func.attr == "extend" and isinstance(n.func.value, ast.Name) and n.func.value.id in ws and len(n.args) == 1 and isinstance(n.args[0], ast.Name):
                src_ = n.args[0].id
            elif isinstance(n, ast.AugAssign) and isinstance(n.op, ast.Add) and isinstance(n.target, ast.Name) and n.target.id in ws and isinstance(n.value, ast.Name):
                src_ = n.value.id
            if src_ is not None and src_ not in ws:
                ws |= alias_closure(f, src_)
                grew = True
    vm.warn_set = ws
    # content field: the remaining field whose argument is a Name in every return
    rest = [fld for fld in vm.fields if fld not in (vm.options_field, vm.warn_field)]
    content_names = {}
    for fld in rest:
        if not all(isinstance(ctor_field(c, vm.fields, fld), ast.Name) for _, c in vm.returns):
            continue
        classes = {frozenset(alias_closure(f, ctor_field(c, vm.fields, fld).id)) for _, c in vm.returns}
        if len(classes) == 1:
            cl = next(iter(classes))
            # canonical member: the options function's own name if there is one, else the first
            own = sorted(x for x in cl if x in f.params) or sorted(cl)
            content_names[fld] = own[0]
    vm.content_candidates = content_names
    return vm


# ---------------------------------------------------------------------------
# R2 priority operand order + forwarding of additional_options


MUTATORS = ("update", "setdefault", "append", "extend", "insert", "add", "__setitem__")


def _taint(fi: FunctionInfo, seeds: set[str], exclude: ast.stmt | None) -> set[str]:
    """Names that may hold a value derived from ``seeds`` when ``exclude`` executes (all names if exclude is None).
    Only definitions from which ``exclude`` is reachable in the CFG are followed (no kill analysis)."""
    t = set(seeds)
    cfg = get_cfg(fi) if exclude is not None else None
    reach_cache: dict = {}

    def reaches(n: ast.AST) -> bool:
        if cfg is None:
            return True
        st = n
        while st is not None and st not in cfg.succ:
            st = parent(st)
        if st is None:
            return True
        if st not in reach_cache:
            # a binding only takes effect on the *normal* successors of its statement: the exceptional
            # edge into a handler means the statement was interrupted before it bound anything
            normal = [x for x in cfg.succ.get(st, []) if not (isinstance(x, tuple) and x[0] == "H")]
            reach_cache[st] = any(exclude in cfg.reachable_from(x) for x in normal)
        return reach_cache[st]

    changed = True
    while changed:
        changed = False
        for n in fi.local_nodes():
            if n is exclude:
                continue
            if not isinstance(n, (ast.Assign, ast.AnnAssign, ast.AugAssign, ast.For, ast.comprehension, ast.NamedExpr, ast.Expr)) or not reaches(n):
                continue
            tg: list[str] = []
            val = None
            if isinstance(n, ast.Expr):
                # in-place mutation: X.update(Y) / X.setdefault(k, v) / X.append(v) ... taints X
                c = n.value
                if isinstance(c, ast.Call) and isinstance(c.func, ast.Attribute) and isinstance(c.func.value, ast.Name) and c.func.attr in MUTATORS:
                    tg = [c.func.value.id]
                    val = ast.Tuple(elts=list(c.args) + [k_.value for k_ in c.keywords], ctx=ast.Load())
            elif isinstance(n, ast.Assign):
                tg = [x for t_ in n.targets for x in target_names(t_)]
                # X[k] = v taints X
                tg += [t_.value.id for t_ in n.targets if isinstance(t_, ast.Subscript) and isinstance(t_.value, ast.Name)]
                val = n.value
            elif isinstance(n, ast.AnnAssign) and n.value is not None:
                tg, val = target_names(n.target), n.value
            elif isinstance(n, ast.AugAssign):
                tg, val = target_names(n.target), n.value
            elif isinstance(n, (ast.For, ast.comprehension)):
                tg, val = target_names(n.target), n.iter
            elif isinstance(n, ast.NamedExpr):
                tg, val = [n.target.id], n.value
            if val is not None and names_in(val) & t:
                for x in tg:
                    if x not in t:
                        t.add(x)
                        changed = True
    return t


def _tokenizer_calls(corpus: Corpus, fi: FunctionInfo) -> list[ast.Call]:
    g = get_callgraph(corpus)
    tok = corpus.func("parsers.options:options_to_items")
    out = []
    for call, targets in g.callees(fi):
        if any(isinstance(t, FunctionInfo) and t.fq == tok.fq for t in targets):
            out.append(call)
    return out


def _guarded_by_absence(fi: FunctionInfo, st: ast.stmt, tgt: ast.Subscript) -> bool:
    """Is the store ``M[k] = ...`` only executed when ``k not in M`` (or ``M.get(k) is None``: values are strings)?"""
    mname, key = unparse(tgt.value), unparse(tgt.slice)
    for t, pol in get_cfg(fi).guards(st):
        if isinstance(t, ast.Compare) and len(t.ops) == 1 and unparse(t.left) == key and unparse(t.comparators[0]) == mname:
            if (isinstance(t.ops[0], ast.NotIn) and pol) or (isinstance(t.ops[0], ast.In) and not pol):
                return True
        if isinstance(t, ast.Compare) and len(t.ops) == 1 and unparse(t.left) == f"{mname}.get({key})" and isinstance(t.comparators[0], ast.Constant) and t.comparators[0].value is None:
            if (isinstance(t.ops[0], ast.Is) and pol) or (isinstance(t.ops[0], ast.IsNot) and not pol):
                return True
    return False


def _guarded_by_falsy_value(fi: FunctionInfo, st: ast.stmt, tgt: ast.Subscript) -> str | None:
    """The near-synonym: ``if not M.get(k)`` / ``if not M[k]`` tests the stored value, not the key's presence."""
    mname, key = unparse(tgt.value), unparse(tgt.slice)
    for t, pol in get_cfg(fi).guards(st):
        if not pol and unparse(t) in (f"{mname}.get({key})", f"{mname}[{key}]", f"{mname}.get({key}, '')", f"{mname}.get({key}, None)"):
            return "not " + unparse(t)
    return None


def _post_merge_stores(fi: FunctionInfo, merge_st: ast.stmt, merged: set[str], add_param: str):
    """Stores into the merged dict behind the merge whose value may stem from the additional options and that
    can replace what the dict holds under another key: [(stmt, verdict, text)]."""
    cfg = get_cfg(fi)
    behind = cfg.reachable_from(merge_st)
    out = []
    for st in fi.local_nodes():
        if st is merge_st or not isinstance(st, ast.Assign) or len(st.targets) != 1:
            continue
        tgt = st.targets[0]
        if not (isinstance(tgt, ast.Subscript) and isinstance(tgt.value, ast.Name) and tgt.value.id in merged):
            continue
        if cfg.stmt_of(st) not in behind:
            continue
        a_t = _taint(fi, {add_param}, st)
        if not (names_in(st.value) & a_t):
            out.append((st, "ok", "stored value cannot stem from the additional options"))
            continue
        key = unparse(tgt.slice)
        # same-key transformation: every read of the merged dict in the value is M[key] / M.get(key) / M.pop(key)
        same = True
        for n in ast.walk(st.value):
            if isinstance(n, ast.Name) and n.id in a_t:
                p_ = parent(n)
                if n.id in merged and isinstance(p_, ast.Subscript) and p_.value is n and unparse(p_.slice) == key:
                    continue
                if n.id in merged and isinstance(p_, ast.Attribute) and p_.attr in ("get", "pop") and isinstance(parent(p_), ast.Call) and parent(p_).args and unparse(parent(p_).args[0]) == key:
                    continue
                same = False
        if same:
            out.append((st, "ok", "transforms the value already stored under the same key"))
        elif _guarded_by_absence(fi, st, tgt):
            out.append((st, "ok", "only stored when the key is absent (an option written in the block is kept)"))
        else:
            out.append((st, "bad", f"behind the priority merge the provenance of a value is lost: this store puts a value that may come from the additional options under `{key}` without testing `{key} not in {tgt.value.id}`, replacing an option of that name written in the block"))
    return out


def _apply_points(vm, t: FunctionInfo, p: str) -> list[ast.stmt]:
    """Statements that hand (a value built from) the additional options ``p`` to the dict the validation loop iterates."""
    out = []
    pal = alias_closure(t, p)
    for st_ in t.local_nodes():
        tg_: list[str] = []
        val_ = None
        if isinstance(st_, ast.Assign):
            tg_, val_ = [x for t2 in st_.targets for x in target_names(t2)], st_.value
            tg_ += [t2.value.id for t2 in st_.targets if isinstance(t2, ast.Subscript) and isinstance(t2.value, ast.Name)]
        elif isinstance(st_, ast.AnnAssign) and st_.value is not None:
            tg_, val_ = target_names(st_.target), st_.value
        elif isinstance(st_, ast.Expr) and isinstance(st_.value, ast.Call) and isinstance(st_.value.func, ast.Attribute) and isinstance(st_.value.func.value, ast.Name) and st_.value.func.attr in MUTATORS:
            tg_, val_ = [st_.value.func.value.id], ast.Tuple(elts=list(st_.value.args), ctx=ast.Load())
        if val_ is None or getattr(st_, "_c08_glue", False):
            continue
        a_t = _taint(t, set(pal), st_)
        if not (names_in(val_) & a_t):
            continue
        if any(vm.merged_name in _taint(t, {x}, None) for x in tg_):
            out.append(st_)
    return out


def _bypass_verdict(vm, t: FunctionInfo, ret: ast.Return) -> tuple[str, str]:
    """A return of the options parser that skips the merge of the additional options."""
    cfg = get_cfg(t)
    gs = cfg.guards(ret)
    try:
        call_bind = bind_args(vm.options_call, t)
    except Unsupported:
        call_bind = {}
    raw_params = {p_ for p_, e_ in call_bind.items() if "validate_options" in names_in(e_)}
    raw = any(pol and isinstance(t_, ast.Name) and t_.id in raw_params for t_, pol in gs)
    if any(pol and isinstance(t_, ast.Call) and dotted(t_.func) == "issubclass" and len(t_.args) == 2 and t.module.resolve(dotted(t_.args[1]) or "").endswith(".TestDirective") for t_, pol in gs):
        return ("bad", "docutils' TestDirective accepts every option unvalidated, but the externally supplied ones must still be merged under the block's options before it returns")
    if not isinstance(ret.value, ast.Call):
        return ("listed", "return shape not understood")
    # a warning about something else (a malformed block, bad YAML) does not report the loss of the defaults:
    # the externally supplied options (fence attributes such as {.cls #id}) are valid on their own and must still be applied
    if raw:
        return ("bad", "with validate_options=False the additional options are never merged under the YAML options")
    w = ctor_field(ret.value, vm.fields, vm.warn_field)
    if isinstance(w, (ast.List, ast.Tuple)) and w.elts or isinstance(w, ast.Name):
        return ("bad", "whatever warning this path returns is about the option block, not about the defaults: valid defaults (e.g. the class and id of a fence rendered as a directive) are dropped")
    return ("bad", "valid defaults (e.g. fence attributes for fence_as_directive) vanish and unknown ones are dropped without the 'Unknown option keys' warning")


def _merge_verdict(corpus: Corpus, fi: FunctionInfo, add_param: str):
    """[(stmt, verdict, text)] for every statement that combines the additional-options operand with the block operand."""
    toks = _tokenizer_calls(corpus, fi)
    if not toks:
        return None
    tok_seed: set[str] = set()
    block_text: set[str] = set()
    for c in toks:
        st = _stmt(c)
        if isinstance(st, ast.Assign):
            for t in st.targets:
                tok_seed.update(target_names(t))
        for a_ in c.args:
            for nm in names_in(a_):
                block_text |= alias_closure(fi, nm)
    # other readers of the block text (the full-YAML loader of validate_options=False) produce block options too
    for n in fi.local_nodes():
        if isinstance(n, ast.Assign) and any(isinstance(c_, ast.Call) and c_ not in toks and any(names_in(a_) & block_text for a_ in c_.args) and not (isinstance(c_.func, ast.Attribute) and isinstance(c_.func.value, ast.Name) and c_.func.value.id in block_text) and (dotted(c_.func) or "").rsplit(".", 1)[-1] not in ("dedent", "len", "str", "bool") for c_ in ast.walk(n.value)):
            for t in n.targets:
                if not (set(target_names(t)) & block_text):
                    tok_seed.update(target_names(t))
    out = []
    for st in fi.local_nodes():
        if not isinstance(st, (ast.Assign, ast.AugAssign, ast.Expr, ast.AnnAssign)):
            continue
        falsy = None
        used = {n.id for n in ast.walk(st) if isinstance(n, ast.Name) and isinstance(n.ctx, ast.Load)}
        if isinstance(st, ast.AugAssign):
            used |= set(target_names(st.target))
        a_t = _taint(fi, {add_param}, st)
        b_t = _taint(fi, tok_seed, st)
        a_only = {n for n in used if n in a_t and n not in b_t}
        # an operand that already holds block options (possibly on top of defaults merged earlier) plays the block role
        b_only = {n for n in used if n in b_t}
        if not a_only or not b_only:
            continue

        def role(e: ast.expr) -> str:
            ns = names_in(e)
            ia, ib = bool(ns & a_t), bool(ns & b_t)
            if ib:
                return "B"
            if ia:
                return "A"
            return "?"

        order: list[str] | None = None  # operands from losing to winning
        v = getattr(st, "value", None)
        if isinstance(st, (ast.Assign, ast.AnnAssign)) and isinstance(v, ast.Dict) and all(k is None for k in v.keys):
            order = [role(x) for x in v.values]
        elif isinstance(st, (ast.Assign, ast.AnnAssign)) and isinstance(v, ast.BinOp) and isinstance(v.op, ast.BitOr):
            order = [role(v.left), role(v.right)]
        elif isinstance(st, ast.AugAssign) and isinstance(st.op, ast.BitOr):
            order = [role(st.target), role(st.value)]
        elif isinstance(v, ast.Call) and isinstance(v.func, ast.Attribute) and v.func.attr == "update" and len(v.args) == 1 and not v.keywords:
            order = [role(v.func.value), role(v.args[0])]
        elif isinstance(v, ast.Call) and isinstance(v.func, ast.Attribute) and v.func.attr == "setdefault" and len(v.args) == 2 and not v.keywords:
            order = [role(v.args[1]), role(v.func.value)]  # M.setdefault(k, v): what M already holds wins
        elif isinstance(v, ast.Call) and dotted(v.func) == "dict" and len(v.args) == 1 and len(v.keywords) == 1 and v.keywords[0].arg is None:
            order = [role(v.args[0]), role(v.keywords[0].value)]
        elif isinstance(st, ast.Assign) and len(st.targets) == 1 and isinstance(st.targets[0], ast.Subscript) and isinstance(st.targets[0].value, ast.Name):
            # M[k] = v : v overrides what M held under k, unless guarded by `k not in M`
            tgt = st.targets[0]
            order = [role(tgt.value), role(st.value)]
            if _guarded_by_absence(fi, st, tgt):
                order.reverse()
            else:
                falsy = _guarded_by_falsy_value(fi, st, tgt)
        if order is None or "?" in order or "A" not in order or "B" not in order:
            out.append((st, "unknown", f"merge idiom not understood: {short(st, 70)}"))
            continue
        last_a = max(i for i, r in enumerate(order) if r == "A")
        first_b = min(i for i, r in enumerate(order) if r == "B")
        if last_a < first_b:
            out.append((st, "ok", "the operand derived from the option tokenizer is the later (winning) operand"))
        else:
            if falsy:
                out.append((st, "bad", f"the default is stored whenever `{falsy}` holds, i.e. the block's VALUE is tested for truthiness instead of the key for absence: an option written in the block with an empty value (a flag such as `:nowrap:`, or `:name:` left empty) is replaced by the externally supplied default"))
            else:
                out.append((st, "bad", "the externally supplied additional options are the later operand of the merge and override options written in the block"))
    return out


def _forward(corpus: Corpus, fi: FunctionInfo, name: str, goal, depth: int = 0, seen=None):
    """Follow a value held in local/param ``name`` of ``fi`` through call arguments until ``goal(callee, param)``.
    Returns (hops, reason): hops = [(caller, call, callee, param)] or None."""
    g = get_callgraph(corpus)
    seen = seen if seen is not None else set()
    if (fi.fq, name) in seen or depth > 6:
        return None, "cycle"
    seen.add((fi.fq, name))
    holders = _taint(fi, {name}, None)
    reads = [n for n in fi.local_nodes() if isinstance(n, ast.Name) and n.id == name and isinstance(n.ctx, ast.Load)]
    if not reads:
        return None, "dropped"
    reason = "not-forwarded"
    for call, targets in g.callees(fi):
        argexprs = list(call.args) + [k.value for k in call.keywords]
        if not any(names_in(a) & holders for a in argexprs):
            continue
        for t in targets:
            if not isinstance(t, FunctionInfo) or t.is_lambda:
                continue
            try:
                bound = bind_args(call, t)
            except Unsupported:
                continue
            for p, e in bound.items():
                if not (names_in(e) & holders):
                    continue
                if goal(t, p):
                    return [(fi, call, t, p)], ""
                hops, why = _forward(corpus, t, p, goal, depth + 1, seen)
                if hops is not None:
                    return [(fi, call, t, p)] + hops, ""
                if why == "dropped":
                    reason = f"dropped in {t.fq}"
                elif why.startswith("dropped in "):
                    reason = why
    return None, reason


@rule("C08.R2")
def r2_priority(corpus: Corpus, rep: Report, tier: str):
    rep.rule("C08.R2", "additional_options reach the option merge hop by hop, and there the block's options are the later (winning) operand")
    vm = validation_machinery(corpus)
    corpus = vm.corpus
    entry = vm.entry
    if "additional_options" not in entry.params:
        raise AnchorMissing("parse_directive_text has no parameter `additional_options`")
    # (a) API parameter -> merge function
    merges: dict[str, list] = {}

    def goal_merge(t: FunctionInfo, p: str) -> bool:
        mv = _merge_verdict(corpus, t, p)
        if mv:
            merges[t.fq] = (t, p, mv)
            return True
        if mv is not None and t.fq == vm.f.fq and _apply_points(vm, t, p):
            # no statement combines defaults and block, but the defaults are handed to the validated dict somewhere
            merges[t.fq] = (t, p, [])
            return True
        return False

    try:
        ob_ = bind_args(vm.options_call, vm.f)
    except Unsupported:
        ob_ = None
    if ob_ is not None and not any(names_in(e_) & _taint(entry, {"additional_options"}, None) for e_ in ob_.values()):
        rep.violation(
            "C08.R2",
            f"{entry.fq}|additional_options is forwarded to the option merge",
            entry.module.site(vm.options_call),
            f"`{short(vm.options_call, 60)}` does not pass the externally supplied additional_options to the option parser: defaults (e.g. fence attributes for fence_as_directive) are never read in parse_directive_text's call and are silently dropped",
        )
        return
    hops, why = _forward(corpus, entry, "additional_options", goal_merge)
    k = f"{entry.fq}|additional_options is forwarded to the option merge"
    if hops is None:
        if why.startswith("dropped"):
            where = entry.fq if why == "dropped" else why.split(" in ", 1)[1]
            rep.violation("C08.R2", k, entry.site(), f"the externally supplied additional_options are never read in {where.split(':')[1]}: defaults (e.g. fence attributes for fence_as_directive) are silently dropped")
        else:
            rep.error("C08.R2", f"cannot follow additional_options from parse_directive_text to a merge with the tokenized options ({why})")
        return
    for caller, call, callee, p in hops:
        rep.ok("C08.R2", f"{caller.fq}|passes additional options to {callee.qualname}({p}=)", caller.module.site(call))
        rep.saw_function(caller.fq)
        rep.saw_function(callee.fq)
        rep.saw_call(caller.module.site(call))
    for fq, (t, p, mv) in merges.items():
        for st, verdict, text in mv:
            kk = f"{t.fq}|merge of additional options with the block's options|{short(st, 70)}"
            if verdict == "ok":
                rep.ok("C08.R2", kk, t.module.site(st), text)
                # the merged dict is what the validation loop iterates
                tg = [x for tt in getattr(st, "targets", [getattr(st, "target", None)]) if tt is not None for x in target_names(tt)]
                if isinstance(st, ast.Expr):
                    recv = getattr(getattr(st.value, "func", None), "value", None)
                    tg = [recv.id] if isinstance(recv, ast.Name) else []
                if isinstance(st, ast.Assign):
                    tg += [t_.value.id for t_ in st.targets if isinstance(t_, ast.Subscript) and isinstance(t_.value, ast.Name)]
                for st2, v2, text2 in _post_merge_stores(t, st, set(tg), p):
                    k3 = f"{t.fq}|store into the merged options behind the merge keeps block options|{short(st2, 70)}"
                    if v2 == "ok":
                        rep.ok("C08.R2", k3, t.module.site(st2), text2)
                    else:
                        rep.violation("C08.R2", k3, t.module.site(st2), f"`{short(st2, 70)}`: {text2}")
                if t.fq == vm.f.fq:
                    k2 = f"{t.fq}|the validation loop iterates the merged options"
                    if vm.merged_name in _taint(t, set(tg), None):
                        rep.ok("C08.R2", k2, t.module.site(vm.loop))
                    elif any(isinstance(ctor_field(c_, vm.fields, vm.options_field), ast.Name) and ctor_field(c_, vm.fields, vm.options_field).id in _taint(t, set(tg), None) for _, c_ in vm.returns):
                        rep.ok("C08.R2", f"{t.fq}|the merged raw options are what the validate_options=False path returns|{short(st, 50)}", t.module.site(st))
                    else:
                        rep.error("C08.R2", f"the merge result {tg} is not the dict the validation loop iterates ({vm.merged_name})")
            elif verdict == "bad":
                rep.violation("C08.R2", kk, t.module.site(st), f"`{short(st, 70)}`: {text}")
            else:
                rep.error("C08.R2", text)
        # returns that can be reached with additional options present but without passing the merge:
        # tolerated when the loss is reported (a warning is returned) or the path is a documented bypass; silent loss is a violation
        cfg = get_cfg(t)
        ok_stmts = [st for st, v, _ in mv if v in ("ok", "bad")]
        # further statements that hand the defaults to the dict the validation loop iterates (e.g. `options = dict(additional_options or {})`)
        if t.fq == vm.f.fq:
            ok_stmts += [st_ for st_ in _apply_points(vm, t, p) if st_ not in ok_stmts]
        # a merge carried out key by key in a loop over the defaults: passing the loop is what applies them
        # (which keys are copied is the merge's priority rule, judged above)
        pal_ = _taint(t, alias_closure(t, p), None)
        lifted = []
        for st_ in ok_stmts:
            top = st_
            for a_ in ancestors(st_):
                if isinstance(a_, ast.For) and names_in(a_.iter) & pal_:
                    top = a_
                if isinstance(a_, (ast.FunctionDef, ast.Lambda)):
                    break
            lifted.append(top)
        ok_stmts = lifted

        def no_defaults_edge(x) -> bool:
            if not (isinstance(x, tuple) and x[0] in ("T", "F") and isinstance(x[1], (ast.If, ast.While))):
                return False
            pal = copies_of(t, p)
            for t_, pol in split_facts(x[1].test, x[0] == "T"):
                if isinstance(t_, ast.Name) and t_.id in pal and not pol:
                    return True
                if isinstance(t_, ast.Compare) and len(t_.ops) == 1 and isinstance(t_.left, ast.Name) and t_.left.id in pal and isinstance(t_.comparators[0], ast.Constant) and t_.comparators[0].value is None:
                    if (isinstance(t_.ops[0], ast.Is) and pol) or (isinstance(t_.ops[0], ast.IsNot) and not pol):
                        return True
            return False

        for n in t.local_nodes():
            if not (isinstance(n, ast.Return) and ok_stmts and cfg.paths_avoiding(ENTRY, n, lambda x: x in ok_stmts or no_defaults_edge(x))):
                continue
            kb = f"{t.fq}|additional options are applied or their loss is reported|{short(n, 60)}"
            verdict = _bypass_verdict(vm, t, n) if t.fq == vm.f.fq else ("listed", "not the options parser")
            if verdict[0] == "bad":
                rep.violation("C08.R2", kb, t.module.site(n), f"`{short(n, 60)}` can be reached with additional options supplied without passing their merge: " + verdict[1])
            else:
                rep.listed("C08.R2", kb, t.module.site(n), "additional options are not applied on this path: " + verdict[1])
    # (a'') the externally supplied mapping belongs to the caller: neither the entry nor the option parser may mutate it,
    # directly or through a plain copy of the reference (`options = additional_options`)
    for fn_, pname in [(entry, "additional_options")] + [(t, p) for _, (t, p, _) in merges.items()]:
        fcfg = get_cfg(fn_)
        direct = copies_of(fn_, pname)
        aliases: dict[str, ast.stmt] = {}
        for n_ in fn_.local_nodes():
            if isinstance(n_, ast.Assign) and len(n_.targets) == 1 and isinstance(n_.targets[0], ast.Name) and isinstance(n_.value, ast.Name) and n_.value.id in direct and n_.targets[0].id not in direct and not getattr(n_, "_c08_glue", False):
                aliases[n_.targets[0].id] = n_
        found = []
        for n_ in fn_.local_nodes():
            recv = None
            if isinstance(n_, ast.Call) and isinstance(n_.func, ast.Attribute) and isinstance(n_.func.value, ast.Name) and n_.func.attr in MUTATORS + ("pop", "popitem", "clear", "remove", "sort", "reverse"):
                recv = n_.func.value.id
            elif isinstance(n_, ast.Subscript) and isinstance(n_.ctx, (ast.Store, ast.Del)) and isinstance(n_.value, ast.Name):
                recv = n_.value.id
            elif isinstance(n_, ast.AugAssign) and isinstance(n_.target, ast.Name) and isinstance(n_.op, ast.BitOr):
                recv = n_.target.id
            if recv is None:
                continue
            if recv in direct:
                found.append((n_, f"`{short(n_, 50)}` changes the caller's `{pname}` mapping in place"))
            elif recv in aliases and fcfg.stmt_of(n_) in fcfg.reachable_from(aliases[recv]):
                found.append((n_, f"`{short(n_, 50)}` changes `{recv}`, which `{short(aliases[recv], 40)}` made another name for the caller's `{pname}` mapping"))
        kmut = f"{fn_.fq}|the externally supplied options mapping is only read"
        if found:
            for n_, txt in found:
                rep.violation(
                    "C08.R2",
                    kmut + f"|{short(n_, 50)}",
                    fn_.module.site(n_),
                    txt + ": options written in one directive's block leak into the defaults the caller applies to the next directive (they then override those defaults and are reported / converted again), "
                    "so the same (class, first line, content, defaults) no longer gives the same result",
                )
        else:
            rep.ok("C08.R2", kmut, fn_.site())
    # (a') in parse_directive_text itself: on the path that skips the option parser (no option_spec) the defaults cannot be
    # applied; they must then be reported (a warning appended under a test that they are present)
    ecfg = get_cfg(entry)
    ocall_st = ecfg.stmt_of(vm.options_call)
    eres = ctor_returns(corpus, entry, "DirectiveParsingResult")
    efields = dataclass_fields(corpus, corpus.cls(f"{MOD}:DirectiveParsingResult"))
    if "warnings" in efields and eres:
        pal_e = copies_of(entry, "additional_options")

        def defaults_absent_edge(x) -> bool:
            if not (isinstance(x, tuple) and x[0] in ("T", "F") and isinstance(x[1], (ast.If, ast.While))):
                return False
            for t_, pol in split_facts(x[1].test, x[0] == "T"):
                if isinstance(t_, ast.Name) and t_.id in pal_e and not pol:
                    return True
                if isinstance(t_, ast.Compare) and len(t_.ops) == 1 and isinstance(t_.left, ast.Name) and t_.left.id in pal_e and isinstance(t_.comparators[0], ast.Constant) and t_.comparators[0].value is None:
                    if (isinstance(t_.ops[0], ast.Is) and pol) or (isinstance(t_.ops[0], ast.IsNot) and not pol):
                        return True
            return False

        for eret, ector in eres:
            w_e = ctor_field(ector, efields, "warnings")
            k = f"{entry.fq}|additional options are handed to the option parser or their loss is reported"
            if not isinstance(w_e, ast.Name):
                rep.error("C08.R2", "parse_directive_text: the returned warnings are not a local list")
                continue
            ws_e = alias_closure(entry, w_e.id)

            def reports(x) -> bool:
                if not isinstance(x, ast.stmt) or not _stmt_calls(x, lambda c: any(_is_call_on(c, w_, ("append", "extend", "insert")) for w_ in ws_e)):
                    return False
                return any(pol and isinstance(t_, ast.Name) and t_.id in pal_e for t_, pol in ecfg.guards(x)) or any(names_in(r_) & pal_e for r_ in _header_roots(x))

            if ecfg.paths_avoiding(ENTRY, eret, lambda x: x is ocall_st or defaults_absent_edge(x) or reports(x)):
                rep.violation(
                    "C08.R2",
                    k,
                    entry.module.site(eret),
                    "some path through parse_directive_text neither calls the option parser nor appends a warning about the additional options although they may be present: "
                    "for a directive without an option_spec (epigraph, ...) the attributes of a fence rendered as a directive ({#id .cls}) vanish silently",
                )
            else:
                rep.ok("C08.R2", k, entry.module.site(ocall_st))
    # (b) the fence_as_directive mechanism: token attributes -> parse_directive_text(additional_options=)
    base = corpus.mod("mdit_to_docutils.base")
    rf = base.func("DocutilsRenderer.render_fence")
    cfg = get_cfg(rf)
    g = get_callgraph(corpus)

    def from_attrs(e: ast.AST, fi: FunctionInfo, depth: int = 0) -> bool:
        """Is the value built from ``<token>.attrs`` (directly, through a local, or by a package helper that returns such a value)?"""
        if depth > 3:
            return False
        for x in ast.walk(e):
            if isinstance(x, ast.Attribute) and x.attr == "attrs":
                return True
            if isinstance(x, ast.Name) and any(v is not None and v is not e and from_attrs(v, fi, depth + 1) for _, v in simple_defs(fi, x.id)):
                return True
            if isinstance(x, ast.Call):
                for t_ in g.resolve_call(x, fi):
                    if isinstance(t_, FunctionInfo) and not t_.is_lambda and any(isinstance(r_, ast.Return) and r_.value is not None and from_attrs(r_.value, t_, depth + 1) for r_ in t_.local_nodes()):
                        return True
        return False

    goal_api = lambda t, p: t.fq == entry.fq and p == "additional_options"
    starts = []
    for n in rf.local_nodes():
        if not isinstance(n, ast.Call) or not isinstance(n.func, ast.Attribute):
            continue
        st = cfg.stmt_of(n)
        gs = cfg.guards(st)
        if not any(pol and any(isinstance(x, ast.Attribute) and x.attr == "fence_as_directive" for x in ast.walk(t_)) for t_, pol in gs):
            continue
        for t_ in g.resolve_call(n, rf):
            if not isinstance(t_, FunctionInfo) or t_.is_lambda:
                continue
            try:
                bound = bind_args(n, t_)
            except Unsupported:
                continue
            for p_, e in bound.items():
                if from_attrs(e, rf) and not any(c_ is n and q_ == p_ for c_, _, q_ in starts):
                    starts.append((n, t_, p_))
    if not starts:
        rep.error("C08.R2", "render_fence: no call under the fence_as_directive guard passes a value built from token.attrs")
        return
    for call, callee, p_ in starts:
        if goal_api(callee, p_):
            hops, why = [], ""
        else:
            hops, why = _forward(corpus, callee, p_, goal_api)
        if hops is not None:
            hops = [(rf, call, callee, p_)] + hops
        elif why == "dropped":
            why = f"dropped in {callee.fq}"
        k = f"{rf.fq}|fence attributes reach parse_directive_text(additional_options=)"
        if hops is None:
            if why.startswith("dropped"):
                rep.violation("C08.R2", k, rf.module.site(call), f"the options built from the fence's attributes are {why} on the way to parse_directive_text: fence_as_directive attributes are silently ignored")
            else:
                rep.error("C08.R2", f"cannot follow the fence attributes from render_fence to parse_directive_text ({why})")
            continue
        for caller, c, callee, p in hops:
            rep.ok("C08.R2", f"{caller.fq}|passes additional options to {callee.qualname}({p}=)", caller.module.site(c))
            rep.saw_function(caller.fq)
            rep.saw_call(caller.module.site(c))
    rep.expect_min("C08.R2", 5, "one merge + loop link + forwarding hops render_fence -> render_directive -> run_directive -> parse_directive_text -> _parse_directive_options")


# ---------------------------------------------------------------------------
# R3 argument-count orderings (linear normal forms)

ATOMS = {"required_arguments": "REQ", "optional_arguments": "OPT"}
FAW = "final_argument_whitespace"


class ArgForms:
    """Linear forms over {N, REQ, OPT, 1} for integer expressions of one function."""

    def __init__(self, fi: FunctionInfo):
        self.fi = fi
        # the text parameter and the names holding its whitespace split
        self.split_names: dict[str, list[ast.Call]] = {}
        for n in fi.local_nodes():
            if isinstance(n, ast.Assign) and len(n.targets) == 1 and isinstance(n.targets[0], ast.Name) and self.is_split(n.value):
                self.split_names.setdefault(n.targets[0].id, []).append(n.value)

    def is_split(self, e: ast.AST) -> bool:
        return isinstance(e, ast.Call) and isinstance(e.func, ast.Attribute) and e.func.attr == "split" and isinstance(e.func.value, ast.Name) and e.func.value.id in self.fi.params

    def lin(self, e: ast.expr, depth: int = 0) -> dict:
        if depth > 6:
            raise Unsupported("expression too deep")
        if isinstance(e, ast.Constant) and isinstance(e.value, int) and not isinstance(e.value, bool):
            return {"1": e.value}
        if isinstance(e, ast.Attribute) and e.attr in ATOMS:
            return {ATOMS[e.attr]: 1}
        if isinstance(e, ast.Name):
            v = single_value(self.fi, e.id)
            if v is None:
                raise Unsupported(f"cannot resolve {e.id}")
            return self.lin(v, depth + 1)
        if isinstance(e, ast.BinOp) and isinstance(e.op, (ast.Add, ast.Sub)):
            a, b = self.lin(e.left, depth + 1), self.lin(e.right, depth + 1)
            sign = 1 if isinstance(e.op, ast.Add) else -1
            out = dict(a)
            for k_, v_ in b.items():
                out[k_] = out.get(k_, 0) + sign * v_
            return {k_: v_ for k_, v_ in out.items() if v_}
        if isinstance(e, ast.Call) and dotted(e.func) == "len" and len(e.args) == 1:
            x = e.args[0]
            # a local all of whose bindings are splits of the argument text
            if isinstance(x, ast.Name) and x.id in self.split_names and len(simple_defs(self.fi, x.id)) == len(self.split_names[x.id]):
                return {"N": 1}
            if self.is_split(x) and not x.args and not x.keywords:
                return {"N": 1}
        raise Unsupported(f"not a linear count expression: {short(e, 40)}")

    def fact(self, test: ast.expr, pol: bool):
        """('lin', form) meaning form >= 0 | ('faw', pol) | ('unknown', text)."""
        if is_attr_of(test, FAW, self.fi):
            return ("faw", pol)
        if isinstance(test, ast.Compare) and len(test.ops) == 1 and isinstance(test.ops[0], (ast.Lt, ast.LtE, ast.Gt, ast.GtE)):
            try:
                a, b = self.lin(test.left), self.lin(test.comparators[0])
            except Unsupported:
                return ("unknown", unparse(test))
            op = test.ops[0]
            if isinstance(op, (ast.Lt, ast.LtE)):
                a, b = b, a  # now a > b / a >= b
            form = dict(a)
            for k_, v_ in b.items():
                form[k_] = form.get(k_, 0) - v_
            if isinstance(op, (ast.Lt, ast.Gt)):
                form["1"] = form.get("1", 0) - 1
            if not pol:  # not (L >= 0)  <=>  -L - 1 >= 0
                form = {k_: -v_ for k_, v_ in form.items()}
                form["1"] = form.get("1", 0) - 1
            return ("lin", {k_: v_ for k_, v_ in form.items() if v_})
        return ("unknown", ("" if pol else "not ") + unparse(test))


TOO_FEW = {"REQ": 1, "N": -1, "1": -1}  # N <= REQ - 1
TOO_MANY = {"N": 1, "REQ": -1, "OPT": -1, "1": -1}  # N >= REQ + OPT + 1
MAXSPLIT = {"REQ": 1, "OPT": 1, "1": -1}


def _fmt(form: dict) -> str:
    parts = []
    for k_ in ("N", "REQ", "OPT", "1"):
        v = form.get(k_, 0)
        if v:
            parts.append(f"{v:+d}" + ("" if k_ == "1" else f"*{k_}"))
    return " ".join(parts) + " >= 0"


def _implied(weaker: dict, exact: dict) -> bool:
    """weaker = exact + (non-negative combination of REQ, OPT, 1)."""
    diff = dict(weaker)
    for k_, v_ in exact.items():
        diff[k_] = diff.get(k_, 0) - v_
    return diff.get("N", 0) == 0 and all(v_ >= 0 for v_ in diff.values())


def _establishes_no_args(test: ast.expr, pol: bool, cls_name: str) -> bool:
    """Does ``test == pol`` imply that required_arguments and optional_arguments are both falsy?
    Decided by a truth table over the leaves of the boolean structure; a leaf that mentions the
    attributes in any other way than `<cls>.attr`, `<cls>.attr ==/!=/>/< 0|1` is Unsupported."""
    leaves: list[str] = []

    def leaf_id(s: str) -> int:
        if s not in leaves:
            leaves.append(s)
        return leaves.index(s)

    def build(e: ast.expr):
        if isinstance(e, ast.UnaryOp) and isinstance(e.op, ast.Not):
            a = build(e.operand)
            return lambda env: not a(env)
        if isinstance(e, ast.BoolOp):
            parts = [build(v) for v in e.values]
            if isinstance(e.op, ast.And):
                return lambda env: all(p(env) for p in parts)
            return lambda env: any(p(env) for p in parts)
        if isinstance(e, ast.Attribute) and e.attr in ATOMS and isinstance(e.value, ast.Name) and e.value.id == cls_name:
            i = leaf_id(ATOMS[e.attr])
            return lambda env: env[i]
        if isinstance(e, ast.Compare) and len(e.ops) == 1 and isinstance(e.left, ast.Attribute) and e.left.attr in ATOMS and isinstance(e.left.value, ast.Name) and e.left.value.id == cls_name and isinstance(e.comparators[0], ast.Constant):
            c, op = e.comparators[0].value, e.ops[0]
            i = leaf_id(ATOMS[e.left.attr])
            if (c == 0 and isinstance(op, (ast.NotEq, ast.Gt))) or (c == 1 and isinstance(op, ast.GtE)):
                return lambda env: env[i]
            if (c == 0 and isinstance(op, (ast.Eq, ast.LtE))) or (c == 1 and isinstance(op, ast.Lt)):
                return lambda env: not env[i]
        if any(isinstance(x, ast.Attribute) and x.attr in ATOMS for x in ast.walk(e)):
            raise Unsupported(f"test on the declared argument counts outside the boolean subset: {short(e, 60)}")
        i = leaf_id(unparse(e))
        return lambda env: env[i]

    fn = build(test)
    if len(leaves) > 8:
        raise Unsupported("too many conditions in one test")
    if "REQ" not in leaves or "OPT" not in leaves:
        return False
    ri, oi = leaves.index("REQ"), leaves.index("OPT")
    sat = False
    for bits in range(1 << len(leaves)):
        env = [bool(bits >> j & 1) for j in range(len(leaves))]
        if bool(fn(env)) == pol:
            sat = True
            if env[ri] or env[oi]:
                return False
    return sat


@rule("C08.R3")
def r3_argument_counts(corpus: Corpus, rep: Report, tier: str):
    rep.rule("C08.R3", "too few: len < required -> MarkupError; too many: len > required+optional -> re-split(maxsplit=required+optional-1) iff final_argument_whitespace else MarkupError; enforcement is reached for every directive that declares arguments")
    corpus = inlined(corpus)
    m = corpus.mod(MOD)
    f = m.func("parse_directive_arguments")
    cfg = get_cfg(f)
    af = ArgForms(f)
    rep.saw_function(f.fq)
    rep.saw_function(ENTRY_FQ if ENTRY_FQ.startswith("myst_parser.") else "myst_parser." + ENTRY_FQ)
    if not af.split_names:
        raise Unsupported("parse_directive_arguments: no whitespace split of the argument text bound to a local")
    n_few = n_many = n_resplit = 0

    def classify(st):
        small, large, faw, unknown = [], [], [], []
        for t, pol in cfg.guards(st):
            kind, val = af.fact(t, pol)
            if kind == "faw":
                faw.append(val)
            elif kind == "lin":
                c = val.get("N", 0)
                if c == -1:
                    small.append(val)
                elif c == 1:
                    large.append(val)
                else:
                    unknown.append(_fmt(val))
            else:
                unknown.append(val)
        return small, large, faw, unknown

    for st in f.local_nodes():
        if isinstance(st, ast.Raise) and st.exc is not None:
            d = dotted(st.exc.func) if isinstance(st.exc, ast.Call) else dotted(st.exc)
            if not m.resolve(d or "").endswith("MarkupError"):
                continue
            small, large, faw, unknown = classify(st)
            site = m.site(st)
            if unknown:
                rep.error("C08.R3", f"{site}: MarkupError raise guarded by a condition outside the linear subset: {unknown[0]}")
                continue
            if small and not large:
                n_few += 1
                k = f"{f.fq}|MarkupError when fewer arguments than required"
                if TOO_FEW in small and all(_implied(x, TOO_FEW) for x in small) and not faw:
                    rep.ok("C08.R3", k, site, _fmt(TOO_FEW))
                else:
                    rep.violation("C08.R3", k, site, f"the too-few-arguments error is raised under {[_fmt(x) for x in small]}{' and a final_argument_whitespace test' if faw else ''}; required is exactly len(arguments) < required_arguments, i.e. {_fmt(TOO_FEW)}")
            elif large and not small:
                n_many += 1
                k = f"{f.fq}|MarkupError when more arguments than required+optional"
                if TOO_MANY in large and all(_implied(x, TOO_MANY) for x in large) and faw == [False]:
                    rep.ok("C08.R3", k, site, _fmt(TOO_MANY) + " and not final_argument_whitespace")
                else:
                    rep.violation("C08.R3", k, site, f"the too-many-arguments error is raised under {[_fmt(x) for x in large]} with final_argument_whitespace {faw or 'untested'}; required is len(arguments) > required+optional ({_fmt(TOO_MANY)}) and final_argument_whitespace false")
            else:
                rep.error("C08.R3", f"{site}: MarkupError raise whose guards mix or lack argument-count bounds")
    # the re-split
    rets = [n for n in f.local_nodes() if isinstance(n, ast.Return)]
    ret_names = {n.value.id for n in rets if isinstance(n.value, ast.Name)}
    if len(rets) == 0 or len(ret_names) != 1 or any(not isinstance(n.value, ast.Name) for n in rets):
        rep.error("C08.R3", "parse_directive_arguments does not return one local on every path")
        return
    rv = ret_names.pop()
    if rv not in af.split_names:
        rep.error("C08.R3", f"the returned local {rv} is not a split of the argument text")
        return
    text_params = {c.func.value.id for c in af.split_names[rv]}
    if len(text_params) != 1:
        rep.violation("C08.R3", f"{f.fq}|arguments are split from one text", f.site(), f"the returned arguments are split from different parameters {sorted(text_params)}")
    for c in af.split_names[rv]:
        ms = None
        sep = c.args[0] if c.args else None
        if len(c.args) > 1:
            ms = c.args[1]
        for kw in c.keywords:
            if kw.arg == "maxsplit":
                ms = kw.value
            elif kw.arg == "sep":
                sep = kw.value
        if sep is not None and not (isinstance(sep, ast.Constant) and sep.value is None):
            rep.error("C08.R3", f"{m.site(c)}: split with an explicit separator")
            continue
        st = _stmt(c)
        site = m.site(c)
        if ms is None:
            small, large, faw, unknown = classify(st)
            if small or large or faw or unknown:
                rep.error("C08.R3", f"{site}: the initial whitespace split is conditional")
            continue
        n_resplit += 1
        k = f"{f.fq}|re-split keeps whitespace in the final argument"
        small, large, faw, unknown = classify(st)
        if unknown:
            rep.error("C08.R3", f"{site}: re-split guarded by a condition outside the linear subset: {unknown[0]}")
            continue
        try:
            msf = af.lin(ms)
        except Unsupported as e:
            rep.error("C08.R3", f"{site}: maxsplit not understood: {e}")
            continue
        problems = []
        if msf != MAXSPLIT:
            problems.append(f"maxsplit is {_fmt(msf)[:-5]}, required is required+optional-1 (so that exactly required+optional arguments result)")
        if not (TOO_MANY in large and all(_implied(x, TOO_MANY) for x in large)) or small:
            problems.append(f"re-split happens under {[_fmt(x) for x in large + small]}, required is len(arguments) > required+optional")
        if faw != [True]:
            problems.append(f"re-split happens with final_argument_whitespace {faw or 'untested'}, required is true")
        if problems:
            rep.violation("C08.R3", k, site, "; ".join(problems))
        else:
            rep.ok("C08.R3", k, site, "maxsplit = required+optional-1 under len > required+optional and final_argument_whitespace")
    if not (n_few and n_many and n_resplit):
        rep.error("C08.R3", f"parse_directive_arguments shape not understood (too-few raises {n_few}, too-many raises {n_many}, re-splits {n_resplit})")
    # enforcement is reached from parse_directive_text
    g = get_callgraph(corpus)
    entry = corpus.func(ENTRY_FQ)
    ecfg = get_cfg(entry)
    calls = [c for c, ts in g.callees(entry) if any(isinstance(t, FunctionInfo) and t.fq == f.fq for t in ts)]
    if len(calls) != 1:
        rep.error("C08.R3", f"expected one call of parse_directive_arguments in parse_directive_text, found {len(calls)}")
        return
    call = calls[0]
    bound = bind_args(call, f)
    cls_p, text_p = f.params[0], f.params[1]
    eparams = entry.params
    k = f"{entry.fq}|parse_directive_arguments receives (directive class, first line)"
    a0, a1 = bound.get(cls_p), bound.get(text_p)
    if isinstance(a0, ast.Name) and isinstance(a1, ast.Name) and a0.id in eparams and a1.id in eparams:
        if a0.id == eparams[0] and a1.id == eparams[1]:
            rep.ok("C08.R3", k, entry.module.site(call))
        else:
            rep.violation("C08.R3", k, entry.module.site(call), f"parse_directive_arguments is called with ({a0.id}, {a1.id}); required is the directive class and the first line ({eparams[0]}, {eparams[1]})")
    else:
        rep.error("C08.R3", "arguments of the parse_directive_arguments call are not plain parameters")
    cls_name = eparams[0]
    call_stmt = ecfg.stmt_of(call)

    def no_args_edge(n) -> bool:
        if not (isinstance(n, tuple) and n[0] in ("T", "F") and isinstance(n[1], ast.If)):
            return False
        return _establishes_no_args(n[1].test, n[0] == "T", cls_name)

    for n in entry.local_nodes():
        if isinstance(n, (ast.If, ast.While, ast.IfExp)) and any(isinstance(x, ast.Attribute) and x.attr in ATOMS for x in ast.walk(n.test)):
            _establishes_no_args(n.test, True, cls_name)  # Unsupported (-> ANALYSIS-ERROR) if the test is outside the boolean subset

    k = f"{entry.fq}|argument counts are enforced unless the directive declares no arguments"
    erets = [n for n in entry.local_nodes() if isinstance(n, ast.Return)]
    bad = [r for r in erets if ecfg.paths_avoiding(ENTRY, r, lambda n: n is call_stmt or no_args_edge(n))]
    if bad:
        rep.violation("C08.R3", k, entry.module.site(bad[0]), "some path returns a result without calling parse_directive_arguments although it is not guarded by `not required_arguments and not optional_arguments`: a directive that declares arguments gets none / no count check")
    else:
        rep.ok("C08.R3", k, entry.module.site(call))
    # the parsed arguments reach the result
    res = ctor_returns(corpus, entry, "DirectiveParsingResult")
    fields = dataclass_fields(corpus, corpus.cls(f"{MOD}:DirectiveParsingResult"))
    tgt = [x for t in getattr(call_stmt, "targets", []) for x in target_names(t)]
    for r, c in res:
        a = ctor_field(c, fields, "arguments")
        k = f"{entry.fq}|result.arguments is the value parse_directive_arguments returned"
        if isinstance(a, ast.Name) and a.id in tgt:
            rep.ok("C08.R3", k, entry.module.site(r))
        else:
            rep.error("C08.R3", f"result.arguments ({short(a, 30) if a is not None else None}) is not the local bound to the parse_directive_arguments call")
    rep.expect_min("C08.R3", 6, "two raises, one re-split, call roles, enforcement reached, result field")


# ---------------------------------------------------------------------------
# R4 one validation path for both option styles


def _regex_call(c: ast.AST, f: FunctionInfo) -> tuple[str, ast.expr | None, str] | None:
    """(pattern, subject, method) of a regex match call in any spelling: ``re.match(P, s)``, ``re.compile(P).match(s)``,
    ``CONST.match(s)`` with CONST a module constant or single-binding local bound to ``re.compile(P[, flags])``."""
    if not isinstance(c, ast.Call):
        return None
    m_ = f.module
    d = m_.resolve(dotted(c.func) or "")
    if d in ("re.match", "re.fullmatch", "re.search") and len(c.args) >= 2 and isinstance(c.args[0], ast.Constant) and isinstance(c.args[0].value, str):
        return c.args[0].value, c.args[1], d.rsplit(".", 1)[1]
    if isinstance(c.func, ast.Attribute) and c.func.attr in ("match", "fullmatch", "search") and c.args:
        recv = c.func.value
        comp = None
        if isinstance(recv, ast.Call):
            comp = recv
        elif isinstance(recv, ast.Name):
            comp = single_value(f, recv.id) if recv.id not in m_.const_nodes or simple_defs(f, recv.id) else m_.const_nodes.get(recv.id)
        if isinstance(comp, ast.Call) and m_.resolve(dotted(comp.func) or "") == "re.compile" and comp.args and isinstance(comp.args[0], ast.Constant) and isinstance(comp.args[0].value, str):
            return comp.args[0].value, c.args[0], c.func.attr
    return None


def _regex_leading_blank_is_wide(pattern: str) -> bool:
    """Does the pattern start (after anchors) with an optional white-space item that can match more than space/tab?"""
    import re._constants as C
    import re._parser as P

    try:
        items = list(P.parse(pattern).data)
    except Exception:
        return False
    for op, av in items:
        if op is C.AT:
            continue
        if op in (C.MAX_REPEAT, C.MIN_REPEAT) and len(av[2]) == 1:
            sop, sav = av[2][0]
            if sop is C.IN:
                return any(o is C.CATEGORY for o, a in sav) or any(o is C.LITERAL and chr(a) not in " \t" for o, a in sav if o is C.LITERAL) and any(o is C.LITERAL and chr(a).isspace() and chr(a) not in " \t" for o, a in sav)
            if sop is C.LITERAL:
                return chr(sav).isspace() and chr(sav) not in " \t"
        return False
    return False


def _regex_first_char_style(pattern: str) -> str | None:
    """':' or '---' when every match of the (start-anchored) pattern begins, after optional blanks, with that style's marker."""
    import re._constants as C
    import re._parser as P

    try:
        items = list(P.parse(pattern).data)
    except Exception:
        return None

    def blank_set(av) -> bool:
        return all((op is C.LITERAL and chr(a).isspace()) or (op is C.CATEGORY and a is C.CATEGORY_SPACE) for op, a in av)

    i = 0
    while i < len(items):
        op, av = items[i]
        if op in (C.MAX_REPEAT, C.MIN_REPEAT) and av[0] == 0 and len(av[2]) == 1:
            sop, sav = av[2][0]
            if (sop is C.IN and blank_set(sav)) or (sop is C.LITERAL and chr(sav).isspace()):
                i += 1
                continue
        if op is C.AT:
            i += 1
            continue
        break
    if i >= len(items):
        return None
    op, av = items[i]
    if op is C.LITERAL and chr(av) == ":":
        return ":"
    if op is C.LITERAL and chr(av) == "-":
        return "---" if pattern.count("-") >= 3 or "{3" in pattern else None
    if op in (C.MAX_REPEAT, C.MIN_REPEAT) and av[0] >= 3 and len(av[2]) == 1 and av[2][0][0] is C.LITERAL and chr(av[2][0][1]) == "-":
        return "---"
    return None


def assigns_name(f: FunctionInfo, name: str):
    return lambda n: isinstance(n, ast.stmt) and any(s_ is n for s_, _ in simple_defs(f, name))


def _is_call_on(n: ast.AST, recv: str, attrs: tuple[str, ...]) -> bool:
    return isinstance(n, ast.Call) and isinstance(n.func, ast.Attribute) and n.func.attr in attrs and isinstance(n.func.value, ast.Name) and n.func.value.id == recv


def _header_roots(st) -> list[ast.AST]:
    """The part of a CFG statement that executes at the node itself (header only for compound statements)."""
    if not isinstance(st, ast.stmt):
        return []
    if isinstance(st, (ast.If, ast.While)):
        return [st.test]
    if isinstance(st, ast.For):
        return [st.iter]
    if isinstance(st, ast.With):
        return [i.context_expr for i in st.items]
    if isinstance(st, (ast.Try, ast.FunctionDef, ast.AsyncFunctionDef, ast.ClassDef)):
        return []
    return [st]


def _stmt_calls(st, pred) -> bool:
    return any(pred(n) for r in _header_roots(st) for n in ast.walk(r))


@rule("C08.R4")
def r4_one_validation_path(corpus: Corpus, rep: Report, tier: str):
    rep.rule("C08.R4", "both option styles only produce block text + remaining content; tokenise/lookup/convert/store/warn happen once behind their join; failure paths store nothing and report once, success stores once")
    vm = validation_machinery(corpus)
    corpus = vm.corpus
    f, cfg, m = vm.f, vm.cfg, vm.f.module
    loop = vm.loop
    rep.saw_function(f.fq)
    # ---- style branches
    styles: dict[str, ast.If] = {}
    for n in f.local_nodes():
        if isinstance(n, ast.If):
            test_nodes = list(ast.walk(n.test))
            for x_ in list(test_nodes):
                if isinstance(x_, ast.Name):
                    v_ = single_value(f, x_.id)
                    if v_ is not None:
                        test_nodes += list(ast.walk(v_))  # the test (or its regex match) hoisted into a local
            for c in test_nodes:
                sty_ = None
                subject = None
                if isinstance(c, ast.Call) and isinstance(c.func, ast.Attribute) and c.func.attr == "startswith" and len(c.args) == 1 and isinstance(c.args[0], ast.Constant) and c.args[0].value in ("---", ":"):
                    sty_, subject = c.args[0].value, c.func.value
                elif _regex_call(c, f) is not None and _regex_call(c, f)[2] in ("match", "fullmatch"):
                    # a regex anchored at the start of the content: the style is its first mandatory character
                    sty_, subject = _regex_first_char_style(_regex_call(c, f)[0]), _regex_call(c, f)[1]
                if sty_ is not None:
                    c = ast.Call(func=ast.Attribute(value=subject, attr="startswith", ctx=ast.Load()), args=[ast.Constant(value=sty_)], keywords=[])
                    roots = [x for x in ast.walk(subject) if isinstance(x, ast.Name)]

                    def from_params(nm: str, depth: int = 0) -> bool:
                        # a parameter, or a local bound once to an expression over parameters (hoisted `content.lstrip()`)
                        if nm in f.params:
                            return True
                        if depth > 3:
                            return False
                        defs_ = [v_ for _, v_ in simple_defs(f, nm)]
                        # a copy of a parameter (binding introduced by inlining a helper), possibly re-assigned later
                        if any(isinstance(v_, ast.Name) and v_.id != nm and from_params(v_.id, depth + 1) for v_ in defs_):
                            return True
                        v = single_value(f, nm)
                        return v is not None and bool(names_in(v)) and all(from_params(x, depth + 1) for x in names_in(v))

                    if sty_ is not None and roots and all(from_params(x.id) for x in roots) and not cfg.loops.get(n):
                        if c.args[0].value in styles and styles[c.args[0].value] is not n:
                            raise Unsupported(f"several branches test startswith({c.args[0].value!r})")
                        styles[c.args[0].value] = n
    if set(styles) != {"---", ":"}:
        rep.error("C08.R4", f"expected one branch per option style (startswith '---' / ':') on the content parameter, found {sorted(styles)}")
        return
    toks = _tokenizer_calls(corpus, f)
    if len(toks) != 1:
        rep.error("C08.R4", f"expected exactly one call of options_to_items in {f.qualname}, found {len(toks)}")
        return
    tok = toks[0]
    if not (len(tok.args) == 1 and isinstance(tok.args[0], ast.Name)):
        rep.error("C08.R4", "the tokenizer argument is not a local name")
        return
    V = tok.args[0].id
    VS = alias_closure(f, V)
    tok_stmt = cfg.stmt_of(tok)
    # the style branches are mutually exclusive: at most one of them consumes (part of) the content
    for s1, s2 in (("---", ":"), (":", "---")):
        i1, i2 = styles[s1], styles[s2]
        k = f"{f.fq}|style {s2!r} branch cannot run after the {s1!r} branch"
        if ("T", i2) not in cfg.reachable_from(("T", i1)):
            rep.ok("C08.R4", k, m.site(i2))
            continue
        # reachable in the graph: only harmless when the second test requires that no block was found yet
        needs_unset = False
        for t_, pol in split_facts(i2.test, True):
            if pol and isinstance(t_, ast.Compare) and len(t_.ops) == 1 and isinstance(t_.ops[0], ast.Is) and isinstance(t_.left, ast.Name) and t_.left.id in VS and isinstance(t_.comparators[0], ast.Constant) and t_.comparators[0].value is None:
                needs_unset = True
            if not pol and isinstance(t_, ast.Name) and t_.id in VS:
                needs_unset = True
        if needs_unset and not cfg.paths_avoiding(("T", i1), i2, real_assign(f, VS)):
            rep.ok("C08.R4", k, m.site(i2), f"guarded by `{V}` being unset, which the {s1!r} branch always sets")
        else:
            rep.violation(
                "C08.R4",
                k,
                m.site(i2),
                f"the {s2!r}-style test is evaluated again after the {s1!r} branch has consumed its block (the two tests are not exclusive): when the remaining body starts like a {s2!r} block "
                f"the second branch overwrites `{V}`, so every option of the {s1!r} block is silently dropped and body lines are swallowed as options",
            )
    # the remaining-content field: the returned local that the style branches re-assign
    so = StrOrigin(corpus)
    cc = {
        fld: nm
        for fld, nm in vm.content_candidates.items()
        if any(isinstance(s_, ast.stmt) and any(cfg.dominates(("T", i), s_) for i in styles.values()) for al in alias_closure(f, nm) for s_, _ in simple_defs(f, al))
        and any(t.startswith(("joined@", "param:", "terminated-lines@")) for t in so.string(ast.Name(id=nm, ctx=ast.Load()), f))
    }
    if len(cc) != 1:
        rep.error("C08.R4", f"cannot identify the remaining-content field of {vm.result_cls.name}: {vm.content_candidates}")
        return
    content_field, C = next(iter(cc.items()))
    CS = alias_closure(f, C)
    final_ret = vm.final_returns[0][0]

    def assigns(name):
        return lambda n: isinstance(n, ast.stmt) and any(s is n for s, _ in simple_defs(f, name))

    edge_nodes = [(p, i) for i in styles.values() for p in ("T", "F")]
    for sty, iff in sorted(styles.items()):
        t_edge = ("T", iff)
        site = m.site(iff)
        k = f"{f.fq}|style {sty!r} branch produces the option-block text"
        if cfg.paths_avoiding(t_edge, tok_stmt, real_assign(f, VS)):
            rep.violation("C08.R4", k, site, f"a path through the {sty!r} branch reaches the tokenizer without assigning its input `{V}`: options written in this style are not parsed")
        else:
            rep.ok("C08.R4", k, site)
        k = f"{f.fq}|style {sty!r} branch removes the option lines from the content"
        if any(cfg.paths_avoiding(t_edge, r_, real_assign(f, CS)) for r_, _ in vm.returns if r_ in cfg.reachable_from(t_edge)):
            rep.violation("C08.R4", k, site, f"a path through the {sty!r} branch reaches the result without re-assigning the remaining content `{C}`: the option lines leak into the body")
        else:
            rep.ok("C08.R4", k, site)
    # ---- both styles hand the tokenizer equally terminated text: every line ends in a line feed, or none of the
    # last lines does - a separator join (`"\n".join`) in one branch and a terminated join in the other makes the value of a
    # trailing block scalar (`:alt: |`) depend on the style
    def join_kind(c_: ast.AST) -> str | None:
        if isinstance(c_, ast.Call) and isinstance(c_.func, ast.Attribute) and c_.func.attr == "join" and isinstance(c_.func.value, ast.Constant) and isinstance(c_.func.value.value, str):
            sep = c_.func.value.value
            if "\n" in sep:
                return "separated"
            if sep == "" and len(c_.args) == 1 and isinstance(c_.args[0], (ast.GeneratorExp, ast.ListComp)) and isinstance(c_.args[0].elt, ast.BinOp) and isinstance(c_.args[0].elt.op, ast.Add) and isinstance(c_.args[0].elt.right, ast.Constant) and c_.args[0].elt.right.value == "\n":
                return "terminated"
        return None

    block_kinds: dict[str, set[str]] = {}
    for sty, iff in styles.items():
        branch = [st for st in cfg.nodes if isinstance(st, (ast.Assign, ast.AnnAssign, ast.AugAssign)) and cfg.dominates(("T", iff), st)]
        names = set(VS)
        kinds: set[str] = set()
        grew = True
        seen_st: set = set()
        while grew:
            grew = False
            for st in branch:
                if st in seen_st or getattr(st, "value", None) is None:
                    continue
                tg = [x for t_ in (st.targets if isinstance(st, ast.Assign) else [st.target]) for x in target_names(t_)]
                if not (set(tg) & names):
                    continue
                seen_st.add(st)
                grew = True
                for c_ in ast.walk(st.value):
                    jk = join_kind(c_)
                    if jk:
                        kinds.add(jk)
                names |= names_in(st.value)
        block_kinds[sty] = kinds
    k = f"{f.fq}|both option styles terminate the lines of the block text alike"
    if all(len(v_) == 1 for v_ in block_kinds.values()):
        ks = {next(iter(v_)) for v_ in block_kinds.values()}
        if len(ks) == 1:
            rep.ok("C08.R4", k, m.site(styles[":"]), f"both {next(iter(ks))}")
        else:
            sep_sty = [s_ for s_, v_ in block_kinds.items() if v_ == {"separated"}][0]
            rep.violation(
                "C08.R4",
                k,
                m.site(styles[sep_sty]),
                f"the {sep_sty!r} style builds the text for the option tokenizer with a separator join (last line without a line feed) while the other style terminates every line: "
                "a block scalar written as the last option (`:alt: |` + continuation lines) loses its final line break in one style only, so the two styles are not interchangeable",
            )
    else:
        rep.listed("C08.R4", k, m.site(styles[":"]), f"join kinds per style not comparable: { {s_: sorted(v_) for s_, v_ in block_kinds.items()} }")
    # ---- the opening '---' delimiter is a whole line, like the closing one: `--- a/file` (a diff) or `---abc` is body text
    dash = styles["---"]
    kd = f"{f.fq}|the opening '---' delimiter is a whole line"
    verdict_d = None
    dash_test = dash.test
    if isinstance(dash_test, ast.Name) and single_value(f, dash_test.id) is not None:
        dash_test = single_value(f, dash_test.id)
    for c_ in ast.walk(dash_test):
        rc_ = _regex_call(c_, f)
        if rc_ is not None and rc_[2] in ("match", "fullmatch") and _regex_first_char_style(rc_[0]) == "---":
            # fullmatch anchors both ends of its subject (the first line): blanks-only behind the dashes is what remains to show
            w_ = _whole_line_regex(rc_[0] + ("$" if rc_[2] == "fullmatch" else ""), 0, anchored_start=True)
            verdict_d = ("ok", rc_[0]) if w_ is True else (("bad", f"the pattern {rc_[0]!r} also matches a longer first line") if w_ is False else ("error", rc_[0]))
        elif isinstance(c_, ast.Call) and isinstance(c_.func, ast.Attribute) and c_.func.attr == "startswith" and c_.args and isinstance(c_.args[0], ast.Constant) and c_.args[0].value == "---" and verdict_d is None:
            verdict_d = ("bad", "`startswith('---')` accepts every first line that merely begins with three dashes")
    if verdict_d is None:
        rep.error("C08.R4", f"{m.site(dash)}: the test of the '---' style is not understood")
    elif verdict_d[0] == "ok":
        rep.ok("C08.R4", kd, m.site(dash), verdict_d[1])
    elif verdict_d[0] == "bad":
        rep.violation(
            "C08.R4",
            kd,
            m.site(dash),
            verdict_d[1] + ": content whose first line is `--- a/file` (a diff in a code-block) or `---|---` is taken for an option block, the line is discarded "
            "and the rest is parsed as options (`---abc` silently loses `abc`); only dashes followed by blanks up to the line end open a block",
        )
    else:
        rep.error("C08.R4", f"{m.site(dash)}: cannot decide whether {verdict_d[1]!r} matches whole lines only")
    # ---- neither style rewrites the lines of the block beyond removing indentation common to all of them:
    # textwrap.dedent also empties every whitespace-only line, which changes `|` block values of the '---' style only
    for sty, iff in sorted(styles.items()):
        for st in cfg.nodes:
            if isinstance(st, (ast.Assign, ast.AnnAssign)) and cfg.dominates(("T", iff), st) and getattr(st, "value", None) is not None:
                tg = [x for t_ in (st.targets if isinstance(st, ast.Assign) else [st.target]) for x in target_names(t_)]
                if not (set(tg) & VS):
                    continue
                for c_ in ast.walk(st.value):
                    if isinstance(c_, ast.Call) and m.resolve(dotted(c_.func) or "") == "textwrap.dedent":
                        rep.violation(
                            "C08.R4",
                            f"{f.fq}|the {sty!r} style hands the block text to the tokenizer without rewriting its lines|{m.resolve(dotted(c_.func) or '')}",
                            m.site(st),
                            f"`{short(st, 50)}`: textwrap.dedent empties every whitespace-only line, so a `|` block value of the {sty!r} style loses the spaces of a whitespace-only line that is "
                            "indented deeper than the block ('\\n\\n' instead of '\\n    \\n'), unlike the same lines in the other style or in YAML",
                        )
    # ---- a rewriting call applied to the block text inside a style branch applies on every path through the branch:
    # an arm that skips it hands the tokenizer differently prepared text (e.g. a '---' block without closing delimiter left indented)
    for sty, iff in sorted(styles.items()):
        rewr = []
        for st in cfg.nodes:
            if isinstance(st, (ast.Assign, ast.AnnAssign)) and cfg.dominates(("T", iff), st) and getattr(st, "value", None) is not None:
                tg = [x for t_ in (st.targets if isinstance(st, ast.Assign) else [st.target]) for x in target_names(t_)]
                if set(tg) & VS and any(isinstance(c_, ast.Call) and m.resolve(dotted(c_.func) or "") == "textwrap.dedent" for c_ in ast.walk(st.value)):
                    rewr.append(st)
        if not rewr:
            continue
        kr = f"{f.fq}|a rewriting of the {sty!r} block text applies on every path of the branch|textwrap.dedent"
        if cfg.paths_avoiding(("T", iff), tok_stmt, lambda n_: n_ in rewr):
            rep.violation(
                "C08.R4",
                kr,
                m.site(rewr[0]),
                f"`{short(rewr[0], 50)}` removes the common indentation on some paths through the {sty!r} branch only: a block that takes the other arm (e.g. one that runs to the end of the "
                "directive without a closing delimiter) reaches the tokenizer still indented and is rejected ('expected key to start at column 0'), so all its options are lost",
            )
        else:
            rep.ok("C08.R4", kr, m.site(rewr[0]))
    # ---- recognising the ':' style skips indentation only: spaces and tabs, never line feeds or other Unicode white space
    def wide_strips(root: ast.AST):
        for c_ in ast.walk(root):
            if isinstance(c_, ast.Call) and isinstance(c_.func, ast.Attribute) and c_.func.attr in ("lstrip", "strip") and not c_.keywords:
                if not c_.args:
                    yield c_, "strips every kind of white space, including line feeds and no-break spaces"
                elif len(c_.args) == 1:
                    a_ = _const_str(f, c_.args[0])
                    if a_ is None:
                        continue
                    if set(a_) - set(" \t"):
                        yield c_, f"strips {sorted(set(a_) - set(' ' + chr(9)))!r} as well"
            rc_ = _regex_call(c_, f)
            if rc_ is not None and _regex_leading_blank_is_wide(rc_[0]):
                yield c_, "its leading white-space class matches line feeds / Unicode spaces"

    colon = styles[":"]
    roots_ = [colon.test] + [st for st in cfg.nodes if isinstance(st, ast.stmt) and cfg.dominates(("T", colon), st) for st in _header_roots(st)]
    seen_ws = set()
    n_ws = 0
    for r_ in roots_:
        for c_, why_ in wide_strips(r_):
            if id(c_) in seen_ws:
                continue
            seen_ws.add(id(c_))
            n_ws += 1
            rep.violation(
                "C08.R4",
                f"{f.fq}|the ':' option style skips only spaces and tabs|{short(c_, 50)}",
                m.site(c_),
                f"`{short(c_, 50)}` {why_}: content that starts with a blank line followed by a ':field:' line is taken for an (empty) option block, and a line led by a "
                "no-break space is consumed as an option although it is body text",
            )
    if not n_ws:
        rep.ok("C08.R4", f"{f.fq}|the ':' option style skips only spaces and tabs", m.site(colon))
    # ---- the style test and the per-line test are one predicate: when the style test refuses a leading ':::' (a nested colon
    # fence), every statement that moves a content line into the option lines must be guarded by that refusal as well
    def refuses_fence(e: ast.AST) -> bool:
        for c_ in ast.walk(e):
            rc_ = _regex_call(c_, f)
            if rc_ is not None and ("(?!::)" in rc_[0] or "(?!:{2" in rc_[0]):
                return True
        return any(not pol and isinstance(t_, ast.Call) and isinstance(t_.func, ast.Attribute) and t_.func.attr == "startswith" and t_.args and isinstance(t_.args[0], ast.Constant) and t_.args[0].value == ":::" for t_, pol in split_facts(e, True))

    test_e = colon.test
    if isinstance(test_e, ast.Name) and single_value(f, test_e.id) is not None:
        test_e = single_value(f, test_e.id)
    if refuses_fence(test_e):
        # the lists that feed the tokenizer input inside the branch
        feeders = set(VS)
        branch_st = [st for st in cfg.nodes if isinstance(st, ast.stmt) and cfg.dominates(("T", colon), st)]
        grew = True
        while grew:
            grew = False
            for st in branch_st:
                if isinstance(st, (ast.Assign, ast.AnnAssign)) and getattr(st, "value", None) is not None:
                    tg = [x for t_ in (st.targets if isinstance(st, ast.Assign) else [st.target]) for x in target_names(t_)]
                    if set(tg) & feeders and not names_in(st.value) <= feeders:
                        feeders |= names_in(st.value)
                        grew = True
        consumers = [st for st in branch_st if isinstance(st, ast.Expr) and isinstance(st.value, ast.Call) and isinstance(st.value.func, ast.Attribute) and st.value.func.attr in ("append", "insert") and isinstance(st.value.func.value, ast.Name) and st.value.func.value.id in feeders and cfg.loops.get(st) is not None]
        kf = f"{f.fq}|option lines are collected under the same ':::' refusal as the style test"
        if not consumers:
            rep.listed("C08.R4", kf, m.site(colon), "no statement inside a loop appends a line to the option lines (collected by slicing / comprehension): not judged")
        for st in consumers:
            refused = False
            style_test_nodes = {id(x_) for x_ in ast.walk(colon.test)}
            for t_, pol in cfg.guards(st):
                e_ = t_
                if id(e_) in style_test_nodes:
                    continue  # the test on the whole content says nothing about the line being collected
                if isinstance(e_, ast.Name):
                    # a match object bound inside the collecting loop stands for its match call
                    inloop = [v_ for s2, v_ in simple_defs(f, e_.id) if v_ is not None and cfg.loops.get(s2) is cfg.loops.get(st)]
                    if len(inloop) == 1:
                        e_ = inloop[0]
                if not pol and isinstance(e_, ast.Call) and isinstance(e_.func, ast.Attribute) and e_.func.attr == "startswith" and e_.args and isinstance(e_.args[0], ast.Constant) and e_.args[0].value == ":::":
                    refused = True
                if pol and refuses_fence(e_) and any(_regex_call(c_, f) is not None for c_ in ast.walk(e_)):
                    refused = True
            if refused:
                rep.ok("C08.R4", kf, m.site(st))
            else:
                rep.violation(
                    "C08.R4",
                    kf,
                    m.site(st),
                    f"`{short(st, 50)}` moves a content line into the option block without testing that it does not start with ':::', although the style test refuses such a first line: "
                    "a nested ':::' fence directly behind the option lines is consumed as an option (the block becomes malformed and every option is lost, the fence line disappears from the body)",
                )
    # flags that differ by style and steer control flow behind the join
    in_branch: dict[str, dict[str, list[str]]] = defaultdict(dict)
    for sty, iff in styles.items():
        for st in cfg.nodes:
            if isinstance(st, ast.stmt) and cfg.dominates(("T", iff), st):
                for n in [st] if not isinstance(st, (ast.If, ast.While, ast.For, ast.Try, ast.With)) else []:
                    tg = []
                    if isinstance(n, ast.Assign):
                        tg = [x for t in n.targets for x in target_names(t)]
                    elif isinstance(n, (ast.AugAssign, ast.AnnAssign)):
                        tg = target_names(n.target)
                    for x in tg:
                        in_branch[x].setdefault(sty, []).append(unparse(n.value) if getattr(n, "value", None) is not None else "?")
    behind = [st for st in cfg.nodes if isinstance(st, ast.stmt) and cfg.is_reachable(st) and not any(cfg.dominates(e, st) for e in edge_nodes) and any(cfg.dominates(i, st) for i in styles.values())]
    tested_behind: set[str] = set()
    read_behind: set[str] = set()
    for st in behind:
        if isinstance(st, (ast.If, ast.While)):
            tested_behind |= names_in(st.test)
        for n in (x for r in _header_roots(st) for x in ast.walk(r)):
            if isinstance(n, ast.IfExp):
                tested_behind |= names_in(n.test)
            if isinstance(n, ast.BoolOp):
                tested_behind |= names_in(n)
            if isinstance(n, ast.Name) and isinstance(n.ctx, ast.Load):
                read_behind.add(n.id)
    for x, per in sorted(in_branch.items()):
        if x in VS or x in CS or x not in read_behind:
            continue
        k = f"{f.fq}|`{x}` set in an option-style branch and read behind the join"
        vals = [tuple(per.get(s, ())) for s in ("---", ":")]
        same = vals[0] == vals[1] and len(vals[0]) == 1 and vals[0][0] != "?" and not (names_in(ast.parse(vals[0][0], mode="eval")) - set())
        if x in tested_behind and not same:
            rep.violation("C08.R4", k, m.site(styles["---"]), f"`{x}` is assigned differently by the two option-style branches ({dict(per)}) and tested behind their join: the two styles take different validation paths")
        elif x in tested_behind:
            rep.ok("C08.R4", k, m.site(styles["---"]), "same constant in both branches")
        else:
            rep.listed("C08.R4", k, m.site(styles["---"]), f"data only (not tested): {dict(per)}")
    # ---- the validation steps lie behind the join
    g = get_callgraph(corpus)
    steps: list[tuple[str, ast.AST]] = [("tokenise", tok), ("spec lookup", vm.lookup), ("convert", vm.conv_call)]
    for call, targets in g.callees(f):
        if any(isinstance(t, External) and str(t).startswith("yaml.") and "load" in str(t) for t in targets):
            steps.append(("yaml load (validate_options=False)", call))
    for n in f.local_nodes():
        if isinstance(n, ast.Subscript) and isinstance(n.ctx, ast.Store) and isinstance(n.value, ast.Name) and n.value.id == vm.res_name:
            steps.append(("store into result", n))
        if any(_is_call_on(n, w_, ("append", "extend", "insert")) for w_ in vm.warn_set):
            steps.append(("warning", n))
        if isinstance(n, ast.Call) and f.module.resolve(dotted(n.func) or "").endswith(".ParseWarnings"):
            steps.append(("warning object", n))
    seen_steps = set()
    for what, node in steps:
        st = cfg.stmt_of(node)
        k = f"{f.fq}|{what} behind the join of the style branches|{short(st, 50)}"
        if st in seen_steps:
            continue
        seen_steps.add(st)
        dom = sorted((e for e in edge_nodes if cfg.dominates(e, st)), key=lambda e: e[0] != "T")
        if dom:
            sty = [s for s, i in styles.items() if i is dom[0][1]][0]
            rep.violation("C08.R4", k, m.site(node), f"{what} (`{short(st, 50)}`) happens inside the {'taken' if dom[0][0] == 'T' else 'not-taken'} branch of the {sty!r} style test: the two option styles are validated on different paths")
        else:
            rep.ok("C08.R4", k, m.site(node))
    # ---- per-iteration path discipline
    def handlers_of(node) -> list[ast.ExceptHandler] | None:
        cur: ast.AST = node
        for a in ancestors(node):
            if a is loop:
                return None
            if isinstance(a, ast.Try) and any(cur is s for s in a.body):
                return a.handlers
            cur = a
        return None

    h2 = handlers_of(vm.conv_stmt)
    member_tests = []
    for n_ in walk_local(loop):
        if isinstance(n_, ast.If):
            for pol_edge in ("T", "F"):
                for t_, pol in split_facts(n_.test, pol_edge == "T"):
                    if isinstance(t_, ast.Compare) and len(t_.ops) == 1 and isinstance(t_.ops[0], (ast.In, ast.NotIn)) and isinstance(t_.left, ast.Name) and t_.left.id == vm.loop_key and is_attr_of(t_.comparators[0], "option_spec", f):
                        if (isinstance(t_.ops[0], ast.NotIn) and pol) or (isinstance(t_.ops[0], ast.In) and not pol):
                            member_tests.append((pol_edge, n_))
    vm.member_tests = member_tests
    if vm.lookup_kind == "subscript" and not handlers_of(vm.lookup_stmt) and member_tests:
        h1 = [n_ for _, n_ in member_tests]
        H1 = list(member_tests)
    elif vm.lookup_kind == "subscript":
        h1 = handlers_of(vm.lookup_stmt)
        H1 = [("H", h) for h in h1] if h1 else []
    else:
        # `conv = spec.get(k)` followed by a test that conv is None: the failure path starts at that edge
        h1, H1 = [], []
        for n_ in walk_local(loop):
            if isinstance(n_, ast.If):
                for pol_edge in ("T", "F"):
                    for t_, pol in split_facts(n_.test, pol_edge == "T"):
                        none_fact = (
                            isinstance(t_, ast.Compare) and len(t_.ops) == 1 and isinstance(t_.left, ast.Name) and t_.left.id == vm.conv_name and isinstance(t_.comparators[0], ast.Constant) and t_.comparators[0].value is None
                            and ((isinstance(t_.ops[0], ast.Is) and pol) or (isinstance(t_.ops[0], ast.IsNot) and not pol))
                        ) or (isinstance(t_, ast.Name) and t_.id == vm.conv_name and not pol)
                        if none_fact and (pol_edge, n_) not in H1:
                            H1.append((pol_edge, n_))
                            h1.append(n_)
    if not h1 or not h2:
        rep.error("C08.R4", "spec lookup / converter call are not inside try statements (or a None test on the looked-up converter) within the loop (unknown idiom)")
        return
    H2 = [("H", h) for h in h2]
    if set(H1) & set(H2):
        rep.error("C08.R4", "spec lookup and conversion share one try statement")
        return
    # lists reported after the loop: `if U: W.append(...)`
    ulists: dict[str, ast.If] = {}
    after = cfg.reachable_from(("F", loop))
    for n in f.local_nodes():
        if isinstance(n, ast.If) and n in after and not any(a is loop for a in ancestors(n)):
            for t, pol in split_facts(n.test, True):
                if pol and isinstance(t, ast.Name):
                    napp = [c for s in n.body for c in ast.walk(s) if any(_is_call_on(c, w_, ("append",)) for w_ in vm.warn_set)]
                    if len(napp) == 1 and len(n.body) == 1:
                        ulists[t.id] = n

    def w_store(n):
        if isinstance(n, (ast.Assign, ast.AugAssign, ast.AnnAssign)):
            tgs = n.targets if isinstance(n, ast.Assign) else [n.target]
            if any(isinstance(t, ast.Subscript) and isinstance(t.value, ast.Name) and t.value.id == vm.res_name for t in tgs):
                return 1
        return 1 if _stmt_calls(n, lambda c: _is_call_on(c, vm.res_name, ("update", "setdefault", "__setitem__"))) else 0

    def w_warn(n):
        return 1 if _stmt_calls(n, lambda c: any(_is_call_on(c, w_, ("append", "extend", "insert")) for w_ in vm.warn_set)) else 0

    def w_report(n):
        return 1 if (w_warn(n) or _stmt_calls(n, lambda c: any(_is_call_on(c, u, ("append",)) for u in ulists))) else 0

    start = ("T", loop)
    stops = [loop] + H1 + H2
    # the failure paths must not re-join the success path inside the iteration: otherwise the
    # path classes are correlated by data (flags set in the handler) and counting paths is meaningless
    main: set = set()
    work = [start]
    while work:
        n = work.pop()
        if n in main or n in stops:
            continue
        main.add(n)
        work.extend(cfg.succ.get(n, []))
    for he in H1 + H2:
        seen_h: set = set()
        work = [he]
        while work:
            n = work.pop()
            if n in seen_h or n is loop:
                continue
            seen_h.add(n)
            work.extend(cfg.succ.get(n, []))
        inside = {n for n in seen_h & main if isinstance(n, ast.stmt) and any(a is loop for a in ancestors(n))}
        if inside:
            rep.error("C08.R4", f"{m.site(he[1])}: the failure handler re-joins the success path inside the loop body (at `{short(sorted(inside, key=lambda x: x.lineno)[0], 40)}`); path classes cannot be separated")
            return

    def judge(name, got, want, site, msg):
        k = f"{f.fq}|{name}"
        if got is None:
            rep.error("C08.R4", f"{name}: path class is empty")
        elif got == want:
            rep.ok("C08.R4", k, site, f"count {sorted(got)}")
        else:
            rep.violation("C08.R4", k, site, msg + f" (counts over the paths of one iteration: {sorted(got)}, required {sorted(want)})")

    site = m.site(loop)
    cs = path_counts(cfg, start, stops, w_store)
    cw = path_counts(cfg, start, stops, w_report)
    judge("success path stores the option exactly once", cs.get(loop), {1}, site, "an option that passed lookup and conversion is not stored exactly once into the result")
    judge("success path reports nothing", cw.get(loop), {0}, site, "a valid option produces a warning")
    for tag, HS, hs, what in (("unknown-option", H1, h1, "unknown option"), ("failed-conversion", H2, h2, "invalid option value")):
        for he, h in zip(HS, hs):
            hsite = m.site(h)
            before = cs.get(he)
            judge(f"{tag} path: nothing stored before the failure", before, {0}, hsite, f"the result already holds the option when the {what} is detected")
            a = path_counts(cfg, he, [loop], w_store).get(loop)
            judge(f"{tag} path stores nothing", a, {0}, hsite, f"an {what} is stored into the result instead of being dropped")
            b = path_counts(cfg, he, [loop], w_report if tag == "unknown-option" else w_warn).get(loop)
            judge(f"{tag} path reports exactly once", b, {1}, hsite, f"an {what} is dropped without a warning / with several warnings")
    # every handler of the lookup catches the lookup failure only (KeyError or broader is fine); roles of the store
    for n in walk_local(loop):
        if isinstance(n, ast.Assign) and any(isinstance(t, ast.Subscript) and isinstance(t.value, ast.Name) and t.value.id == vm.res_name for t in n.targets):
            t = [t for t in n.targets if isinstance(t, ast.Subscript)][0]
            k = f"{f.fq}|result[name] = converted value"
            key_ok = isinstance(t.slice, ast.Name) and t.slice.id == vm.loop_key
            val = n.value
            if isinstance(val, ast.Name) and val.id == vm.conv_result and key_ok:
                rep.ok("C08.R4", k, m.site(n))
            elif not key_ok:
                rep.violation("C08.R4", k, m.site(n), f"`{short(n, 60)}` stores under `{short(t.slice, 20)}`, not under the option's own name `{vm.loop_key}`")
            elif isinstance(val, ast.Name) and val.id == vm.loop_val:
                rep.violation("C08.R4", k, m.site(n), f"`{short(n, 60)}` stores the raw option text, not the value returned by the directive's converter")
            else:
                rep.error("C08.R4", f"{m.site(n)}: stored value `{short(val, 30)}` is neither the converter result nor the raw value")
    k = f"{f.fq}|converter is option_spec[<loop key>] of the directive class parameter"
    if vm.lookup_kind == "get":
        rep.violation(
            "C08.R4",
            k,
            m.site(vm.lookup),
            f"`{short(vm.lookup_stmt, 50)}` looks the converter up with .get(), which bypasses the mapping's __getitem__: docutils subscripts option_spec, and a spec that accepts keys only "
            "through __getitem__ (sphinx.ext.autodoc's DummyOptionSpec: an empty dict subclass whose __getitem__ returns a converter for every key) now yields None for every option, "
            "so all options of such directives are dropped as unknown instead of being kept and converted by the directive's own spec",
        )
    elif vm.member_tests and not handlers_of(vm.lookup_stmt):
        rep.violation(
            "C08.R4",
            k,
            m.site(vm.member_tests[0][1]),
            f"`{short(vm.member_tests[0][1].test, 50)}` decides by a membership test whether the option is known, which bypasses the mapping's __getitem__: a spec that accepts keys only through "
            "__getitem__ (sphinx.ext.autodoc's DummyOptionSpec, an empty dict subclass) contains no key, so all options of such directives are dropped as unknown",
        )
    elif vm.key_name == vm.loop_key:
        rep.ok("C08.R4", k, m.site(vm.lookup))
    else:
        rep.violation("C08.R4", k, m.site(vm.lookup), f"the converter is looked up under `{vm.key_name}`, not under the option's name `{vm.loop_key}`")
    # the post-loop report of unknown options
    for u, iff in ulists.items():
        k = f"{f.fq}|collected `{u}` are reported once behind the loop"
        if cfg.dominates(("F", loop), iff) or not cfg.paths_avoiding(("F", loop), vm.final_returns[0][0], lambda n: n is iff):
            rep.ok("C08.R4", k, m.site(iff))
        else:
            rep.violation("C08.R4", k, m.site(iff), f"a path from the loop to the result skips the report of `{u}`")
    # ---- an option block is only looked for when the directive declares at least one option
    entry = vm.entry
    ecfg = get_cfg(entry)
    ocall_st = ecfg.stmt_of(vm.options_call)
    k = f"{entry.fq}|an option block is only looked for when the directive declares options"
    strong, weak, other = [], [], []
    for t_, pol in ecfg.guards(ocall_st):
        if not any(isinstance(x, ast.Attribute) and x.attr == "option_spec" for x in ast.walk(t_)) and not (isinstance(t_, ast.Name) and is_attr_of(t_, "option_spec", entry)):
            continue
        txt = ("" if pol else "not ") + unparse(t_)
        def spec(x) -> bool:
            if isinstance(x, ast.BoolOp) and isinstance(x.op, ast.Or) and all(isinstance(v_, (ast.Tuple, ast.List, ast.Dict, ast.Set)) and not getattr(v_, "elts", getattr(v_, "keys", None)) for v_ in x.values[1:]):
                x = x.values[0]  # `spec or {}`
            return is_attr_of(x, "option_spec", entry)

        if spec(t_):
            (strong if pol else other).append(txt)
        elif isinstance(t_, ast.Call) and dotted(t_.func) == "len" and len(t_.args) == 1 and spec(t_.args[0]):
            (strong if pol else other).append(txt)
        elif isinstance(t_, ast.Compare) and len(t_.ops) == 1 and isinstance(t_.left, ast.Call) and dotted(t_.left.func) == "len" and t_.left.args and spec(t_.left.args[0]) and isinstance(t_.comparators[0], ast.Constant) and ((isinstance(t_.ops[0], ast.Gt) and t_.comparators[0].value == 0) or (isinstance(t_.ops[0], ast.GtE) and t_.comparators[0].value == 1)) and pol:
            strong.append(txt)
        elif isinstance(t_, ast.Compare) and len(t_.ops) == 1 and spec(t_.left) and isinstance(t_.comparators[0], ast.Dict) and not t_.comparators[0].keys and ((isinstance(t_.ops[0], ast.NotEq) and pol) or (isinstance(t_.ops[0], ast.Eq) and not pol)):
            other.append(txt)  # excludes the empty spec but lets None through: not decided here
        elif isinstance(t_, ast.Compare) and len(t_.ops) == 1 and spec(t_.left) and isinstance(t_.comparators[0], ast.Constant) and t_.comparators[0].value is None and ((isinstance(t_.ops[0], (ast.IsNot, ast.NotEq)) and pol) or (isinstance(t_.ops[0], (ast.Is, ast.Eq)) and not pol)):
            weak.append(txt)
        elif isinstance(t_, ast.Call) and dotted(t_.func) in ("isinstance", "hasattr") and pol:
            weak.append(txt)
        else:
            other.append(txt)
    moved = not strong and not weak and not other and any(
        isinstance(n_, (ast.If, ast.IfExp, ast.While)) and any(isinstance(x, ast.Attribute) and x.attr == "option_spec" or (isinstance(x, ast.Name) and is_attr_of(x, "option_spec", f)) for x in ast.walk(n_.test))
        for n_ in f.local_nodes()
    )
    if strong:
        rep.ok("C08.R4", k, entry.module.site(vm.options_call), f"guarded by {strong[0]}")
    elif moved:
        rep.error("C08.R4", f"{entry.module.site(vm.options_call)}: the option_spec test was moved into {f.qualname}; its effect on the content is not modelled")
    elif other:
        rep.error("C08.R4", f"{entry.module.site(vm.options_call)}: test on option_spec not understood: {other[0]}")
    else:
        why = f"only guarded by `{weak[0]}`, which also holds for an empty option_spec" if weak else "not guarded by a test on the directive's option_spec"
        rep.violation(
            "C08.R4",
            k,
            entry.module.site(vm.options_call),
            f"the option parser is called {why}: for a directive that declares no options (option_spec = {{}}: only, versionadded, centered, ...) leading ':key:' lines or a leading '---' section "
            "of the body are consumed as an option block (body lines lost, offset shifted, spurious 'Unknown option keys' warning)",
        )
    # ---- every return hands back validated options, an empty dict, or is a documented bypass
    try:
        call_bind = bind_args(vm.options_call, f)
    except Unsupported:
        call_bind = {}
    add_params = {p_ for p_, e_ in call_bind.items() if "additional_options" in names_in(e_)}
    raw_params = {p_ for p_, e_ in call_bind.items() if "validate_options" in names_in(e_)}
    tok_seed: set[str] = set()
    st_tok = _stmt(tok)
    if isinstance(st_tok, ast.Assign):
        for t_ in st_tok.targets:
            tok_seed.update(target_names(t_))
    for ret, ctor in vm.returns:
        e = ctor_field(ctor, vm.fields, vm.options_field)
        k = f"{f.fq}|returned options are validated, empty, or a documented bypass|{short(ret, 60)}"
        site = m.site(ret)
        if e is None:
            rep.error("C08.R4", f"{site}: return without an options field")
            continue
        if isinstance(e, ast.Name) and e.id in vm.res_aliases:
            if ret is final_ret:
                rep.ok("C08.R4", k, site, "the dict filled by the validation loop")
            else:
                rep.ok("C08.R4", k, site, "the validated result dict (possibly still empty)")
            continue
        gs = cfg.guards(ret)
        if any(pol and isinstance(t_, ast.Name) and t_.id in raw_params for t_, pol in gs):
            rep.assumed("C08.R4", k, site, "validate_options=False: the caller (myst-nb) asked for the raw YAML mapping; guard on the parameter bound to `not validate_options` re-verified")
            continue
        if any(
            pol and isinstance(t_, ast.Call) and dotted(t_.func) == "issubclass" and len(t_.args) == 2 and isinstance(t_.args[0], ast.Name) and t_.args[0].id in vm.cls_aliases and m.resolve(dotted(t_.args[1]) or "").endswith(".TestDirective")
            for t_, pol in gs
        ):
            rep.assumed("C08.R4", k, site, "docutils' TestDirective (testing only) accepts every option unvalidated by design; guard issubclass(<class>, TestDirective) re-verified")
            continue
        used = names_in(e)
        a_t = _taint(f, set(add_params), ret) if add_params else set()
        b_t = _taint(f, tok_seed, ret)
        leak_a, leak_b = sorted(used & a_t), sorted(used & b_t)
        if leak_a or leak_b:
            src_ = " and ".join(x for x in (("the externally supplied additional options (via `%s`)" % ", ".join(leak_a)) if leak_a else "", ("the tokenized option block (via `%s`)" % ", ".join(leak_b)) if leak_b else "") if x)
            rep.violation("C08.R4", k, site, f"`{short(ret, 60)}` hands back option values from {src_} that never passed the option_spec lookup/conversion loop: unknown or invalid options are kept, unconverted and without a warning")
        else:
            rep.ok("C08.R4", k, site, "no option value can reach this dict (only empty-dict definitions reach the return)")
    rep.expect_min("C08.R4", 30, "2x2 style-branch obligations, >=8 validation steps, 8 path classes, store roles, 4 returns")


# ---------------------------------------------------------------------------
# R5 body offset: lossy round trip + blank-line strip pairing


def _line_splitter(fi: FunctionInfo) -> tuple[str, str] | None:
    """Classify a function by what it does with its single text parameter:
    ('exact', why)   - returns the '\\n'-separated pieces without a trailing empty piece: `P.splitlines()`, or
                       `P.split("\\n")` followed by exactly one guarded removal of an empty last piece;
    ('inexact', why) - splits its parameter into lines but also drops, filters, strips or otherwise changes pieces
                       (or keeps the phantom empty piece behind a final newline);
    None             - not a line splitter."""
    if fi.is_lambda or len([p for p in fi.params if p not in ("self", "cls")]) != 1:
        return None
    P = [p for p in fi.params if p not in ("self", "cls")][0]
    body = list(fi.node.body)
    if body and isinstance(body[0], ast.Expr) and isinstance(body[0].value, ast.Constant):
        body = body[1:]

    def split_kind(e: ast.AST) -> str | None:
        if isinstance(e, ast.Call) and isinstance(e.func, ast.Attribute) and isinstance(e.func.value, ast.Name) and e.func.value.id == P:
            if e.func.attr == "splitlines" and not e.args and not e.keywords:
                return "splitlines"
            if e.func.attr == "split" and len(e.args) == 1 and not e.keywords and isinstance(e.args[0], ast.Constant) and e.args[0].value == "\n":
                return "split"
        return None

    if not any(split_kind(n) for st in body for n in ast.walk(st)):
        return None
    if len(body) == 1 and isinstance(body[0], ast.Return) and body[0].value is not None:
        k = split_kind(body[0].value)
        if k == "splitlines":
            return ("exact", "returns str.splitlines() of its parameter")
        if k == "split":
            return ("inexact", "returns text.split('\\n'), which has a phantom empty last piece when the text ends with a newline")
        return ("inexact", f"returns `{short(body[0].value, 50)}`, not the plain pieces")
    if not (len(body) >= 2 and isinstance(body[0], ast.Assign) and len(body[0].targets) == 1 and isinstance(body[0].targets[0], ast.Name) and split_kind(body[0].value) and isinstance(body[-1], ast.Return)):
        return ("inexact", "splits its parameter but not in the recognised straight-line shape")
    L = body[0].targets[0].id
    kind = split_kind(body[0].value)
    if not (isinstance(body[-1].value, ast.Name) and body[-1].value.id == L):
        return ("inexact", f"returns `{short(body[-1].value, 50) if body[-1].value is not None else None}` instead of the pieces")
    drops = 0
    for st in body[1:-1]:
        ok = False
        if isinstance(st, ast.If) and not st.orelse and len(st.body) == 1:
            facts_ = split_facts(st.test, True)
            last_empty = any(
                (not pol and unparse(t) == f"{L}[-1]") or (pol and isinstance(t, ast.Compare) and len(t.ops) == 1 and isinstance(t.ops[0], ast.Eq) and unparse(t.left) == f"{L}[-1]" and isinstance(t.comparators[0], ast.Constant) and t.comparators[0].value == "")
                for t, pol in facts_
            )
            others = [t for t, pol in facts_ if not ((not pol and unparse(t) == f"{L}[-1]") or (pol and unparse(t) == L) or (pol and isinstance(t, ast.Compare) and unparse(t.left) == f"{L}[-1]"))]
            b0 = st.body[0]
            pop = (isinstance(b0, ast.Expr) and isinstance(b0.value, ast.Call) and unparse(b0.value) in (f"{L}.pop()", f"{L}.pop(-1)")) or (isinstance(b0, ast.Delete) and unparse(b0) == f"del {L}[-1]") or (isinstance(b0, ast.Assign) and unparse(b0) == f"{L} = {L}[:-1]")
            if last_empty and pop and not others:
                drops += 1
                ok = True
        if not ok:
            return ("inexact", f"`{short(st, 50)}` changes the pieces beyond removing the one empty piece behind a final newline")
    if kind == "split" and drops == 1:
        return ("exact", "text.split('\\n') minus the one empty piece behind a final newline")
    if kind == "splitlines" and drops == 0:
        return ("exact", "str.splitlines() of its parameter")
    if kind == "split":
        return ("inexact", "text.split('\\n') keeps a phantom empty last piece / removes more than one piece")
    return ("inexact", "removes a real (empty) last line from str.splitlines()")


class StrOrigin:
    """Where a string (or the string a line list / count was taken from) comes from."""

    def __init__(self, corpus: Corpus):
        self.c = corpus
        self.g = get_callgraph(corpus)

    def string(self, e: ast.expr, fi: FunctionInfo, bind: dict | None = None, depth: int = 0) -> set[str]:
        """Tags: 'param:<fq>:<name>', 'joined@<fq>', 'unknown'."""
        if depth > 10:
            return {"unknown"}
        if isinstance(e, ast.Call) and isinstance(e.func, ast.Attribute) and e.func.attr == "join" and isinstance(e.func.value, ast.Constant) and isinstance(e.func.value.value, str) and "\n" in e.func.value.value:
            return {f"joined@{fi.fq}"}
        if (
            isinstance(e, ast.Call)
            and isinstance(e.func, ast.Attribute)
            and e.func.attr == "join"
            and isinstance(e.func.value, ast.Constant)
            and e.func.value.value == ""
            and len(e.args) == 1
            and isinstance(e.args[0], (ast.GeneratorExp, ast.ListComp))
            and isinstance(e.args[0].elt, ast.BinOp)
            and isinstance(e.args[0].elt.op, ast.Add)
            and isinstance(e.args[0].elt.right, ast.Constant)
            and e.args[0].elt.right.value == "\n"
        ):
            return {f"terminated-lines@{fi.fq}"}  # every line keeps its terminator: splitlines() gives the list back
        if isinstance(e, ast.Subscript) and isinstance(e.slice, ast.Slice):
            return self.string(e.value, fi, bind, depth + 1)
        if isinstance(e, ast.IfExp):
            return self.string(e.body, fi, bind, depth + 1) | self.string(e.orelse, fi, bind, depth + 1)
        if isinstance(e, ast.Constant) and isinstance(e.value, str):
            return {"const"}
        if isinstance(e, ast.Name):
            out: set[str] = set()
            busy = self.__dict__.setdefault("_busy", set())
            if (fi.fq, e.id) in busy:
                return set()  # copy cycle (x = y ... y = x): contributes nothing new
            busy.add((fi.fq, e.id))
            try:
                return self._name_origin(e, fi, bind, depth)
            finally:
                busy.discard((fi.fq, e.id))
        if isinstance(e, ast.Attribute) and isinstance(e.value, ast.Name):
            return self._field_origin(e, fi, bind, depth)
        return {"unknown"}

    def _name_origin(self, e: ast.Name, fi: FunctionInfo, bind, depth: int) -> set[str]:
        if True:
            out: set[str] = set()
            defs = simple_defs(fi, e.id)
            if e.id in fi.params:
                if bind is not None and e.id in bind:
                    out |= bind[e.id]
                else:
                    out.add(f"param:{fi.fq}:{e.id}")
            for st, v in defs:
                if v is None:
                    out.add("unknown")
                elif e.id in names_in(v) and isinstance(v, ast.Subscript):
                    continue  # x = x[a:b]
                else:
                    out |= self.string(v, fi, bind, depth + 1)
            return out or {"unknown"}

    def _field_origin(self, e: ast.Attribute, fi: FunctionInfo, bind, depth: int) -> set[str]:
        if True:
            # field of a result object built by a package function (possibly memoised in a module-level container)
            v0 = single_value(fi, e.value.id)
            producers, keys = self._producers(v0, fi, set())
            if producers is None:
                return {"unknown"}
            out: set[str] = set()
            for v in producers:
                targets = [t for t in self.g.resolve_call(v, fi) if isinstance(t, FunctionInfo) and not t.is_lambda]
                if not targets:
                    return {"unknown"}
                for t in targets:
                    try:
                        b = {p: self.string(a, fi, bind, depth + 1) for p, a in bind_args(v, t).items()}
                    except Unsupported:
                        return {"unknown"}
                    for n in t.local_nodes():
                        if isinstance(n, ast.Return) and isinstance(n.value, ast.Call):
                            ci = self.c.find_class(t.module.resolve(dotted(n.value.func) or ""))
                            if ci is None:
                                out.add("unknown")
                                continue
                            flds = dataclass_fields(self.c, ci)
                            if e.attr not in flds:
                                out.add("unknown")
                                continue
                            a = ctor_field(n.value, flds, e.attr)
                            out |= self.string(a, t, b, depth + 1) if a is not None else {"unknown"}
                        elif isinstance(n, ast.Return):
                            out.add("unknown")
            # a memoised object is only valid for the inputs its key mentions
            for k_ in keys:
                kn = names_in(k_)
                for nm in list(kn):
                    kv = single_value(fi, nm)
                    if kv is not None:
                        kn |= names_in(kv)
                for tag in list(out):
                    if tag.startswith(f"param:{fi.fq}:") and tag.rsplit(":", 1)[1] not in kn:
                        out.add("stale-cache:" + tag.rsplit(":", 1)[1])
            return out or {"unknown"}

    def _producers(self, v: ast.expr | None, fi: FunctionInfo, seen: set) -> tuple[list[ast.Call] | None, list[ast.expr]]:
        """The package calls that may have built the object ``v`` evaluates to, looking through `a or b`, conditional
        expressions and reads of a module-level dict the object was stored in (memoisation); plus the lookup keys."""
        if v is None:
            return None, []
        if isinstance(v, ast.BoolOp):
            calls: list[ast.Call] = []
            keys: list[ast.expr] = []
            for x in v.values:
                c, k = self._producers(x, fi, seen)
                if c is None:
                    return None, []
                calls += c
                keys += k
            return calls, keys
        if isinstance(v, ast.IfExp):
            a, ka = self._producers(v.body, fi, seen)
            b, kb = self._producers(v.orelse, fi, seen)
            return (None, []) if a is None or b is None else (a + b, ka + kb)
        if isinstance(v, ast.Name):
            if (fi.fq, v.id) in seen:
                return [], []
            seen.add((fi.fq, v.id))
            calls, keys = [], []
            defs = simple_defs(fi, v.id)
            if not defs:
                return None, []
            for _, d in defs:
                c, k = self._producers(d, fi, seen)
                if c is None:
                    return None, []
                calls += c
                keys += k
            return calls, keys
        cont, key = None, None
        if isinstance(v, ast.Call) and isinstance(v.func, ast.Attribute) and v.func.attr in ("get", "pop") and isinstance(v.func.value, ast.Name) and v.args:
            cont, key = v.func.value.id, v.args[0]
            if len(v.args) > 1 and not (isinstance(v.args[1], ast.Constant) and v.args[1].value is None):
                return None, []
        elif isinstance(v, ast.Subscript) and isinstance(v.value, ast.Name) and isinstance(v.ctx, ast.Load):
            cont, key = v.value.id, v.slice
        if cont is not None and cont in fi.module.const_nodes and not simple_defs(fi, cont):
            # everything stored into the container in this function (stores elsewhere are not understood)
            calls = []
            stored = False
            for other in fi.module.functions.values():
                for n in other.local_nodes() if not other.is_lambda else []:
                    y = None
                    if isinstance(n, ast.Assign) and any(isinstance(t_, ast.Subscript) and isinstance(t_.value, ast.Name) and t_.value.id == cont for t_ in n.targets):
                        y = n.value
                    elif isinstance(n, ast.Call) and isinstance(n.func, ast.Attribute) and n.func.attr == "setdefault" and isinstance(n.func.value, ast.Name) and n.func.value.id == cont and len(n.args) == 2:
                        y = n.args[1]
                    if y is None:
                        continue
                    if other.fq != fi.fq:
                        return None, []
                    stored = True
                    c, _k = self._producers(y, fi, seen)
                    if c is None:
                        return None, []
                    calls += c
            return (calls, [key]) if stored else (None, [])
        if isinstance(v, ast.Call):
            return [v], []
        return None, []

    def lines(self, e: ast.expr, fi: FunctionInfo, depth: int = 0) -> set[str] | None:
        """Origin of the string a list of lines was split from; None if ``e`` is not a line list."""
        if depth > 6:
            return None
        if isinstance(e, ast.Call) and isinstance(e.func, ast.Attribute) and e.func.attr == "splitlines":
            return self.string(e.func.value, fi)
        if isinstance(e, ast.Call) and len(e.args) == 1 and not e.keywords and not (isinstance(e.func, ast.Attribute) and e.func.attr in ("join",)):
            # a package helper that splits its argument into lines, judged by what it does
            ts = [t for t in self.g.resolve_call(e, fi) if isinstance(t, FunctionInfo)]
            kinds = [_line_splitter(t) for t in ts]
            if ts and all(k is not None for k in kinds):
                out_ = set(self.string(e.args[0], fi))
                for t, k in zip(ts, kinds):
                    if k[0] == "inexact":
                        out_.add(f"inexact-split:{t.qualname}: {k[1]}")
                return out_
        if isinstance(e, ast.Name):
            out: set[str] = set()
            found = False
            for st, v in simple_defs(fi, e.id):
                if v is None:
                    continue
                if isinstance(v, ast.Subscript) and isinstance(v.value, ast.Name) and v.value.id == e.id:
                    continue
                r = self.lines(v, fi, depth + 1)
                if r is not None:
                    found = True
                    out |= r
            return out if found else None
        return None

    def count(self, e: ast.expr, fi: FunctionInfo) -> set[str] | None:
        if isinstance(e, ast.BinOp) and isinstance(e.op, (ast.Add, ast.Sub)) and isinstance(e.right, ast.Constant) and isinstance(e.right.value, int):
            return self.count(e.left, fi)  # a count shifted by a constant is still a count of the same string's lines
        if isinstance(e, ast.Call) and dotted(e.func) == "len" and len(e.args) == 1:
            return self.lines(e.args[0], fi)
        if isinstance(e, ast.Call) and isinstance(e.func, ast.Attribute) and e.func.attr == "count" and len(e.args) == 1 and isinstance(e.args[0], ast.Constant) and e.args[0].value == "\n":
            # the number of line feeds is the number of lines only for a string whose every line is terminated
            o = set(self.string(e.func.value, fi))
            if not o or not all(t.startswith("terminated-lines@") for t in o):
                o.add("terminator-count:" + unparse(e))
            return o
        return None


def _head_change(st: ast.stmt, body: str):
    """('drop', k) | ('insert', None) | None for a statement changing the head of the body list."""
    if isinstance(st, ast.Assign) and len(st.targets) == 1 and isinstance(st.targets[0], ast.Name) and st.targets[0].id == body:
        v = st.value
        if isinstance(v, ast.Subscript) and isinstance(v.value, ast.Name) and v.value.id == body and isinstance(v.slice, ast.Slice):
            lo = v.slice.lower
            if v.slice.upper is None and v.slice.step is None and isinstance(lo, ast.Constant) and isinstance(lo.value, int) and lo.value > 0:
                return ("drop", lo.value)
            if lo is not None:
                return ("drop", None)
    if isinstance(st, ast.Expr) and isinstance(st.value, ast.Call):
        c = st.value
        if _is_call_on(c, body, ("pop",)) and len(c.args) == 1 and isinstance(c.args[0], ast.Constant) and c.args[0].value == 0:
            return ("drop", 1)
        if _is_call_on(c, body, ("insert",)) and len(c.args) == 2 and isinstance(c.args[0], ast.Constant) and c.args[0].value == 0:
            return ("insert", None)
    if isinstance(st, ast.Delete) and len(st.targets) == 1:
        t = st.targets[0]
        if isinstance(t, ast.Subscript) and isinstance(t.value, ast.Name) and t.value.id == body and isinstance(t.slice, ast.Constant) and t.slice.value == 0:
            return ("drop", 1)
    return None


def _judge_merge_guard(rep: Report, entry: FunctionInfo, cfg, st: ast.stmt, X: str, BODY: str) -> None:
    """The text merged in front of the body must be known to be non-blank (``X.strip()`` truthy): the
    blank-line strip further down treats a whitespace-only line as blank, so a weaker test (``if X:``)
    lets a whitespace-only first line become body line 0, reset the offset and eat the one allowed strip."""
    k = f"{entry.fq}|the first line is merged into the body only when it is not blank"
    site = entry.module.site(st)
    strong, weak, other = [], [], []
    derived = _taint(entry, {X}, None)
    nonspace = False

    def is_strip(c: ast.AST) -> bool:
        return isinstance(c, ast.Call) and isinstance(c.func, ast.Attribute) and c.func.attr in ("strip", "lstrip", "rstrip", "split") and not c.args and not c.keywords and isinstance(c.func.value, ast.Name) and c.func.value.id == X

    for t, pol in cfg.guards(st):
        # a local bound once to an expression over the first line stands for that expression
        for _ in range(3):
            if isinstance(t, ast.Name) and t.id != X and t.id in derived:
                v = single_value(entry, t.id)
                if v is None:
                    break
                t = v
        if X not in names_in(t):
            if names_in(t) & derived:
                other.append(("" if pol else "not ") + unparse(t))
            continue
        if isinstance(t, ast.Compare) and len(t.ops) == 1 and is_strip(t.left) and isinstance(t.comparators[0], ast.Constant) and t.comparators[0].value == "":
            if (isinstance(t.ops[0], ast.NotEq) and pol) or (isinstance(t.ops[0], ast.Eq) and not pol):
                strong.append(unparse(t))
            else:
                other.append(("" if pol else "not ") + unparse(t))
        elif isinstance(t, ast.Call) and isinstance(t.func, ast.Attribute) and t.func.attr == "isspace" and isinstance(t.func.value, ast.Name) and t.func.value.id == X and not pol:
            nonspace = True
        elif isinstance(t, ast.Call) and isinstance(t.func, ast.Attribute) and t.func.attr in ("strip", "lstrip", "rstrip", "split") and not t.args and not t.keywords and isinstance(t.func.value, ast.Name) and t.func.value.id == X:
            (strong if pol else other).append(unparse(t))
        elif isinstance(t, ast.Name):
            (weak if pol else other).append(("" if pol else "not ") + X)
        elif isinstance(t, ast.Call) and dotted(t.func) == "len" and len(t.args) == 1 and isinstance(t.args[0], ast.Name):
            (weak if pol else other).append(("" if pol else "not ") + unparse(t))
        elif isinstance(t, ast.Compare) and len(t.ops) == 1 and isinstance(t.left, ast.Name) and isinstance(t.comparators[0], ast.Constant) and t.comparators[0].value in ("", None):
            neq = isinstance(t.ops[0], (ast.NotEq, ast.IsNot))
            eq = isinstance(t.ops[0], (ast.Eq, ast.Is))
            if (neq and pol) or (eq and not pol):
                weak.append(("" if pol else "not ") + unparse(t))
            else:
                other.append(("" if pol else "not ") + unparse(t))
        elif isinstance(t, ast.Compare) and len(t.ops) == 1 and isinstance(t.left, ast.Call) and dotted(t.left.func) == "len" and isinstance(t.comparators[0], ast.Constant) and ((isinstance(t.ops[0], ast.Gt) and t.comparators[0].value == 0) or (isinstance(t.ops[0], ast.GtE) and t.comparators[0].value == 1)) and pol:
            weak.append(unparse(t))
        else:
            other.append(("" if pol else "not ") + unparse(t))
    if nonspace and weak and not other:
        strong.append(f"{weak[0]} and not {X}.isspace()")  # non-empty and not all whitespace
    elif nonspace:
        other.append(f"not {X}.isspace()")
    if strong:
        rep.ok("C08.R5", k, site, f"guarded by {strong[0]}")
    elif other:
        rep.error("C08.R5", f"{site}: test on the first line not understood: {other[0]}")
    else:
        why = f"only guarded by `{weak[0]}`" if weak else "not guarded by any test on it"
        rep.violation(
            "C08.R5",
            k,
            site,
            f"`{short(st, 40)}` is {why}: a whitespace-only first line is inserted as body line 0 (offset reset), then removed again by the blank-line strip "
            f"(which tests `{BODY}[0].strip()`), so the offset is 1 whatever the option block was and the real separating blank line stays in the body",
        )


@rule("C08.R5")
def r5_body_offset(corpus: Corpus, rep: Report, tier: str):
    rep.rule("C08.R5", "no definition of body_offset combines the line count of a '\\n'.join-ed string with that of another string; the blank-line strip and the offset increment are paired")
    corpus = inlined(corpus)
    m = corpus.mod(MOD)
    entry = m.func("parse_directive_text")
    cfg = get_cfg(entry)
    fields = dataclass_fields(corpus, m.cls("DirectiveParsingResult"))
    for need in ("body", "body_offset"):
        if need not in fields:
            raise AnchorMissing(f"DirectiveParsingResult has no field {need}")
    res = ctor_returns(corpus, entry, "DirectiveParsingResult")
    if len(res) != 1 or len([n for n in entry.local_nodes() if isinstance(n, ast.Return)]) != 1:
        raise Unsupported("parse_directive_text does not have exactly one return constructing DirectiveParsingResult")
    ret, ctor = res[0]
    off_e, body_e = ctor_field(ctor, fields, "body_offset"), ctor_field(ctor, fields, "body")
    if not (isinstance(off_e, ast.Name) and isinstance(body_e, ast.Name)):
        raise Unsupported("body / body_offset of the result are not plain locals")
    OFF, BODY = off_e.id, body_e.id
    rep.saw_function(entry.fq)
    so = StrOrigin(corpus)
    incs: list[tuple[ast.stmt, int]] = []
    unknown_writes: list[ast.stmt] = []
    for st, v in simple_defs(entry, OFF):
        site = m.site(st)
        k = stmt_key(entry, st, 100)
        if isinstance(st, ast.AugAssign):
            if isinstance(st.op, ast.Add) and isinstance(st.value, ast.Constant) and isinstance(st.value.value, int):
                incs.append((st, st.value.value))
            else:
                rep.error("C08.R5", f"{site}: offset update `{short(st, 40)}` not understood")
                unknown_writes.append(st)
            continue
        if v is None:
            rep.error("C08.R5", f"{site}: body offset bound by unpacking")
            continue
        if isinstance(v, ast.BinOp) and isinstance(v.op, ast.Add) and isinstance(v.left, ast.Name) and v.left.id == OFF and isinstance(v.right, ast.Constant) and isinstance(v.right.value, int):
            incs.append((st, v.right.value))  # OFF = OFF + k
            continue
        if isinstance(v, ast.Constant) and isinstance(v.value, int):
            rep.ok("C08.R5", k, site, "constant")
            continue
        binops = [b for b in ast.walk(v) if isinstance(b, ast.BinOp) and isinstance(b.op, (ast.Add, ast.Sub))]
        judged = False
        for b in binops:
            lo, ro = so.count(b.left, entry), so.count(b.right, entry)
            if lo is None or ro is None:
                continue
            judged = True
            if "unknown" in lo or "unknown" in ro:
                rep.error("C08.R5", f"{site}: cannot trace the strings whose lines are counted in `{short(b, 60)}`")
                continue
            tc = sorted(t.split(":", 1)[1] for t in (lo | ro) if t.startswith("terminator-count:"))
            if tc:
                rep.violation(
                    "C08.R5",
                    k,
                    site,
                    f"`{tc[0]}` counts line feeds, not lines: for content whose last line is not terminated (an API caller, the mocked nested parse joining lines with '\\n') it is one less than "
                    "the number of content lines, so the reported body offset is one too small - the count must come from the same line split that produces the body",
                )
                continue
            inexact = sorted(t.split(":", 1)[1] for t in (lo | ro) if t.startswith("inexact-split:"))
            if inexact:
                rep.violation(
                    "C08.R5",
                    k,
                    site,
                    f"`{short(b, 70)}` counts lines produced by a helper that does more than split at line ends ({inexact[0]}): "
                    "the count no longer equals the number of content lines, so the reported offset is wrong whenever the helper drops or adds a piece",
                )
                continue
            lo = {t for t in lo if not t.startswith("inexact-split:")}
            ro = {t for t in ro if not t.startswith("inexact-split:")}
            stale = sorted(t.split(":", 1)[1] for t in (lo | ro) if t.startswith("stale-cache:"))
            if stale:
                rep.violation(
                    "C08.R5",
                    k,
                    site,
                    f"`{short(b, 70)}` counts the lines of a result object that may be read back from a module-level cache whose key does not mention `{', '.join(stale)}`: "
                    "the remaining content of an earlier call with a different value is combined with this call's content, so body and offset belong to different texts",
                )
                continue
            joined = [t for t in (lo | ro) if t.startswith("joined@")]
            if joined and lo != ro:
                rep.violation(
                    "C08.R5",
                    k,
                    site,
                    f"`{short(b, 70)}` combines the line count of one string ({', '.join(sorted(lo))}) with the line count of a string rebuilt by "
                    f"'\\n'.join(...) ({', '.join(sorted(ro))}); join + splitlines drops a trailing empty line, so when the content ends with a blank line "
                    "the difference - reported as body_offset - is one too large",
                )
            else:
                rep.ok("C08.R5", k, site, "line counts of strings that did not pass through a lossy join")
        if not judged:
            if binops or any(isinstance(c, ast.Call) and dotted(c.func) == "len" for c in ast.walk(v)):
                rep.error("C08.R5", f"{site}: offset arithmetic `{short(v, 60)}` not understood")
            elif isinstance(v, (ast.Attribute, ast.Name)):
                rep.ok("C08.R5", k, site, "taken over from the options parser / another local, no line-count arithmetic here")
            else:
                rep.error("C08.R5", f"{site}: offset definition `{short(v, 60)}` not understood")
    # pairing of head changes of the body list with offset writes
    used_incs = set()
    for st in entry.local_nodes():
        if not isinstance(st, ast.stmt):
            continue
        hc = _head_change(st, BODY)
        if hc is None:
            continue
        site = m.site(st)
        if hc[0] == "insert":
            # one line put in front of the body moves every index by one: the offset must go back by one on the same paths
            # (relative to whatever it was: k option lines -> k - 1, no options -> -1), not be reset
            kin = f"{entry.fq}|a line inserted at the head of the body moves the offset back by one"
            decs, resets = [], []
            for w_, v_ in simple_defs(entry, OFF):
                if not control_equivalent(cfg, st, w_):
                    continue
                if isinstance(w_, ast.AugAssign) and isinstance(w_.op, ast.Sub) and isinstance(w_.value, ast.Constant) and w_.value.value == 1:
                    decs.append(w_)
                elif isinstance(w_, ast.AugAssign) and isinstance(w_.op, ast.Add) and isinstance(w_.value, ast.UnaryOp) and isinstance(w_.value.op, ast.USub) and isinstance(w_.value.operand, ast.Constant) and w_.value.operand.value == 1:
                    decs.append(w_)
                elif isinstance(v_, ast.BinOp) and isinstance(v_.op, ast.Sub) and isinstance(v_.left, ast.Name) and v_.left.id == OFF and isinstance(v_.right, ast.Constant) and v_.right.value == 1:
                    decs.append(w_)
                else:
                    resets.append(w_)
            if len(decs) == 1 and not resets:
                rep.ok("C08.R5", kin, site)
            elif resets and not decs:
                rep.violation(
                    "C08.R5",
                    kin,
                    site,
                    f"`{short(st, 40)}` puts the text of the directive line in front of the body, but `{short(resets[0], 40)}` resets the offset instead of moving it back by one: "
                    "body line i is then reported at offset + i although it is content line i - 1 (offset 0 instead of -1; with k option lines 0 instead of k - 1), so nested nodes and warnings "
                    "of the following body lines carry a wrong line",
                )
            elif not decs and not resets:
                rep.violation("C08.R5", kin, site, f"`{short(st, 40)}` puts a line in front of the body without any change of the offset on the same paths: every following body line is reported one line too far down")
            else:
                rep.error("C08.R5", f"{site}: offset writes paired with the head insert not understood")
            x = st.value.args[1]
            if isinstance(x, ast.Name) and x.id in entry.params:
                _judge_merge_guard(rep, entry, cfg, st, x.id, BODY)
            continue
        k = f"{entry.fq}|dropping the leading blank body line is paired with the offset increment"
        if hc[1] is None:
            rep.error("C08.R5", f"{site}: body list re-sliced with a non-constant lower bound")
            continue
        partner = [(i, kk) for i, kk in incs if control_equivalent(cfg, st, i)]
        problems = []
        if any(control_equivalent(cfg, st, u) for u in unknown_writes):
            continue  # already an ANALYSIS-ERROR: an offset write on the same paths was not understood
        if not partner:
            problems.append(f"`{short(st, 40)}` drops {hc[1]} leading body line(s) but no `{OFF} += {hc[1]}` executes on exactly the same paths: the reported offset no longer points at the first body line")
        elif sum(kk for _, kk in partner) != hc[1]:
            problems.append(f"`{short(st, 40)}` drops {hc[1]} line(s) but the offset is advanced by {sum(kk for _, kk in partner)}")
        for i, _ in partner:
            used_incs.add(i)
        if cfg.loops.get(st) is not None:
            problems.append("the strip sits in a loop: more than one leading blank line can be removed (the property allows one)")
        # only a blank first line may be dropped
        blank = False
        unknown_guard = []
        for t, pol in cfg.guards(st):
            if isinstance(t, ast.Call) and isinstance(t.func, ast.Attribute) and t.func.attr == "strip" and not t.args and isinstance(t.func.value, ast.Subscript) and isinstance(t.func.value.value, ast.Name) and t.func.value.value.id == BODY and isinstance(t.func.value.slice, ast.Constant) and t.func.value.slice.value == 0:
                if not pol:
                    blank = True
                else:
                    problems.append("the first body line is dropped when it is NOT blank")
            elif isinstance(t, ast.Name) and t.id == BODY:
                pass
            else:
                unknown_guard.append(unparse(t))
        if not blank and not problems:
            if unknown_guard:
                rep.error("C08.R5", f"{site}: blank-line test not understood: {unknown_guard[0]}")
                continue
            problems.append(f"`{short(st, 40)}` is not guarded by a blank-line test on `{BODY}[0]`: a non-blank first body line is lost")
        if problems:
            rep.violation("C08.R5", k, site, "; ".join(problems))
        else:
            rep.ok("C08.R5", k, site)
    for i, kk in incs:
        if i not in used_incs:
            rep.violation("C08.R5", f"{entry.fq}|offset increment without a dropped body line|{short(i, 40)}", m.site(i), f"`{short(i, 40)}` advances the body offset on paths where no leading body line is dropped")
    # the body list is changed by nothing but the sanctioned leading-blank strip and the first-line merge:
    # any other removal, addition or rewriting of its lines makes it differ from the content lines behind the offset
    for st in entry.local_nodes():
        if not isinstance(st, ast.stmt) or isinstance(st, (ast.If, ast.While, ast.For, ast.Try, ast.With, ast.FunctionDef)):
            continue
        if _head_change(st, BODY) is not None:
            continue
        site = m.site(st)
        k = f"{entry.fq}|the body lines are only changed by the leading-blank strip and the first-line merge|{short(st, 60)}"
        verdict = None  # (kind, text)
        if isinstance(st, (ast.Assign, ast.AnnAssign)) and BODY in [x for t_ in (st.targets if isinstance(st, ast.Assign) else [st.target]) for x in target_names(t_)]:
            v = st.value
            if v is None:
                continue
            lv = so.lines(v, entry) if not isinstance(v, ast.Name) else None
            if lv is not None:
                bad_ = sorted(t.split(":", 1)[1] for t in lv if t.startswith("inexact-split:"))
                if bad_:
                    rep.violation(
                        "C08.R5",
                        f"{entry.fq}|the body lines are split from the content without loss|{short(st, 60)}",
                        site,
                        f"`{short(st, 60)}` builds the body with a helper that does more than split at line ends ({bad_[0]}): the body is not exactly the content lines behind the option block",
                    )
                continue  # (re)definition from a line split of a string: where the body comes from
            if BODY not in names_in(v):
                if isinstance(v, (ast.List, ast.Tuple)) and not v.elts:
                    continue
                verdict = ("error", f"body list rebound to `{short(v, 40)}`")
            elif (isinstance(v, ast.Call) and dotted(v.func) == "list" and len(v.args) == 1 and unparse(v.args[0]) == BODY) or unparse(v) in (f"{BODY}[:]", f"{BODY}.copy()"):
                continue  # plain copy
            elif isinstance(v, ast.Subscript) and isinstance(v.value, ast.Name) and v.value.id == BODY and isinstance(v.slice, ast.Slice) and v.slice.upper is not None:
                verdict = ("bad", f"`{short(st, 50)}` cuts lines off the end of the body")
            elif isinstance(v, (ast.ListComp, ast.GeneratorExp)) or (isinstance(v, ast.Call) and dotted(v.func) in ("list", "filter", "map") and any(isinstance(x, (ast.ListComp, ast.GeneratorExp, ast.Lambda)) or dotted(x) for x in v.args)):
                comp = v if isinstance(v, (ast.ListComp, ast.GeneratorExp)) else next((x for x in v.args if isinstance(x, (ast.ListComp, ast.GeneratorExp))), None)
                if comp is not None and comp.generators and (comp.generators[0].ifs or not (isinstance(comp.elt, ast.Name) and comp.elt.id in target_names(comp.generators[0].target))):
                    verdict = ("bad", f"`{short(st, 50)}` filters or rewrites the body lines")
                elif comp is not None:
                    continue
                else:
                    verdict = ("bad", f"`{short(st, 50)}` filters or rewrites the body lines")
            else:
                verdict = ("error", f"body list rebound to `{short(v, 40)}`")
        elif isinstance(st, ast.AugAssign) and isinstance(st.target, ast.Name) and st.target.id == BODY:
            verdict = ("bad", f"`{short(st, 50)}` adds lines to the body")
        elif isinstance(st, ast.Delete) and any(isinstance(t_, ast.Subscript) and isinstance(t_.value, ast.Name) and t_.value.id == BODY for t_ in st.targets):
            verdict = ("bad", f"`{short(st, 50)}` deletes body lines")
        elif isinstance(st, ast.Assign) and any(isinstance(t_, ast.Subscript) and isinstance(t_.value, ast.Name) and t_.value.id == BODY for t_ in st.targets):
            verdict = ("bad", f"`{short(st, 50)}` overwrites body lines")
        elif isinstance(st, ast.Expr) and isinstance(st.value, ast.Call) and _is_call_on(st.value, BODY, ("pop", "remove", "clear", "append", "extend", "insert", "sort", "reverse")):
            what = {"pop": "removes", "remove": "removes", "clear": "removes", "append": "adds", "extend": "adds", "insert": "adds", "sort": "reorders", "reverse": "reorders"}[st.value.func.attr]
            verdict = ("bad", f"`{short(st, 50)}` {what} body lines")
        if verdict is None:
            continue
        if verdict[0] == "bad":
            rep.violation("C08.R5", k, site, verdict[1] + ": the body is no longer exactly the content lines that follow the option block (minus the one optional leading blank line), and offset + index no longer addresses the same line of the content")
        else:
            rep.error("C08.R5", f"{site}: {verdict[1]} - not understood")
    rep.expect_min("C08.R5", 3, "definitions of the offset local (2 constants + 1 computed on the pinned tree) and the blank-line strip")


# ---------------------------------------------------------------------------
# R6 a regex that cuts the content consumes exactly the delimiter line

MANY = 2  # saturating count


def _re_flags(e: ast.expr | None) -> int:
    import re

    if e is None:
        return 0
    if isinstance(e, ast.BinOp) and isinstance(e.op, ast.BitOr):
        return _re_flags(e.left) | _re_flags(e.right)
    if isinstance(e, ast.Constant) and isinstance(e.value, int):
        return e.value
    d = dotted(e) or ""
    name = d.rsplit(".", 1)[-1]
    if d.startswith("re.") and name.isupper() and isinstance(getattr(re, name, None), re.RegexFlag):
        return int(getattr(re, name))
    raise Unsupported(f"regex flags not understood: {short(e, 40)}")


def _newline_span(pattern: str, flags: int) -> tuple[int, int]:
    """(min, max) number of newline characters a match of ``pattern`` can contain (max saturates at MANY).
    Decided on the parsed regex tree (re._parser), nothing is matched."""
    import re._constants as C
    import re._parser as P

    tree = P.parse(pattern, flags)
    dotall = bool(tree.state.flags & re_flag("DOTALL"))

    def in_set(items) -> bool:
        neg = False
        hit = False
        for op, av in items:
            if op is C.NEGATE:
                neg = True
            elif op is C.LITERAL:
                hit |= av == 10
            elif op is C.RANGE:
                hit |= av[0] <= 10 <= av[1]
            elif op is C.CATEGORY:
                hit |= av in (C.CATEGORY_SPACE, C.CATEGORY_NOT_DIGIT, C.CATEGORY_NOT_WORD, C.CATEGORY_LINEBREAK)
            else:
                raise Unsupported(f"regex set item {op}")
        return hit != neg

    def seq(items) -> tuple[int, int]:
        lo = hi = 0
        for op, av in items:
            a, b = node(op, av)
            lo, hi = min(MANY, lo + a), min(MANY, hi + b)
        return lo, hi

    def node(op, av) -> tuple[int, int]:
        if op is C.LITERAL:
            return (1, 1) if av == 10 else (0, 0)
        if op is C.NOT_LITERAL:
            return (0, 1) if av != 10 else (0, 0)
        if op is C.ANY:
            return (0, 1) if dotall else (0, 0)
        if op is C.IN:
            return (0, 1) if in_set(av) else (0, 0)
        if op is C.CATEGORY:
            return (0, 1) if in_set([(op, av)]) else (0, 0)
        if op is C.AT:
            return (0, 0)
        if op in (C.ASSERT, C.ASSERT_NOT):
            return (0, 0)  # look-around consumes nothing
        if op is C.SUBPATTERN:
            return seq(av[-1])
        if op is getattr(C, "ATOMIC_GROUP", object()):
            return seq(av)
        if op is C.BRANCH:
            spans = [seq(x) for x in av[1]]
            return min(a for a, _ in spans), max(b for _, b in spans)
        if op in (C.MAX_REPEAT, C.MIN_REPEAT) or op is getattr(C, "POSSESSIVE_REPEAT", object()):
            lo_n, hi_n, sub = av
            a, b = seq(sub)
            lo = min(MANY, a * lo_n)
            hi = 0 if b == 0 else (MANY if (hi_n is C.MAXREPEAT or hi_n * b >= MANY) else hi_n * b)
            return lo, hi
        raise Unsupported(f"regex construct {op} not modelled")

    return seq(tree.data)


def _whole_line_regex(pattern: str, flags: int, anchored_start: bool = False):
    """True: starts at a line start (^, or ``anchored_start`` for re.match on the text) and ends at a line end ($ under MULTILINE /
    at the end of the text, a literal newline, or an alternative of these), with nothing but blank classes between the dash
    marker and that end; False: provably not; None: not decided."""
    import re._constants as C
    import re._parser as P

    try:
        tree = P.parse(pattern, flags)
    except Exception:
        return None
    items = list(tree.data)
    multiline = bool(tree.state.flags & re_flag("MULTILINE"))
    if not items:
        return None
    if items[0][0] is C.AT and items[0][1] in (C.AT_BEGINNING, C.AT_BEGINNING_STRING):
        items = items[1:]
    elif not anchored_start:
        return False
    if not items:
        return None

    def line_end(op, av) -> bool:
        if op is C.LITERAL:
            return av == 10
        if op is C.AT:
            return (av is C.AT_END and (multiline or anchored_start)) or av is C.AT_END_STRING
        if op is C.BRANCH:
            return all(len(alt) == 1 and line_end(*alt[0]) for alt in av[1])
        if op is C.SUBPATTERN:
            return len(av[-1]) == 1 and line_end(*av[-1][0])
        return False

    if not line_end(*items[-1]):
        return False
    items = [None] + list(items)  # keep the index arithmetic of the walk below

    def blank(op, av) -> bool:
        if op is C.LITERAL:
            return chr(av) in " \t\r"
        if op is C.IN:
            return all(o is C.LITERAL and chr(a) in " \t\r\f\v" for o, a in av)
        if op in (C.MAX_REPEAT, C.MIN_REPEAT):
            return all(blank(o, a) for o, a in av[2])
        return False

    def dashes(op, av) -> bool:
        if op is C.LITERAL:
            return chr(av) == "-"
        if op in (C.MAX_REPEAT, C.MIN_REPEAT):
            return all(dashes(o, a) for o, a in av[2])
        return False

    # walk back from the end over blank items; what precedes must be the dash marker, and nothing else may stand in between
    i = len(items) - 2
    while i > 0 and blank(*items[i]):
        i -= 1
    if i < 1:
        return None
    return all(dashes(*items[j]) for j in range(1, i + 1))


def re_flag(name: str) -> int:
    import re

    return int(getattr(re, name))


RE_FUNCS = ("search", "match", "fullmatch", "finditer", "compile", "split", "sub")


@rule("C08.R6")
def r6_delimiter_regex(corpus: Corpus, rep: Report, tier: str):
    rep.rule("C08.R6", "a regex whose match position cuts the directive content consumes a fixed number of line terminators, and pattern + slice skip exactly one")
    vm = validation_machinery(corpus)
    corpus = vm.corpus
    f, m = vm.f, vm.f.module
    n = 0
    for call in f.local_nodes():
        if not (isinstance(call, ast.Call) and m.resolve(dotted(call.func) or "").startswith("re.") and (dotted(call.func) or "").rsplit(".", 1)[-1] in RE_FUNCS):
            continue
        n += 1
        site = m.site(call)
        fname = dotted(call.func).rsplit(".", 1)[-1]
        pat = call.args[0] if call.args else None
        if isinstance(pat, ast.Name):
            pat = single_value(f, pat.id) or (m.const_nodes.get(pat.id) if pat.id in m.const_nodes else None)
        if not (isinstance(pat, ast.Constant) and isinstance(pat.value, str)):
            rep.error("C08.R6", f"{site}: regex pattern is not a string literal")
            continue
        flag_e = None
        if fname in ("search", "match", "fullmatch", "finditer") and len(call.args) > 2:
            flag_e = call.args[2]
        elif fname == "compile" and len(call.args) > 1:
            flag_e = call.args[1]
        for kw in call.keywords:
            if kw.arg == "flags":
                flag_e = kw.value
        lo, hi = _newline_span(pat.value, _re_flags(flag_e))
        k = f"{f.fq}|delimiter regex consumes a fixed number of line terminators"
        st0 = _stmt(call)
        bound0 = isinstance(st0, ast.Assign) and len(st0.targets) == 1 and isinstance(st0.targets[0], ast.Name) and st0.value is call
        if not bound0 and fname in ("match", "fullmatch", "search") and isinstance(st0, (ast.If, ast.While)):
            # only tested, never used to cut: how many line ends the match spans is irrelevant
            rep.ok("C08.R6", f"{f.fq}|regex used as a test only|{pat.value}", site, "the match object is not kept: nothing is cut at its position")
            continue
        if lo != hi and hi < MANY:
            rep.error("C08.R6", f"{site}: the pattern {pat.value!r} may or may not consume one newline; whether it does depends on the input")
            continue
        if lo != hi:
            rep.violation(
                "C08.R6",
                k,
                site,
                f"the pattern {pat.value!r} can match between {lo} and {'2 or more' if hi >= MANY else hi} newline characters: where it is followed by blank lines the match swallows them, "
                "so content lines after the option block are lost from the body (and the offset no longer points at the first body line)",
            )
            continue
        # the slices taken at the match end: pattern newlines + constant skip == exactly one terminator
        st = _stmt(call)
        mname = st.targets[0].id if isinstance(st, ast.Assign) and len(st.targets) == 1 and isinstance(st.targets[0], ast.Name) and st.value is call else None
        judged = False
        if mname is not None:
            for sub in f.local_nodes():
                if not (isinstance(sub, ast.Subscript) and isinstance(sub.slice, ast.Slice) and sub.slice.lower is not None and sub.slice.upper is None):
                    continue
                lw = sub.slice.lower
                skip = None
                if isinstance(lw, ast.Call) and unparse(lw) == f"{mname}.end()":
                    skip = 0
                elif isinstance(lw, ast.BinOp) and isinstance(lw.op, ast.Add) and unparse(lw.left) == f"{mname}.end()" and isinstance(lw.right, ast.Constant) and isinstance(lw.right.value, int):
                    skip = lw.right.value
                elif mname in names_in(lw):
                    rep.error("C08.R6", f"{m.site(sub)}: slice at the match end not understood: {short(lw, 40)}")
                    judged = True
                    continue
                if skip is None:
                    continue
                judged = True
                k2 = f"{f.fq}|the remaining content starts right after the delimiter line"
                if lo + skip == 1:
                    rep.ok("C08.R6", k2, m.site(sub), f"pattern consumes {lo} newline(s), slice skips {skip}")
                else:
                    rep.violation(
                        "C08.R6",
                        k2,
                        m.site(sub),
                        f"`{short(sub, 50)}`: the pattern consumes {lo} line terminator(s) and the slice skips {skip} more character(s); exactly one terminator must be skipped - "
                        + ("the delimiter's own newline stays in front of the body as a phantom blank line (it uses up the one optional blank-line strip)" if lo + skip == 0 else "characters of the first body line are cut off"),
                    )
        if judged:
            # a regex whose match cuts the content must match a whole line: anchored at a line start, and after the marker
            # only blanks up to the line end - otherwise a longer line is split and its rest leaks into the body
            k3 = f"{f.fq}|delimiter regex matches a whole line"
            whole = _whole_line_regex(pat.value, _re_flags(flag_e))
            if whole is True:
                rep.ok("C08.R6", k3, site, f"{pat.value!r}")
            elif whole is False:
                rep.violation(
                    "C08.R6",
                    k3,
                    site,
                    f"the pattern {pat.value!r} is not anchored at the end of its line (only blanks may follow the marker up to the line end): it also matches a prefix of a longer line "
                    "(a closing '---xy', '--- ' with trailing blanks), whose remaining characters are then cut off or rendered as body text, and the offset no longer addresses a content line",
                )
            else:
                rep.error("C08.R6", f"{site}: cannot decide whether {pat.value!r} matches whole lines only")
        if judged or mname is None:
            rep.ok("C08.R6", k, site, f"{pat.value!r}: exactly {lo} newline(s)")
        else:
            rep.ok("C08.R6", k, site, f"{pat.value!r}: exactly {lo} newline(s); match end not used for slicing")
    if n == 0:
        rep.ok("C08.R6", f"{f.fq}|no regex cuts the content", f.site(), "option block located without regular expressions")
    rep.expect_min("C08.R6", 1, "the closing-delimiter search of the --- style (or the statement that there is none)")


RULES = [r1_failure_mode, r2_priority, r3_argument_counts, r4_one_validation_path, r5_body_offset, r6_delimiter_regex]


# ---------------------------------------------------------------------------
# mutants of the current tree


def _byte_offset(src: str, node: ast.AST) -> int:
    lines = src.splitlines(keepends=True)
    return sum(len(l.encode("utf8")) for l in lines[: node.lineno - 1]) + node.col_offset


def segment_at(src: str, node: ast.AST, n: int) -> str:
    o = _byte_offset(src, node)
    return src.encode("utf8")[o : o + n].decode("utf8")


def splice_at(src: str, node: ast.AST, n: int, new: str) -> str:
    """Replace the first ``n`` bytes of ``node``'s source (e.g. the keyword ``elif``) by ``new``."""
    o = _byte_offset(src, node)
    b = src.encode("utf8")
    return (b[:o] + new.encode("utf8") + b[o + n :]).decode("utf8")


def ft_stmt_of_options_call(corpus: Corpus, ft: FunctionInfo):
    vm = validation_machinery(corpus)
    return get_cfg(vm.entry).stmt_of(vm.options_call) if vm.entry.fq == ft.fq and vm.corpus is corpus else None


def _rename_local(f: FunctionInfo, old: str, new: str) -> str:
    """Source of the module with local ``old`` of function ``f`` renamed (behaviour-preserving)."""
    src = f.module.src
    nodes = sorted((n for n in f.local_nodes() if isinstance(n, ast.Name) and n.id == old), key=lambda n: (n.lineno, n.col_offset), reverse=True)
    for n in nodes:
        src = splice(src, n, new)
    return src


def mutants(corpus: Corpus):
    out: list = []
    m = corpus.mod(MOD)
    rel = m.rel
    src = m.src
    fo = m.func("_parse_directive_options")
    fa = m.func("parse_directive_arguments")
    ft = m.func("parse_directive_text")
    base = corpus.mod("mdit_to_docutils.base")

    def add(mid, rule_id, new_src, expect, canary=False, rel_=rel, note=""):
        if new_src is None:
            out.append((mid, "construct not found on this tree"))
        else:
            out.append(Mutant(mid, rule_id, rel_, new_src, expect=expect, canary=canary, note=note))

    # ---- R1 -------------------------------------------------------------------
    conv_try = find_node(fo, lambda n: isinstance(n, ast.Try) and any(isinstance(c, ast.Call) and isinstance(c.func, ast.Name) and c.func.id == "converter" for b in n.body for c in ast.walk(b)))
    # F19 reverted: converter under (ValueError, TypeError)
    add("c08-converter-handler-narrowed", "C08.R1", splice(src, conv_try.handlers[0].type, "(ValueError, TypeError)") if conv_try is not None and conv_try.handlers[0].type is not None else None, "converter(value)", canary=True, note="reverts 608b65b (F19)")
    # same defect after a behaviour-preserving rename of the local (the engine's special edge is keyed by the name)
    if conv_try is not None and conv_try.handlers[0].type is not None:
        ren = _rename_local(fo, "converter", "conv")
        m2 = ast.parse(ren)
        # recompute the handler position in the renamed source
        h = None
        for n in ast.walk(m2):
            if isinstance(n, ast.Try) and any(isinstance(c, ast.Call) and isinstance(c.func, ast.Name) and c.func.id == "conv" for b in n.body for c in ast.walk(b)):
                h = n.handlers[0]
        add("c08-converter-renamed-handler-narrowed", "C08.R1", splice(ren, h.type, "(ValueError, TypeError)") if h is not None else None, "foreign converter call")
    else:
        out.append(("c08-converter-renamed-handler-narrowed", "converter try not found"))
    h = find_node(fo, lambda n: isinstance(n, ast.ExceptHandler) and n.type is not None and "TokenizeError" in unparse(n.type))
    add("c08-tokenize-handler-narrowed", "C08.R1", splice(src, h.type, "UnicodeError") if h is not None else None, "TokenizeError")
    h = find_node(fo, lambda n: isinstance(n, ast.ExceptHandler) and n.type is not None and "YAMLError" in unparse(n.type))
    add("c08-yaml-handler-narrowed", "C08.R1", splice(src, h.type, "(yaml.parser.ParserError, yaml.scanner.ScannerError)") if h is not None else None, "yaml.safe_load", note="reverts 03ebca6 (F2, as_yaml part)")
    om = corpus.mod("parsers.options")
    f = om.func("_scan_flow_scalar_non_spaces")
    iff = find_node(f, lambda n: isinstance(n, ast.If) and unparse(n.test).startswith("code >"))
    add("c08-chr-range-check-dropped", "C08.R1", splice(om.src, iff.test, "False") if iff is not None else None, "chr(code)", rel_=om.rel, note="reverts 81f388a (F1)")
    # validate-before-consume: the escape's characters are skipped before the loop that proves them to be hex digits
    hx = find_node(f, lambda n: isinstance(n, ast.For) and isinstance(n.iter, ast.Call) and unparse(n.iter.func) == "range" and any(isinstance(x, ast.Raise) for x in ast.walk(n))) if (f := om.func("_scan_flow_scalar_non_spaces")) else None
    fw = None
    if hx is not None and block_of(hx) is not None:
        blk_ = block_of(hx)
        fw = next((st_ for st_ in blk_[blk_.index(hx) + 1 :] if isinstance(st_, ast.Expr) and isinstance(st_.value, ast.Call) and unparse(st_.value.func).endswith(".forward") and st_.value.args and unparse(st_.value.args[0]) == unparse(hx.iter.args[0])), None)
    if fw is not None:
        moved = splice(om.src, fw, "pass")
        moved = splice(moved, hx, ast.get_source_segment(om.src, fw) + "\n" + indent_of(f, hx) + ast.get_source_segment(om.src, hx))
        add("c08-escape-consumed-before-validation", "C08.R1", moved, "IndexError", rel_=om.rel)
    else:
        out.append(("c08-escape-consumed-before-validation", "hex validation loop / forward(length) not found"))
    raises = sorted((n for n in fa.local_nodes() if isinstance(n, ast.Raise) and isinstance(n.exc, ast.Call) and unparse(n.exc.func) == "MarkupError"), key=lambda n: n.lineno)
    add("c08-too-many-raises-valueerror", "C08.R1", splice(src, raises[-1].exc.func, "ValueError") if raises else None, "ValueError")

    # ---- R2 -------------------------------------------------------------------
    mg = find_node(fo, lambda n: isinstance(n, ast.Assign) and isinstance(n.value, ast.Dict) and n.value.keys and all(k is None for k in n.value.keys) and len(n.value.values) == 2)
    if mg is not None:
        a, b = (unparse(v) for v in mg.value.values)
        add("c08-merge-operands-swapped", "C08.R2", splice(src, mg.value, "{**%s, **%s}" % (b, a)), "merge of additional options", canary=True)
        add("c08-merge-by-update-additional-last", "C08.R2", splice(src, mg, f"{b} = dict({b})\n{indent_of(fo, mg)}{b}.update({a})"), "merge of additional options")
    else:
        out.append(("c08-merge-operands-swapped", "merge `{**a, **b}` not found"))

    def drop_kw(fi: FunctionInfo, callee_name: str, kw: str):
        for c in fi.local_nodes():
            if isinstance(c, ast.Call) and (dotted(c.func) or "").split(".")[-1] == callee_name:
                for k in c.keywords:
                    if k.arg == kw:
                        seg = ast.get_source_segment(fi.module.src, c)
                        inner = ast.get_source_segment(fi.module.src, k.value)
                        # replace the value by None (keeps layout; same effect as dropping the keyword)
                        return splice(fi.module.src, k.value, "None")
        return None

    add("c08-additional-not-forwarded-to-options-parser", "C08.R2", drop_kw(ft, "_parse_directive_options", "additional_options"), "never read in parse_directive_text")
    add("c08-additional-not-forwarded-by-run-directive", "C08.R2", drop_kw(base.func("DocutilsRenderer.run_directive"), "parse_directive_text", "additional_options"), "run_directive", rel_=base.rel)
    add("c08-additional-not-forwarded-by-render-directive", "C08.R2", drop_kw(base.func("DocutilsRenderer.render_directive"), "run_directive", "additional_options"), "render_directive", rel_=base.rel)

    # ---- R3 -------------------------------------------------------------------
    cmps = sorted((n for n in fa.local_nodes() if isinstance(n, ast.Compare) and isinstance(parent(n), ast.If)), key=lambda n: n.lineno)
    few = next((c for c in cmps if isinstance(c.ops[0], ast.Lt)), None)
    many = next((c for c in cmps if isinstance(c.ops[0], ast.Gt)), None)
    add("c08-too-few-boundary", "C08.R3", splice(src, few, f"{unparse(few.left)} <= {unparse(few.comparators[0])}") if few is not None else None, "fewer arguments than required", canary=True)
    add("c08-too-many-boundary", "C08.R3", splice(src, many, f"{unparse(many.left)} >= {unparse(many.comparators[0])}") if many is not None else None, "more arguments than required+optional")
    add("c08-too-many-ignores-optional", "C08.R3", splice(src, many, f"{unparse(many.left)} > required") if many is not None else None, "more arguments than required+optional")
    rs = find_node(fa, lambda n: isinstance(n, ast.Call) and isinstance(n.func, ast.Attribute) and n.func.attr == "split" and len(n.args) == 2)
    add("c08-resplit-maxsplit-off-by-one", "C08.R3", splice(src, rs.args[1], "required + optional") if rs is not None else None, "re-split")
    fw = find_node(fa, lambda n: isinstance(n, ast.If) and isinstance(n.test, ast.Attribute) and n.test.attr == FAW)
    add("c08-final-argument-whitespace-inverted", "C08.R3", splice(src, fw.test, f"not {unparse(fw.test)}") if fw is not None else None, "final_argument_whitespace")
    na = find_node(ft, lambda n: isinstance(n, ast.BoolOp) and isinstance(n.op, ast.Or) and "required_arguments" in unparse(n) and "optional_arguments" in unparse(n))
    add("c08-no-arguments-test-and", "C08.R3", splice(src, na, " and ".join(unparse(v) for v in na.values)) if na is not None else None, "enforced unless the directive declares no arguments")

    # ---- R4 -------------------------------------------------------------------
    if conv_try is not None:
        hb = conv_try.handlers[0].body[-1]
        seg = ast.get_source_segment(src, hb)
        add("c08-invalid-value-kept-raw", "C08.R4", splice(src, hb, seg + f"\n{indent_of(fo, hb)}new_options[name] = value"), "failed-conversion path stores nothing", canary=True)
    else:
        out.append(("c08-invalid-value-kept-raw", "converter try not found"))
    ua = find_node(fo, lambda n: isinstance(n, ast.Expr) and isinstance(n.value, ast.Call) and unparse(n.value.func) == "unknown_options.append")
    add("c08-unknown-option-silently-dropped", "C08.R4", splice(src, ua, "pass") if ua is not None else None, "unknown-option path reports exactly once")
    dd = find_node(fo, lambda n: isinstance(n, ast.Assign) and isinstance(n.value, ast.Call) and unparse(n.value.func) == "dedent")
    add("c08-yaml-block-style-forces-yaml-path", "C08.R4", splice(src, dd, ast.get_source_segment(src, dd) + f"\n{indent_of(fo, dd)}as_yaml = True") if dd is not None else None, "`as_yaml`")
    def is_line_join(v: ast.AST) -> bool:
        return isinstance(v, ast.Call) and isinstance(v.func, ast.Attribute) and v.func.attr == "join" and isinstance(v.func.value, ast.Constant)

    cj = find_node(fo, lambda n: isinstance(n, ast.Assign) and unparse(n.targets[0]) == "content" and is_line_join(n.value) and "content_lines" in names_in(n.value))
    add("c08-colon-style-option-lines-leak", "C08.R4", splice(src, cj, "pass") if cj is not None else None, "removes the option lines")
    # the tokenizer-error return hands back unvalidated defaults (class: a return path carries options that bypassed the validation loop)
    th = find_node(fo, lambda n: isinstance(n, ast.ExceptHandler) and n.type is not None and "TokenizeError" in unparse(n.type))
    tret = next((x for x in ast.walk(th) if isinstance(x, ast.Return) and isinstance(x.value, ast.Call)), None) if th is not None else None
    # d2d064f reverted (1): the tokenizer-error path returns before the defaults are merged; and a variant handing them back raw
    if th is not None and tret is None:
        hl = th.body[-1]
        indh = indent_of(fo, hl)
        segh = ast.get_source_segment(src, hl)
        add("c08-tokenize-error-returns-before-merge", "C08.R2", splice(src, hl, segh + f"\n{indh}return _DirectiveOptions(content, {{}}, validation_errors, has_options_block)"), "applied or their loss is reported", note="reverts d2d064f (tokenizer-error part)")
        add("c08-tokenize-error-returns-raw-defaults", "C08.R4", splice(src, hl, segh + f"\n{indh}return _DirectiveOptions(content, dict(additional_options or {{}}), validation_errors, has_options_block)"), "returned options are validated")
    else:
        out.append(("c08-tokenize-error-returns-before-merge", "TokenizeError handler not found / already returns"))
    # d2d064f reverted (2): the validate_options=False path no longer merges the defaults
    ym = find_node(fo, lambda n: isinstance(n, ast.If) and len(n.body) == 1 and isinstance(n.body[0], ast.Assign) and isinstance(n.body[0].value, ast.Dict) and n.body[0].value.keys and all(k_ is None for k_ in n.body[0].value.keys) and "yaml" in unparse(n.body[0].targets[0]))
    add("c08-yaml-path-drops-defaults", "C08.R2", splice(src, ym, "pass") if ym is not None else None, "applied or their loss is reported", note="reverts d2d064f (as_yaml part)")
    # e7c3f33 reverted: no option_spec -> the defaults vanish without a warning
    ew = find_node(ft, lambda n: isinstance(n, ast.If) and isinstance(n.test, ast.Name) and n.test.id == "additional_options" and any(isinstance(c, ast.Call) and unparse(c.func).endswith(".append") for c in ast.walk(n)))
    add("c08-no-spec-defaults-dropped-silently", "C08.R2", splice(src, ew, "pass") if ew is not None else None, "handed to the option parser or their loss is reported", note="reverts e7c3f33")
    # 7a2b3de reverted: the ':' style joins the option lines with a separator (last line unterminated)
    yj = find_node(fo, lambda n: isinstance(n, ast.Assign) and unparse(n.targets[0]) == "options_block" and is_line_join(n.value) and "yaml_lines" in names_in(n.value))
    add("c08-colon-block-unterminated", "C08.R4", splice(src, yj.value, '"\\n".join(yaml_lines)') if yj is not None else None, "terminate the lines of the block text alike", note="reverts 7a2b3de")
    # eb03501 reverted: white space of every kind is skipped when recognising the ':' style
    def style_of_test(t_: ast.AST) -> str | None:
        for c_ in ast.walk(t_):
            rc_ = _regex_call(c_, fo)
            if rc_ is not None and _regex_first_char_style(rc_[0]):
                return _regex_first_char_style(rc_[0])
            if isinstance(c_, ast.Call) and isinstance(c_.func, ast.Attribute) and c_.func.attr == "startswith" and c_.args and isinstance(c_.args[0], ast.Constant) and c_.args[0].value in ("---", ":"):
                return c_.args[0].value
        return None

    cm = find_node(fo, lambda n: isinstance(n, ast.If) and isinstance(n.test, ast.Call) and unparse(n.test.func) == "re.match" and len(n.test.args) == 2 and style_of_test(n.test) == ":")
    if cm is not None:
        subj = unparse(cm.test.args[1])
        add("c08-colon-style-detected-with-lstrip", "C08.R4", splice(src, cm.test, f'{subj}.lstrip().startswith(":") and not {subj}.lstrip().startswith(":::")'), "skips only spaces and tabs", note="reverts eb03501 (whole content)")
    else:
        out.append(("c08-colon-style-detected-with-lstrip", "regex test of the ':' style not found"))
    ls = find_node(fo, lambda n: isinstance(n, ast.Call) and isinstance(n.func, ast.Attribute) and n.func.attr == "lstrip" and len(n.args) == 1 and isinstance(n.args[0], ast.Constant) and "content_lines" in unparse(n.func.value))
    add("c08-option-line-lstrip-all-whitespace", "C08.R4", splice(src, ls, unparse(ls.func) + "()") if ls is not None else None, "skips only spaces and tabs", note="reverts eb03501 (per line)")
    stv = find_node(fo, lambda n: isinstance(n, ast.Assign) and isinstance(n.targets[0], ast.Subscript) and unparse(n.targets[0].value) == "new_options")
    add("c08-raw-value-stored", "C08.R4", splice(src, stv.value, "value") if stv is not None else None, "converted value")
    # tokenising moved into one style branch: the ':' branch parses eagerly, the shared call is skipped for it
    ob = find_node(fo, lambda n: isinstance(n, ast.Assign) and unparse(n.targets[0]) == "options_block" and "yaml_lines" in unparse(n.value))
    if ob is not None:
        ind = indent_of(fo, ob)
        add(
            "c08-colon-style-own-warning",
            "C08.R4",
            splice(src, ob, ast.get_source_segment(src, ob) + f"\n{ind}if not yaml_lines[-1].strip():\n{ind}    return _DirectiveOptions(content, {{}}, [ParseWarnings('empty option', line)], True)"),
            "warning object",
        )
    else:
        out.append(("c08-colon-style-own-warning", "':' branch assignment not found"))

    # ---- R5 -------------------------------------------------------------------
    inc = find_node(ft, lambda n: isinstance(n, ast.AugAssign) and isinstance(n.op, ast.Add) and unparse(n.target) == "content_offset")
    strip_if = parent(inc) if inc is not None else None
    if inc is not None and isinstance(strip_if, ast.If):
        drop = strip_if.body[0]
        ind_if = indent_of(ft, strip_if)
        seg_if = ast.get_source_segment(src, strip_if)
        # increment moved out of the guarded block (executes unconditionally)
        new_if = f"if {ast.get_source_segment(src, strip_if.test)}:\n{indent_of(ft, drop)}{ast.get_source_segment(src, drop)}\n{ind_if}{ast.get_source_segment(src, inc)}"
        add("c08-offset-increment-unconditional", "C08.R5", splice(src, strip_if, new_if), "paired with the offset increment")
        add("c08-offset-increment-deleted", "C08.R5", splice(src, inc, "pass"), "paired with the offset increment")
        add("c08-strip-all-leading-blank-lines", "C08.R5", splice(src, strip_if, "while" + seg_if[2:]), "paired with the offset increment")
        add("c08-strip-first-line-unconditionally", "C08.R5", splice(src, strip_if.test, "body_lines"), "paired with the offset increment")
    else:
        out.append(("c08-offset-increment-unconditional", "blank-line strip not found"))
    # 2629f06 (F12) reverted, one branch at a time: the remaining content rebuilt with a lossy "\n".join
    dj = find_node(fo, lambda n: isinstance(n, ast.Assign) and unparse(n.targets[0]) == "content" and is_line_join(n.value) and n.value.args and isinstance(n.value.args[0], (ast.GeneratorExp, ast.ListComp)) and "content_lines" not in names_in(n.value))
    for mid, node in (("c08-lossy-join-colon-style", cj), ("c08-lossy-join-dash-style", dj)):
        if node is not None and isinstance(node.value.args[0], (ast.GeneratorExp, ast.ListComp)):
            it = node.value.args[0].generators[0].iter
            add(mid, "C08.R5", splice(src, node.value, f'"\\n".join({ast.get_source_segment(src, it)})'), "|content_offset = len(", note="reverts 2629f06 (F12)")
        else:
            out.append((mid, "terminated-lines join not found"))
    # the first-line merge guarded by a test that a whitespace-only line passes
    ins = find_node(ft, lambda n: isinstance(n, ast.Expr) and _head_change(n, "body_lines") == ("insert", None))
    mg_if = None
    if ins is not None:
        for a in ancestors(ins):
            if isinstance(a, ast.If) and any(isinstance(c, ast.Call) and isinstance(c.func, ast.Attribute) and c.func.attr == "strip" for c in ast.walk(a.test)) and "first_line" in names_in(a.test):
                mg_if = a
                break
    for mid, txt in (("c08-first-line-truthiness", "first_line"), ("c08-first-line-not-none", "first_line is not None"), ("c08-first-line-len", "len(first_line) > 0")):
        add(mid, "C08.R5", splice(src, mg_if.test, txt) if mg_if is not None else None, "merged into the body only when it is not blank")
    z = sorted((n for n in ft.local_nodes() if isinstance(n, ast.Assign) and unparse(n.targets[0]) == "content_offset" and isinstance(n.value, ast.Constant)), key=lambda n: n.lineno)
    add(
        "c08-lossy-count-in-no-option-branch",
        "C08.R5",
        splice(src, z[0].value, "len(content.splitlines()) - len('\\n'.join(body_lines).splitlines())") if z else None,
        "content_offset = len(content.splitlines()) - len('\\n'.join(body_lines).splitlines())",
    )
    # ---- class: behind the priority merge a default re-enters under another key (R2)
    if mg is not None:
        ind = indent_of(fo, mg)
        seg = ast.get_source_segment(src, mg)
        mname = unparse(mg.targets[0])
        addn = next((unparse(v) for v in mg.value.values if unparse(v) != mname), "additional_options")
        add("c08-id-renamed-to-name-after-merge", "C08.R2", splice(src, mg, seg + f'\n{ind}if "id" in {mname}:\n{ind}    {mname}["name"] = {mname}.pop("id")'), "behind the merge keeps block options")
        add("c08-default-copied-under-other-key-after-merge", "C08.R2", splice(src, mg, seg + f'\n{ind}if "id" in {addn}:\n{ind}    {mname}["name"] = {addn}["id"]'), "behind the merge keeps block options")
        add("c08-defaults-reapplied-by-loop-after-merge", "C08.R2", splice(src, mg, seg + f"\n{ind}for _k, _v in {addn}.items():\n{ind}    {mname}[_k] = _v"), "merge of additional options")
    else:
        out.append(("c08-id-renamed-to-name-after-merge", "merge not found"))
    # ---- class: near-synonym lookups that bypass the option_spec mapping's __getitem__ (R4)
    ltry = find_node(fo, lambda n: isinstance(n, ast.Try) and len(n.body) == 1 and isinstance(n.body[0], ast.Assign) and isinstance(n.body[0].value, ast.Subscript) and "option" in unparse(n.body[0].value.value) and any("KeyError" in unparse(h.type) for h in n.handlers if h.type is not None))
    if ltry is not None:
        ind = indent_of(fo, ltry)
        asg = ltry.body[0]
        tgt_, spec_, key_ = unparse(asg.targets[0]), unparse(asg.value.value), unparse(asg.value.slice)
        hbody = "\n".join(f"{ind}    " + ast.get_source_segment(src, x) for x in ltry.handlers[0].body)
        add("c08-spec-lookup-by-get", "C08.R4", splice(src, ltry, f"{tgt_} = {spec_}.get({key_})\n{ind}if {tgt_} is None:\n{hbody}"), "converter is option_spec")
        add("c08-spec-lookup-by-membership", "C08.R4", splice(src, ltry, f"if {key_} not in {spec_}:\n{hbody}\n{ind}{tgt_} = {spec_}[{key_}]"), "converter is option_spec")
    else:
        out.append(("c08-spec-lookup-by-get", "try/except KeyError around the spec lookup not found"))
    # ---- class: key-by-key merge guarded by the value's truthiness instead of the key's absence (R2)
    if mg is not None:
        ind = indent_of(fo, mg)
        mname = unparse(mg.targets[0])
        addn = next((unparse(v) for v in mg.value.values if unparse(v) != mname), "additional_options")
        add("c08-merge-loop-truthiness-guard", "C08.R2", splice(src, mg, f"for _k, _v in {addn}.items():\n{ind}    if not {mname}.get(_k):\n{ind}        {mname}[_k] = _v"), "merge of additional options")
        mif = parent(mg)
        if isinstance(mif, ast.If) and mif.body == [mg] and not mif.orelse:
            add("c08-defaults-only-without-block-options", "C08.R2", splice(src, mif, f"if {ast.get_source_segment(src, mif.test)} and not {mname}:\n{ind}{mname} = dict({addn})"), "applied or their loss is reported")
        else:
            out.append(("c08-defaults-only-without-block-options", "merge is not the only statement of an if"))
    # ---- class: body lines removed / rewritten beyond the one leading blank line (R5)
    if inc is not None and isinstance(strip_if, ast.If):
        ind_if = indent_of(ft, strip_if)
        seg_if = ast.get_source_segment(src, strip_if)
        add("c08-trailing-blank-lines-popped", "C08.R5", splice(src, strip_if, seg_if + f"\n{ind_if}while body_lines and not body_lines[-1].strip():\n{ind_if}    body_lines.pop()"), "only changed by the leading-blank strip")
        add("c08-trailing-blank-line-sliced", "C08.R5", splice(src, strip_if, seg_if + f"\n{ind_if}if body_lines and not body_lines[-1].strip():\n{ind_if}    body_lines = body_lines[:-1]"), "only changed by the leading-blank strip")
        add("c08-blank-lines-filtered", "C08.R5", splice(src, strip_if, seg_if + f"\n{ind_if}body_lines = [ln for ln in body_lines if ln.strip()]"), "only changed by the leading-blank strip")
    # ---- dc138d8: the opening '---' delimiter is a whole line - revert and partial weakenings
    dm = find_node(fo, lambda n: isinstance(n, ast.If) and style_of_test(n.test) == "---" and isinstance(n.test, ast.Call) and n.test.args and isinstance(n.test.args[0], ast.Constant))
    if dm is not None:
        subj = unparse(dm.test.args[1])
        add("c08-opening-delimiter-by-prefix", "C08.R4", splice(src, dm.test, f'{subj}.startswith("---")'), "opening '---' delimiter is a whole line", note="reverts dc138d8")
        add("c08-opening-delimiter-without-line-end", "C08.R4", splice(src, dm.test.args[0], 'r"-{3,}[ \\t\\r]*"'), "opening '---' delimiter is a whole line", note="weakens dc138d8: the line-end alternative dropped")
        add("c08-opening-delimiter-any-rest-of-line", "C08.R4", splice(src, dm.test.args[0], 'r"-{3,}.*(?:\\n|$)"'), "opening '---' delimiter is a whole line", note="weakens dc138d8: anything may follow the dashes")
    else:
        out.append(("c08-opening-delimiter-by-prefix", "regex test of the '---' style not found"))
    # ---- 1deb621: the TestDirective return comes behind the merge of the defaults - revert and partial weakening
    tdi = find_node(fo, lambda n: isinstance(n, ast.If) and isinstance(n.test, ast.Call) and unparse(n.test.func) == "issubclass" and "TestDirective" in unparse(n.test))
    mgi = parent(mg_opts) if (mg_opts := find_node(fo, lambda n: isinstance(n, ast.Assign) and isinstance(n.value, ast.Dict) and n.value.keys and all(k_ is None for k_ in n.value.keys) and unparse(n.targets[0]) == "options")) is not None else None
    if tdi is not None and isinstance(mgi, ast.If) and mgi.lineno < tdi.lineno:
        seg_m, seg_t = ast.get_source_segment(src, mgi), ast.get_source_segment(src, tdi)
        swapped = splice(src, tdi, seg_m)
        swapped = splice(swapped, mgi, seg_t)  # mgi precedes tdi: its offsets are unchanged by the later splice
        add("c08-testdirective-returns-before-merge", "C08.R2", swapped, "applied or their loss is reported", note="reverts 1deb621")
        add("c08-defaults-merged-only-with-block-options", "C08.R2", splice(src, mgi.test, f"{ast.get_source_segment(src, mgi.test)} and options"), "applied or their loss is reported", note="weakens the merge: only when the block has options")
    else:
        out.append(("c08-testdirective-returns-before-merge", "TestDirective return / merge not found in the expected order"))
    # ---- class: the content lines are counted by their line feeds (R5)
    cnt_ = find_node(ft, lambda n: isinstance(n, ast.Call) and dotted(n.func) == "len" and len(n.args) == 1 and isinstance(n.args[0], ast.Call) and n.args[0].args and unparse(n.args[0].args[0]) == "content" and isinstance(parent(n), ast.BinOp))
    add("c08-lines-counted-by-line-feeds", "C08.R5", splice(src, cnt_, 'content.count("\\n")') if cnt_ is not None else None, "|content_offset = content.count(")
    add("c08-lines-counted-by-line-feeds-plus-one", "C08.R5", splice(src, cnt_, '(content.count("\\n") + 1)') if cnt_ is not None else None, "|content_offset = content.count(")
    # ---- class: the block text is rewritten on one arm of its style branch only (R4)
    if dd is not None:
        arm = find_node(fo, lambda n: isinstance(n, ast.Assign) and unparse(n.targets[0]) == unparse(dd.targets[0]) and isinstance(n.value, ast.Subscript) and "start()" in unparse(n.value))
        if arm is not None:
            new = splice(src, dd, "pass")
            new = splice(new, arm.value, f"dedent({ast.get_source_segment(src, arm.value)})")
            add("c08-dedent-only-with-closing-delimiter", "C08.R4", new, "applies on every path of the branch")
            ifm = parent(arm)
            if isinstance(ifm, ast.If) and ifm.orelse and isinstance(ifm.orelse[0], ast.Assign):
                oe = ifm.orelse[0]
                new2 = splice(src, dd, "pass")
                new2 = splice(new2, oe.value, f"dedent({ast.get_source_segment(src, oe.value)})")
                add("c08-dedent-only-without-closing-delimiter", "C08.R4", new2, "applies on every path of the branch")
        else:
            out.append(("c08-dedent-only-with-closing-delimiter", "arm assigning the block text from the match not found"))
    # ---- class: the caller's defaults mapping is changed in place (R2)
    if mg is not None:
        ind = indent_of(fo, mg)
        mname = unparse(mg.targets[0])
        addn = next((unparse(v) for v in mg.value.values if unparse(v) != mname), "additional_options")
        add("c08-defaults-updated-in-place", "C08.R2", splice(src, mg, f"{addn}.update({mname})\n{ind}{mname} = {addn}"), "mapping is only read")
        add("c08-defaults-aliased-then-updated", "C08.R2", splice(src, mg, f"_block = {mname}\n{ind}{mname} = {addn}\n{ind}{mname}.update(_block)"), "mapping is only read")
        add("c08-defaults-key-renamed-in-place", "C08.R2", splice(src, mg, f'if "id" in {addn}:\n{ind}    {addn}["name"] = {addn}.pop("id")\n{ind}' + ast.get_source_segment(src, mg)), "mapping is only read")
    # ---- class: the per-line option test is weaker than the style test (R4): ':::' lines are collected as options
    brk = find_node(fo, lambda n: isinstance(n, ast.If) and any(isinstance(x, ast.Break) for x in n.body) and isinstance(n.test, ast.BoolOp) and isinstance(n.test.op, ast.Or) and any(isinstance(c, ast.Constant) and c.value == ":::" for c in ast.walk(n.test)))
    if brk is not None:
        keep = [v for v in brk.test.values if not any(isinstance(c, ast.Constant) and c.value == ":::" for c in ast.walk(v))]
        add("c08-option-line-loop-accepts-fence", "C08.R4", splice(src, brk.test, " or ".join(ast.get_source_segment(src, v) for v in keep)) if keep else None, "':::' refusal")
        wl = parent(brk)
        if isinstance(wl, ast.While) and isinstance(wl.body[-1], ast.Expr):
            line_e = "content_lines[0].lstrip(\" \\t\")"
            indw = indent_of(fo, wl)
            add("c08-option-line-loop-condition-only-colon", "C08.R4", splice(src, wl, f"while {ast.get_source_segment(src, wl.test)} and {line_e}.startswith(\":\"):\n{indw}    " + ast.get_source_segment(src, wl.body[-1])), "':::' refusal")
    else:
        out.append(("c08-option-line-loop-accepts-fence", "break test with the ':::' refusal not found"))
    # ---- class: a return skips merge + validation of the defaults without reporting it (R2)
    first = fo.node.body[1] if isinstance(fo.node.body[0], ast.Expr) and isinstance(fo.node.body[0].value, ast.Constant) else fo.node.body[0]
    ind0 = indent_of(fo, first)
    add("c08-blank-content-early-return", "C08.R2", splice(src, first, f"if not content.strip():\n{ind0}    return _DirectiveOptions(content, {{}}, [], False)\n{ind0}" + ast.get_source_segment(src, first)), "applied or their loss is reported")
    hob = find_node(fo, lambda n: isinstance(n, ast.Assign) and isinstance(n.value, ast.Compare) and isinstance(n.value.ops[0], ast.IsNot) and isinstance(n.value.comparators[0], ast.Constant) and n.value.comparators[0].value is None)
    add("c08-no-block-early-return", "C08.R2", splice(src, hob, ast.get_source_segment(src, hob) + f"\n{indent_of(fo, hob)}if not {unparse(hob.targets[0])}:\n{indent_of(fo, hob)}    return _DirectiveOptions(content, {{}}, [], False)") if hob is not None else None, "applied or their loss is reported")
    # ---- class: the option parser runs for directives that declare no options (R4)
    og = find_node(ft, lambda n: isinstance(n, ast.If) and isinstance(n.test, ast.Attribute) and n.test.attr == "option_spec")
    if og is not None:
        t_src = ast.get_source_segment(src, og.test)
        add("c08-option-spec-is-not-none", "C08.R4", splice(src, og.test, f"{t_src} is not None"), "only looked for when the directive declares options")
        add("c08-option-spec-isinstance-dict", "C08.R4", splice(src, og.test, f"isinstance({t_src}, dict)"), "only looked for when the directive declares options")
    else:
        out.append(("c08-option-spec-is-not-none", "truthiness test on option_spec not found"))
    # ---- class: the option-style tests are no longer exclusive (R4)
    sty2 = find_node(fo, lambda n: isinstance(n, ast.If) and isinstance(parent(n), ast.If) and parent(n).orelse == [n] and style_of_test(parent(n).test) == "---" and style_of_test(n.test) == ":")
    if sty2 is not None and segment_at(src, sty2, 4) == "elif":
        add("c08-style-tests-not-exclusive", "C08.R4", splice_at(src, sty2, 4, "if"), "cannot run after")
        test_src = ast.get_source_segment(src, sty2.test)
        ind = indent_of(fo, parent(sty2))
        hoisted = splice(src, sty2.test, "_is_colon_style")
        add("c08-style-test-hoisted-behind-first-branch", "C08.R4", splice_at(hoisted, sty2, 4, f"_is_colon_style = {test_src}\n{ind}if"), "cannot run after")
    else:
        out.append(("c08-style-tests-not-exclusive", "elif of the ':' style not found"))
    # ---- class: the parsed option block is memoised under a key that omits the content (R5)
    ra = find_node(ft, lambda n: isinstance(n, ast.Assign) and n is ft_stmt_of_options_call(corpus, ft))
    if ra is not None and isinstance(ra.targets[0], ast.Name):
        ind = indent_of(ft, ra)
        rn = ra.targets[0].id
        call_src = ast.get_source_segment(src, ra.value)
        memo = f"key = (directive_class, validate_options, str(additional_options))\n{ind}{rn} = _C08_CACHE.get(key) or {call_src}\n{ind}_C08_CACHE[key] = {rn}"
        new = splice(src, ra, memo)
        new = new.replace("\ndef parse_directive_text(", "\n_C08_CACHE: dict = {}\n\n\ndef parse_directive_text(", 1)
        add("c08-options-memoised-without-content-key", "C08.R5", new, "|content_offset = len(")
    else:
        out.append(("c08-options-memoised-without-content-key", "assignment of the options-parser result not found"))
    # ---- class: the line-splitting helper also drops / strips / filters pieces (R5)
    sp = None
    for c_ in ft.local_nodes():
        if isinstance(c_, ast.Call) and isinstance(c_.func, ast.Name) and c_.func.id in m.functions and _line_splitter(m.functions[c_.func.id]) and _line_splitter(m.functions[c_.func.id])[0] == "exact":
            sp = m.functions[c_.func.id]
            break
    if sp is not None and isinstance(sp.node.body[-1], ast.Return) and isinstance(sp.node.body[-1].value, ast.Name):
        rret = sp.node.body[-1]
        L_ = rret.value.id
        ind = indent_of(sp, rret)
        add("c08-splitter-filters-blank-lines", "C08.R5", splice(src, rret, f"{L_} = [ln for ln in {L_} if ln.strip()]\n{ind}return {L_}"), "inexact" if False else "does more than split")
        add("c08-splitter-strips-lines", "C08.R5", splice(src, rret.value, f"[ln.rstrip() for ln in {L_}]"), "does more than split")
        tif = find_node(sp, lambda n: isinstance(n, ast.If))
        add("c08-splitter-drops-all-trailing-blank-lines", "C08.R5", splice(src, tif, "while " + ast.get_source_segment(src, tif)[3:].replace(f"not {L_}[-1]", f"{L_} and not {L_}[-1]", 1)) if tif is not None else None, "does more than split")
    else:
        out.append(("c08-splitter-filters-blank-lines", "no module-level exact line splitter is called in parse_directive_text"))
    # ---- R6 -------------------------------------------------------------------
    rx = find_node(fo, lambda n: isinstance(n, ast.Call) and unparse(n.func) == "re.search" and n.args and isinstance(n.args[0], ast.Constant))
    if rx is not None:
        pat = rx.args[0].value
        add("c08-delimiter-regex-swallows-blank-lines", "C08.R6", splice(src, rx.args[0], repr(pat + r"\s*$")), "delimiter regex")
        add("c08-delimiter-regex-trailing-space-class", "C08.R6", splice(src, rx.args[0], repr(pat + r"\s*")), "delimiter regex")
    else:
        out.append(("c08-delimiter-regex-swallows-blank-lines", "re.search with a literal pattern not found"))
    if rx is not None and (rx.args[0].value.endswith("\n") or rx.args[0].value.endswith("\\n")):
        # the delimiter's own line feed is neither matched nor skipped: it stays in front of the body
        add("c08-delimiter-newline-not-skipped", "C08.R6", splice(src, rx.args[0], repr((rx.args[0].value[:-2] if rx.args[0].value.endswith("\\n") else rx.args[0].value[:-1]) + "$")), "remaining content starts right after")
        # c0042fa reverted: the closing delimiter is matched as a prefix and one character behind it is skipped
        sl = find_node(fo, lambda n: isinstance(n, ast.Subscript) and isinstance(n.slice, ast.Slice) and n.slice.lower is not None and n.slice.upper is None and unparse(n.slice.lower).endswith(".end()"))
        if sl is not None:
            new = splice(src, sl.slice.lower, unparse(sl.slice.lower) + " + 1")
            add("c08-delimiter-matched-as-prefix", "C08.R6", new.replace(ast.get_source_segment(src, rx.args[0]), 'r"^-{3,}"', 1), "matches a whole line", note="reverts c0042fa")
        else:
            out.append(("c08-delimiter-matched-as-prefix", "slice at the match end not found"))
    else:
        out.append(("c08-delimiter-newline-not-skipped", "delimiter pattern does not end in a line feed"))
    return out
