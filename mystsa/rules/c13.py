"""C13 - configuration: validated, normalised, same effect at every level."""

from __future__ import annotations

import ast

from ..corpus import (
    AnchorMissing,
    Corpus,
    FunctionInfo,
    Module,
    Unsupported,
    ancestors,
    dotted,
    kwarg,
    parent,
    short,
    splice,
    unparse,
    walk_local,
)
from ..flow import facts as flow_facts
from ..flow import get_cfg
from ..mutant import Mutant
from ..report import Report
from .common import find_node, rule, unwrap_try

PROP = "C13"
READY = False
TECHNIQUE = "shape agreement between annotations and validator combinators, CFG path rules (stores vs rejections, handler paths, last-store for merged fields), taint/provenance of the raw and restored values with one/two levels of helper substitution, config-writer census"

META = {
    "explanation": (
        "R1: every dataclass field of MdParserConfig has a validator; for fields validated by the dc_validators combinators the accepted shape "
        "(instance_of / optional / in_ / deep_iterable / deep_mapping, whose own bodies are re-verified on every run) agrees with the annotation "
        "including optionality, container and member types; custom check_* validators are listed, not type-checked. "
        "R2: a validator that stores on the instance and can still reject afterwards is tolerated only while every caller that survives the rejection "
        "re-stores a clean value in its handler (a failing constructor discards the instance). "
        "R3: after validate_field(obj, f, v) no store of the raw v (or of a value built from it) to obj follows in the same update unless guarded by a "
        "metadata flag carried only by non-coercing fields; for fields flagged merge_topmatter every successful path of an update ends with the merged dict "
        "as the last store. "
        "R4: config objects are written only by validators (own instance), by merge_file_level or the helpers it hands its copy to (on the copy taken once "
        "before the loop through the validating constructor - copy()/dataclasses.replace, or a deep copy; a shallow copy.copy shares every mutable value with the global object and is a violation - and returned; the global parameter is never written, validated against or passed to a writer), and inside mutate+restore-in-finally "
        "brackets; a field mutated in place inside such a bracket gets a freshly built container from its validator on every accepting path, so copy() never "
        "shares it with the global object; merged dicts are new dicts with the front-matter operand last; only sphinx_ext.main.create_myst_config binds env.myst_config. "
        "R5: every path through one update passes validate_field or a topmatter warning (no key is dropped silently depending on its value or name); "
        "the handler of the validation try emits exactly one MD_TOPMATTER warning, reaches the next update without storing the rejected value and, when the raw "
        "value was stored before validation or a validator may store before rejecting, re-stores on every path a value computed from the incoming configuration "
        "(or the copy), not some other default. "
        "R6: __post_init__ calls validate_fields unconditionally; validate_fields applies validate_field to the current value of every field on every iteration "
        "(a value-dependent skip is a violation); validate_field applies the field's validator - single or every element of a list, in whatever control shape - on every "
        "path except those taken only by fields without a validator; copy re-validates through dc.replace/the constructor; both front ends build the global config through the "
        "constructor inside a handler covering TypeError and ValueError with a default fallback - the handler is looked for around the constructor inside the builder or "
        "around every call of the builder anywhere in the package, so moving that call into a helper method keeps the rule deciding; everything a custom validator can raise on a configured value "
        "is covered by both handlers; the Sphinx builder-inited handler binds env.myst_config on every normal path; registering and reading loops use the same "
        "omit filter. "
        "R7: no raise-condition conjoins `x is not a <container>` with a type test on x's members. "
        "R8: in validators the bare truthiness of the validated value (or of an item of it) never selects the accepting path unless an isinstance test on it dominates. "
        "R4 also follows local aliases of a field's own object (`ctx = self.md_config.substitutions`, also through `or`/conditional expressions/getattr and annotated "
        "assignments): a store or mutator call through such an alias is a write into the configuration. "
        "R10: where a validator requires the members of X to be str (iteration, all/any, integer index, or an inline deep_iterable(instance_of(str), ...)), X's own type "
        "test excludes str - a concrete container type or an explicit not-a-str test, taken from the function itself or, for a helper parameter, from every call site; "
        "an abstract test (Sequence, Iterable, ...) or none lets a plain string pass as the container of its characters (R1 applies the same to combinator validators "
        "in field metadata). in_(range(...)) options are evaluated over module constants. "
        "R9: every docutils setting converter named in _attr_to_optparse_option that splits a comma-delimited string itself strips the items and drops empty ones, "
        "or delegates to docutils' validate_comma_separated_list, whose source is re-read as the oracle (strip + drop empties) - the items are followed through every stage of a pipeline (names holding the split, generator "
        "expressions, map/filter, list-like calls feeding the next stage); and on their way into the result "
        "the items are not transformed by any str method other than stripping (a lower()/replace() in one entry point makes the docutils spelling differ from the same "
        "value given as YAML dict, conf.py value or front matter - normalisation belongs in the shared validator). "
        "R10 also covers custom validators of fields documented as a collection of str that iterate the value: a str and a mapping are excluded before the first iteration "
        "(concrete list/tuple/set test, an inline deep_iterable with a concrete container - also applied through a local - or an explicit not-isinstance of str and dict/Mapping), "
        "and when only an ABC such as Iterable is required the caller's object is iterated once (a generator is empty in a second pass). "
        "R11: outside the function that feeds the validating constructor (a) no option is read from the raw conf.py value (app.config / env.config myst_*, attribute, subscript "
        "or getattr): it is un-validated and un-normalised; (b) project-wide code (outside parsers/ and mdit_to_docutils/) reads an option a document may override from the "
        "validated env.myst_config only as the fallback of a more specific lookup (.get default, `or`, else-arm - directly or through a local it is hoisted into, all of whose uses are such fallbacks); "
        "global_only options are exempt from (b). "
        "R12: read_topmatter appends every front-matter line verbatim (only a strip of line-terminator characters is allowed, also through loop-local re-bindings of the line) "
        "and the disjunction of its end-of-block tests, evaluated abstractly over constants (f-strings, re.compile on literal patterns, str methods, local single definitions, the "
        "opening line bound to a probe) on eighteen (opener, line) probes, closes the block exactly where the markdown-it front_matter rule does: dashes at least as long as the "
        "opener, indented by 0-3 spaces, followed by spaces only, or a bare '...' line (sibling source re-read for the five facts behind the probe table). "
        "R13: because Sphinx's i18n transform re-parses every msgstr under a ':<translated>' source without front matter (sibling re-read), MystParser.parse stores the config "
        "the document is rendered with (no assignment to that variable between the store and the call that obtains the parser whose .render() is used - create_md_parser or any factory/cache in front of it -, whichever function performs the merge) in the per-read store "
        "of the environment and starts from it, under a guard, for such sources. "
        "R14: every option-dependent deprecation notice that exists anywhere (builder or a front end: `<const> in <config>.<field>` guarding a MystWarnings.DEPRECATED emission, made directly or through a package helper) "
        "is decided in BOTH front-end parse functions on the config variable handed to the call that obtains the parser the document is rendered with, with no later assignment to it. "
        "The per-field update is located by role (the function that calls validate_field, reached from merge_file_level directly or through one or two "
        "module-level helpers with parameters substituted), so splitting merge_file_level into helpers keeps every rule deciding. "
        "R15: the handler around the per-field validate_field of merge_file_level covers every exception class a validator can raise on a front-matter value: a handler for "
        "Exception covers everything; a narrower one is compared with the explicit raise statements of all validators (custom and combinator closures) and with the implicit "
        "AttributeError of a method/attribute use of the validated value that no type test or delegated validator precedes. "
        "R16: in the docutils builder, every condition on a value read from the settings object that decides whether it reaches the constructor is an identity/equality/type test "
        "against the not-supplied sentinel, never a truthiness test (False, 0 and empty collections are valid explicit values)."
    ),
    "not_decided": (
        "which markdown-it parser object a document is rendered with (a cross-parse parser cache keyed on a lossy projection of the configuration, e.g. repr(config), is "
        "state outliving a parse and is decided by C15, not here); "
        "full equivalence of read_topmatter's end-of-block test with the markdown-it front_matter scanner (marker length, trailing text: only the eighteen (opener, line) probes of R12 are decided); "
        "which other third-party callers re-enter the parser for a part of a document (only Sphinx's i18n transform is tabled in R13); option-dependent notices other than MystWarnings.DEPRECATED ones (R14 keys on that catalogue member); "
        "normal-form equality of arbitrary value spellings; value ranges beyond what validators state; the bodies of the custom check_* validators against their "
        "annotations (only R2/R7/R8 shape facts); the docutils option-string converters beyond their comma splitting (R9): e.g. whether a textual shortcut in _validate_url_schemes still "
        "recognises every YAML mapping spelling - a fact about a string predicate versus YAML's grammar, value semantics; int/bool/YAML conversion of setting strings; whether a guard that skips the dict merge "
        "is harmless for the values it admits (R3 is value-blind: any extra condition on the merge is reported)"
    ),
    "trusted_base": [
        "CPython ast",
        "mystsa CFG (flow.py)",
        "docutils/frontend.py as installed (validate_comma_separated_list is the splitting oracle of R9)",
        "dataclasses semantics: __post_init__ runs after __init__, dc.replace calls the constructor and passes field values by reference",
        "the Sphinx environment (and env.myst_config with it) is pickled between builds",
        "mdit_py_plugins/front_matter/index.py and sphinx/transforms/i18n.py as installed (oracles of R12 / R13)",
    ],
    "assumptions": [
        "config values are JSON/YAML-typed (None, bool, int, float, str, list, dict) or Python objects given in conf.py",
        "config objects are reached through the names md_config / myst_config, MdParserConfig-annotated parameters, or parameters bound to such objects at every call site",
        "helpers are module-level functions called by plain name (methods, lambdas and dynamic dispatch are not followed)",
    ],
}

MAIN = "config.main"
DCV = "config.dc_validators"
CONFIG_CLS = "MdParserConfig"


# ---------------------------------------------------------------------------
# small helpers


def _free_names(e: ast.AST) -> set[str]:
    """Names read in ``e`` that refer to the enclosing function scope (comprehension / lambda
    targets are excluded inside their own scope)."""
    out: set[str] = set()

    def rec(n: ast.AST, bound: frozenset):
        if isinstance(n, ast.Name):
            if n.id not in bound:
                out.add(n.id)
            return
        if isinstance(n, (ast.ListComp, ast.SetComp, ast.GeneratorExp, ast.DictComp)):
            b = set(bound)
            first = True
            for g in n.generators:
                rec(g.iter, frozenset(bound if first else b))
                first = False
                for t in ast.walk(g.target):
                    if isinstance(t, ast.Name):
                        b.add(t.id)
                for c in g.ifs:
                    rec(c, frozenset(b))
            fb = frozenset(b)
            if isinstance(n, ast.DictComp):
                rec(n.key, fb)
                rec(n.value, fb)
            else:
                rec(n.elt, fb)
            return
        if isinstance(n, ast.Lambda):
            b = set(bound) | {a.arg for a in n.args.posonlyargs + n.args.args + n.args.kwonlyargs}
            rec(n.body, frozenset(b))
            return
        for c in ast.iter_child_nodes(n):
            rec(c, bound)

    rec(e, frozenset())
    return out


def _root_name(e: ast.AST) -> str | None:
    while isinstance(e, (ast.Attribute, ast.Subscript)):
        e = e.value
    return e.id if isinstance(e, ast.Name) else None


def _resolves_to(mod: Module, node: ast.AST, suffix: str) -> bool:
    d = dotted(node)
    return bool(d) and mod.resolve(d).endswith(suffix)


def _stmt_of(cfg, node: ast.AST) -> ast.stmt:
    return cfg.stmt_of(node)


def _loop_header(cfg, st) -> ast.stmt | None:
    return cfg.loops.get(st)


def _reach_same_iteration(cfg, a, b) -> bool:
    """b reachable from a without passing the header of a's innermost loop (= later in the same iteration)."""
    if a is b:
        return False
    hdr = _loop_header(cfg, a)
    return cfg.paths_avoiding(a, b, (lambda n: n is hdr) if hdr is not None else (lambda n: False))


# ---------------------------------------------------------------------------
# field table


class Field:
    def __init__(self, name, ann, call, meta, stmt):
        self.name: str = name
        self.ann: ast.expr = ann
        self.call: ast.Call | None = call
        self.meta: dict[str, ast.expr] = meta
        self.stmt: ast.AnnAssign = stmt


def config_fields(corpus: Corpus) -> list[Field]:
    def build():
        ci = corpus.cls(f"{MAIN}:{CONFIG_CLS}")
        m = ci.module
        decos = [dotted(d.func if isinstance(d, ast.Call) else d) or "" for d in ci.node.decorator_list]
        if not any(m.resolve(d) == "dataclasses.dataclass" for d in decos):
            raise Unsupported(f"{CONFIG_CLS} is not decorated with dataclasses.dataclass")
        out = []
        for st in ci.node.body:
            if not (isinstance(st, ast.AnnAssign) and isinstance(st.target, ast.Name)):
                continue
            if "ClassVar" in unparse(st.annotation):
                continue
            call = None
            meta: dict[str, ast.expr] = {}
            if isinstance(st.value, ast.Call) and m.resolve(dotted(st.value.func) or "") == "dataclasses.field":
                call = st.value
                md = kwarg(call, "metadata")
                if md is not None:
                    if not isinstance(md, ast.Dict) or not all(isinstance(k, ast.Constant) and isinstance(k.value, str) for k in md.keys):
                        raise Unsupported(f"metadata of field {st.target.id} is not a dict literal with string keys")
                    meta = {k.value: v for k, v in zip(md.keys, md.values)}
            out.append(Field(st.target.id, st.annotation, call, meta, st))
        return out

    return corpus.cache("c13-fields", build)


COMBINATORS = ("instance_of", "optional", "in_", "deep_iterable", "deep_mapping", "any_", "is_callable")


def classify_validator(corpus: Corpus, mod: Module, node: ast.expr):
    """("comb", name, call|None) | ("custom", FunctionInfo) | ("list", [..])."""
    if isinstance(node, (ast.List, ast.Tuple)):
        return ("list", [classify_validator(corpus, mod, e) for e in node.elts])
    target = node.func if isinstance(node, ast.Call) else node
    d = dotted(target)
    if d is None:
        raise Unsupported(f"validator expression not understood: {short(node, 60)}")
    full = mod.resolve(d)
    dcv = corpus.mod(DCV).name
    if full.startswith(dcv + "."):
        name = full[len(dcv) + 1 :]
        if name not in COMBINATORS:
            raise Unsupported(f"unknown combinator {name}")
        if isinstance(node, ast.Call) != (name not in ("any_", "is_callable")):
            raise Unsupported(f"combinator {name} used in an unexpected way: {short(node, 60)}")
        return ("comb", name, node if isinstance(node, ast.Call) else None)
    if isinstance(node, ast.Call):
        raise Unsupported(f"validator built by an unknown factory: {short(node, 60)}")
    fi = corpus.find_function(full)
    if fi is None:
        raise Unsupported(f"validator {d} does not resolve to a package function")
    return ("custom", fi)


def _comb_args(corpus: Corpus, name: str, call: ast.Call) -> list[ast.expr | None]:
    f = corpus.mod(DCV).func(name)
    params = f.params
    out: list[ast.expr | None] = [None] * len(params)
    for i, a in enumerate(call.args):
        if isinstance(a, ast.Starred) or i >= len(params):
            raise Unsupported(f"call of {name} not understood")
        out[i] = a
    for k in call.keywords:
        if k.arg not in params:
            raise Unsupported(f"call of {name} not understood")
        out[params.index(k.arg)] = k.value
    return out


def _type_names(e: ast.expr) -> frozenset[str]:
    if isinstance(e, ast.Name):
        return frozenset([e.id])
    if isinstance(e, ast.Tuple):
        return frozenset().union(*[_type_names(x) for x in e.elts]) if e.elts else frozenset()
    if isinstance(e, ast.BinOp) and isinstance(e.op, ast.BitOr):
        return _type_names(e.left) | _type_names(e.right)
    raise Unsupported(f"type expression not understood: {short(e, 40)}")


def vshape(corpus: Corpus, mod: Module, node: ast.expr | None):
    if node is None or (isinstance(node, ast.Constant) and node.value is None):
        return None
    kind = classify_validator(corpus, mod, node)
    if kind[0] != "comb":
        raise Unsupported(f"non-combinator inside a combinator: {short(node, 50)}")
    _, name, call = kind
    if name == "any_":
        return ("any",)
    if name == "is_callable":
        return ("callable",)
    args = _comb_args(corpus, name, call)
    if name == "instance_of":
        return ("inst", _type_names(args[0]))
    if name == "optional":
        return ("opt", vshape(corpus, mod, args[0]))
    if name == "in_":
        a0 = args[0]
        if isinstance(a0, ast.Call) and dotted(a0.func) == "range" and not a0.keywords and 1 <= len(a0.args) <= 3:
            # range(...) only ever yields ints; evaluate it when the bounds are module constants
            try:
                return ("in", tuple(range(*[_const_int(mod, x) for x in a0.args])))
            except Unsupported:
                return ("in", (0,))  # some ints: enough for the type agreement
        if isinstance(a0, ast.Call) and dotted(a0.func) in ("list", "tuple", "set", "frozenset") and len(a0.args) == 1 and isinstance(a0.args[0], ast.Call) and dotted(a0.args[0].func) == "range":
            try:
                return ("in", tuple(range(*[_const_int(mod, x) for x in a0.args[0].args])))
            except Unsupported:
                return ("in", (0,))
        try:
            vals = mod.eval_const(a0)
        except Unsupported:
            raise Unsupported(f"in_() options are not a literal: {short(a0, 40)}") from None
        return ("in", tuple(vals))
    if name == "deep_iterable":
        return ("iter", vshape(corpus, mod, args[0]), vshape(corpus, mod, args[1]))
    if name == "deep_mapping":
        return ("map", vshape(corpus, mod, args[0]), vshape(corpus, mod, args[1]), vshape(corpus, mod, args[2]))
    raise Unsupported(name)


def _const_int(mod: Module, e: ast.expr, depth: int = 0) -> int:
    """Integer value of a constant expression over literals and module-level constants (+, -, *, //)."""
    if depth > 10:
        raise Unsupported("constant recursion")
    if isinstance(e, ast.Constant) and isinstance(e.value, int) and not isinstance(e.value, bool):
        return e.value
    if isinstance(e, ast.Name) and e.id in mod.const_nodes:
        return _const_int(mod, mod.const_nodes[e.id], depth + 1)
    if isinstance(e, ast.UnaryOp) and isinstance(e.op, ast.USub):
        return -_const_int(mod, e.operand, depth + 1)
    if isinstance(e, ast.BinOp) and isinstance(e.op, (ast.Add, ast.Sub, ast.Mult, ast.FloorDiv)):
        l, r = _const_int(mod, e.left, depth + 1), _const_int(mod, e.right, depth + 1)
        return l + r if isinstance(e.op, ast.Add) else l - r if isinstance(e.op, ast.Sub) else l * r if isinstance(e.op, ast.Mult) else l // r
    raise Unsupported(f"not an integer constant: {short(e, 40)}")


PRIMS = {"bool", "int", "str", "float"}
ITER_BASES = {
    "Iterable": {"list", "tuple", "set", "frozenset"},
    "Collection": {"list", "tuple", "set", "frozenset"},
    "Sequence": {"list", "tuple"},
    "list": {"list"},
    "List": {"list"},
    "set": {"set", "frozenset"},
    "Set": {"set", "frozenset"},
    "frozenset": {"frozenset"},
}
MAP_BASES = {"dict", "Dict", "Mapping"}


def ashape(e: ast.expr):
    if isinstance(e, ast.Constant) and isinstance(e.value, str):
        return ashape(ast.parse(e.value, mode="eval").body)
    if isinstance(e, ast.Constant) and e.value is None:
        return ("none",)
    d = dotted(e)
    if d is not None:
        last = d.rsplit(".", 1)[-1]
        if last in PRIMS:
            return ("prim", last)
        if last == "Any":
            return ("any",)
        return ("other", d)
    if isinstance(e, ast.BinOp) and isinstance(e.op, ast.BitOr):
        parts = []

        def flat(x):
            if isinstance(x, ast.BinOp) and isinstance(x.op, ast.BitOr):
                flat(x.left)
                flat(x.right)
            else:
                parts.append(x)

        flat(e)
        shapes = [ashape(p) for p in parts]
        rest = [s for s in shapes if s != ("none",)]
        inner = rest[0] if len(rest) == 1 else ("union", tuple(rest))
        return ("opt", inner) if len(rest) != len(shapes) else inner
    if isinstance(e, ast.Subscript):
        base = (dotted(e.value) or "").rsplit(".", 1)[-1]
        sl = e.slice
        if base == "Optional":
            return ("opt", ashape(sl))
        if base == "Literal":
            elts = sl.elts if isinstance(sl, ast.Tuple) else [sl]
            if all(isinstance(x, ast.Constant) for x in elts):
                vals = tuple(x.value for x in elts)
                return ("opt", ("lit", tuple(v for v in vals if v is not None))) if None in vals else ("lit", vals)
        if base in ITER_BASES and not isinstance(sl, ast.Tuple):
            return ("iter", base, ashape(sl))
        if base in MAP_BASES and isinstance(sl, ast.Tuple) and len(sl.elts) == 2:
            return ("map", ashape(sl.elts[0]), ashape(sl.elts[1]))
        return ("other", unparse(e))
    return ("other", unparse(e))


def agree(a, v, where: str = "value") -> list[str]:
    """Disagreements between annotation shape ``a`` and validator shape ``v`` (Unsupported for unknown pairs)."""
    if v is None:
        return [f"{where} is not validated"]
    a_opt, v_opt = a[0] == "opt", v[0] == "opt"
    if a_opt and not v_opt:
        return [f"the annotation of the {where} allows None but the validator is not optional(...): None is rejected"]
    if v_opt and not a_opt:
        return [f"the validator wraps the {where} in optional(...) - None is accepted - but the annotation has no `| None`: consumers receive a None they are not typed for"]
    if a_opt:
        return agree(a[1], v[1], where)
    if a[0] == "any":
        return [] if v[0] == "any" else [f"the {where} is annotated Any but validated by {v[0]}"]
    if v[0] == "any":
        return [f"the {where} is annotated {_ashow(a)} but validated by any_ (nothing is checked)"]
    if a[0] == "lit":
        if v[0] != "in":
            return [f"the {where} is annotated Literal{list(a[1])} but validated by {v[0]}"]
        same = len(a[1]) == len(v[1]) and all(any(type(x) is type(y) and x == y for y in v[1]) for x in a[1])
        return [] if same else [f"the {where} is annotated Literal{list(a[1])} but in_() admits {list(v[1])!r}"]
    if a[0] == "prim":
        if v[0] == "inst":
            return [] if v[1] == frozenset([a[1]]) else [f"the {where} is annotated {a[1]} but instance_of accepts {sorted(v[1])}"]
        if v[0] == "in":
            py = {"bool": bool, "int": int, "str": str, "float": float}[a[1]]
            bad = [x for x in v[1] if type(x) is not py]
            return [] if not bad else [f"the {where} is annotated {a[1]} but in_() admits {bad!r}"]
        return [f"the {where} is annotated {a[1]} but validated by {v[0]}"]
    if a[0] == "iter":
        if v[0] != "iter":
            return [f"the {where} is annotated {a[1]}[...] but validated by {v[0]}"]
        out = agree(a[2], v[1], f"member of the {where}")
        cont = v[2]
        if cont is None:
            if a[1] != "Iterable":
                out.append(f"the container of the {where} ({a[1]}) is not checked")
            elif v[1] is not None and v[1][0] == "inst" and "str" in v[1][1]:
                out.append(f"the container of the {where} is not checked while its members must be str: a plain string passes as an iterable of its characters")
        elif cont[0] != "inst":
            raise Unsupported(f"container validator of kind {cont[0]}")
        elif not cont[1] <= ITER_BASES[a[1]]:
            out.append(f"the {where} is annotated {a[1]}[...] but the container check accepts {sorted(cont[1])}")
        return out
    if a[0] == "map":
        if v[0] != "map":
            return [f"the {where} is annotated as a mapping but validated by {v[0]}"]
        out = agree(a[1], v[1], f"key of the {where}") + agree(a[2], v[2], f"item of the {where}")
        mp = v[3]
        if mp is None:
            out.append(f"the container of the {where} (dict) is not checked")
        elif mp[0] != "inst":
            raise Unsupported(f"mapping validator of kind {mp[0]}")
        elif not mp[1] <= {"dict"}:
            out.append(f"the {where} is annotated dict but the container check accepts {sorted(mp[1])}")
        return out
    raise Unsupported(f"annotation {_ashow(a)} paired with a combinator validator ({v[0]})")


def _ashow(a) -> str:
    if a[0] in ("prim", "other"):
        return a[1]
    if a[0] == "lit":
        return f"Literal{list(a[1])}"
    if a[0] == "iter":
        return f"{a[1]}[{_ashow(a[2])}]"
    if a[0] == "map":
        return f"dict[{_ashow(a[1])}, {_ashow(a[2])}]"
    if a[0] == "opt":
        return f"{_ashow(a[1])} | None"
    return a[0]


# ---------------------------------------------------------------------------
# the combinators' own bodies (re-verified on every run; anything unknown is ANALYSIS-ERROR)


def _guard_has(cfg, st, pred, pol: bool) -> bool:
    return any(p == pol and pred(t) for t, p in cfg.guards(st))


def _is_call_of(n: ast.AST, fname: str, *argnames: str) -> bool:
    return (
        isinstance(n, ast.Call)
        and dotted(n.func) == fname
        and len(n.args) >= len(argnames)
        and all(a is None or (isinstance(x, ast.Name) and x.id == a) for a, x in zip(argnames, n.args))
    )


def _calls_param(f: FunctionInfo, pname: str) -> list[ast.Call]:
    return [n for n in f.local_nodes() if isinstance(n, ast.Call) and isinstance(n.func, ast.Name) and n.func.id == pname]


def verify_combinators(corpus: Corpus) -> list[str]:
    """Problems found in dc_validators (empty list = every combinator means what R1 assumes)."""

    def build():
        m = corpus.mod(DCV)
        probs: list[str] = []

        def inner(name):
            f = m.func(f"{name}._validator")
            outer = m.func(name)
            rets = [n for n in walk_local(outer.node) if isinstance(n, ast.Return)]
            if len(rets) != 1 or not (isinstance(rets[0].value, ast.Name) and rets[0].value.id == "_validator"):
                probs.append(f"{name} does not simply return its _validator closure")
            if len(f.params) < 3:
                probs.append(f"{name}._validator signature changed")
            return outer, f

        # instance_of
        outer, f = inner("instance_of")
        if len(f.params) >= 3:
            val, tp = f.params[2], outer.params[0]
            cfg = get_cfg(f)
            raises = [n for n in f.local_nodes() if isinstance(n, ast.Raise)]
            if not raises or not all(_guard_has(cfg, r, lambda t: _is_call_of(t, "isinstance", val, tp), False) for r in raises):
                probs.append("instance_of._validator does not raise exactly when `not isinstance(value, type_)`")
            if any(isinstance(n, ast.Return) for n in f.local_nodes()):
                probs.append("instance_of._validator has an early return")
        # optional
        outer, f = inner("optional")
        if len(f.params) >= 3:
            val, sub = f.params[2], outer.params[0]
            cfg = get_cfg(f)
            rets = [n for n in f.local_nodes() if isinstance(n, ast.Return)]
            ok_ret = rets and all(
                _guard_has(cfg, r, lambda t: isinstance(t, ast.Compare) and isinstance(t.ops[0], ast.Is) and unparse(t.left) == val and unparse(t.comparators[0]) == "None", True)
                or _guard_has(cfg, r, lambda t: isinstance(t, ast.Name) and t.id == val, False)  # truthiness form: judged (VIOLATION) by R8
                for r in rets
            )
            calls = _calls_param(f, sub)
            ok_call = len(calls) == 1 and len(calls[0].args) >= 3 and unparse(calls[0].args[2]) == val and not [g for g in cfg.guards(cfg.stmt_of(calls[0])) if g[1] and not (isinstance(g[0], ast.Name) and g[0].id == val)]
            if not ok_ret and not rets and len(calls) == 1 and len(calls[0].args) >= 3 and unparse(calls[0].args[2]) == val:
                # nested form: `if value is not None: validator(inst, field, value)`
                gs = cfg.guards(cfg.stmt_of(calls[0]))
                if len(gs) == 1 and isinstance(gs[0][0], ast.Compare) and unparse(gs[0][0].left) == val and unparse(gs[0][0].comparators[0]) == "None" and (
                    (isinstance(gs[0][0].ops[0], ast.Is) and not gs[0][1]) or (isinstance(gs[0][0].ops[0], ast.IsNot) and gs[0][1])
                ):
                    ok_ret = ok_call = True
            if not (ok_ret and ok_call):
                probs.append("optional._validator is not `if value is None: return; validator(inst, field, value)`")
        # in_
        outer, f = inner("in_")
        if len(f.params) >= 3:
            val, opts = f.params[2], outer.params[0]
            cfg = get_cfg(f)
            raises = [n for n in f.local_nodes() if isinstance(n, ast.Raise)]

            def is_member_test(t):
                return isinstance(t, ast.Compare) and isinstance(t.ops[0], ast.In) and unparse(t.left) == val and unparse(t.comparators[0]) == opts

            flags = set()
            for n in f.local_nodes():
                if isinstance(n, ast.Assign) and isinstance(n.targets[0], ast.Name):
                    if is_member_test(n.value):
                        flags.add(n.targets[0].id)
            for n in f.local_nodes():
                if isinstance(n, ast.Assign) and isinstance(n.targets[0], ast.Name) and n.targets[0].id in flags:
                    if not (is_member_test(n.value) or (isinstance(n.value, ast.Constant) and n.value.value is False)):
                        flags.discard(n.targets[0].id)
            if not raises or not all(_guard_has(cfg, r, lambda t: is_member_test(t) or (isinstance(t, ast.Name) and t.id in flags), False) for r in raises):
                probs.append("in_._validator does not raise exactly when `value in options` is false")
        # deep_iterable
        outer, f = inner("deep_iterable")
        if len(f.params) >= 3 and len(outer.params) >= 2:
            val = f.params[2]
            mem, cont = outer.params[0], outer.params[1]
            loops = [n for n in f.local_nodes() if isinstance(n, ast.For)]
            ok = False
            for lp in loops:
                it = lp.iter
                member = None
                if unparse(it) == val and isinstance(lp.target, ast.Name):
                    member = lp.target.id
                elif _is_call_of(it, "enumerate", val) and isinstance(lp.target, ast.Tuple) and len(lp.target.elts) == 2 and isinstance(lp.target.elts[1], ast.Name):
                    member = lp.target.elts[1].id
                if member and len(lp.body) == 1 and isinstance(lp.body[0], ast.Expr) and isinstance(lp.body[0].value, ast.Call):
                    c = lp.body[0].value
                    if isinstance(c.func, ast.Name) and c.func.id == mem and len(c.args) >= 3 and unparse(c.args[2]) == member:
                        ok = True
            cc = _calls_param(f, cont)
            ok_c = len(cc) == 1 and len(cc[0].args) >= 3 and unparse(cc[0].args[2]) == val
            if ok_c:
                gs = [g for g in get_cfg(f).guards(get_cfg(f).stmt_of(cc[0]))]
                ok_c = all(pol and unparse(t) == f"{cont} is not None" for t, pol in gs)
            if not (ok and ok_c):
                probs.append("deep_iterable._validator does not apply iterable_validator to the value and member_validator to every member")
        # deep_mapping
        outer, f = inner("deep_mapping")
        if len(f.params) >= 3 and len(outer.params) >= 3:
            val = f.params[2]
            kv, vv, mv = outer.params[:3]
            ok = False
            for lp in (n for n in f.local_nodes() if isinstance(n, ast.For)):
                key = item = None
                if unparse(lp.iter) == val and isinstance(lp.target, ast.Name):
                    key, item = lp.target.id, f"{val}[{lp.target.id}]"
                elif unparse(lp.iter) == f"{val}.items()" and isinstance(lp.target, ast.Tuple) and len(lp.target.elts) == 2:
                    key, item = unparse(lp.target.elts[0]), unparse(lp.target.elts[1])
                if key is None:
                    continue
                body_calls = [s.value for s in lp.body if isinstance(s, ast.Expr) and isinstance(s.value, ast.Call)]
                if len(body_calls) != len(lp.body):
                    continue
                kc = [c for c in body_calls if isinstance(c.func, ast.Name) and c.func.id == kv and len(c.args) >= 3 and unparse(c.args[2]) == key]
                vc = [c for c in body_calls if isinstance(c.func, ast.Name) and c.func.id == vv and len(c.args) >= 3 and unparse(c.args[2]) == item]
                if kc and vc:
                    ok = True
            mc = _calls_param(f, mv)
            ok_m = len(mc) == 1 and len(mc[0].args) >= 3 and unparse(mc[0].args[2]) == val
            if ok_m:
                cfg = get_cfg(f)
                ok_m = all(pol and unparse(t) == f"{mv} is not None" for t, pol in cfg.guards(cfg.stmt_of(mc[0])))
            if not (ok and ok_m):
                probs.append("deep_mapping._validator does not apply mapping_validator to the value and key/value validators to every item")
        # any_ / is_callable
        f = m.func("any_")
        if any(isinstance(n, (ast.Raise, ast.Call)) for n in f.local_nodes()):
            probs.append("any_ is no longer a no-op")
        return probs

    return corpus.cache("c13-combinators", build)


def _no_combinator_stores(corpus: Corpus) -> bool:
    m = corpus.mod(DCV)
    for f in m.functions.values():
        if f.is_lambda or f.name in ("validate_field", "validate_fields"):
            continue
        if store_events(corpus, f):
            return False
    return True


# ---------------------------------------------------------------------------
# store events inside a validator (used by R2, R3, R4)


def _direct_stores(f: FunctionInfo, obj: str) -> list[ast.AST]:
    """Nodes in ``f`` that store an attribute on the object named ``obj``."""
    out: list[ast.AST] = []
    for n in f.local_nodes():
        if isinstance(n, ast.Call):
            d = dotted(n.func) or ""
            if d in ("setattr", "delattr") and n.args and isinstance(n.args[0], ast.Name) and n.args[0].id == obj:
                out.append(n)
            elif d.endswith("__setattr__") and n.args and isinstance(n.args[0], ast.Name) and n.args[0].id == obj:
                out.append(n)
            elif isinstance(n.func, ast.Attribute) and n.func.attr in ("update", "__setitem__") and unparse(n.func.value) == f"{obj}.__dict__":
                out.append(n)
        elif isinstance(n, (ast.Assign, ast.AugAssign, ast.AnnAssign)):
            tgts = n.targets if isinstance(n, ast.Assign) else [n.target]
            for t in tgts:
                for tt in (t.elts if isinstance(t, (ast.Tuple, ast.List)) else [t]):
                    if isinstance(tt, ast.Attribute) and isinstance(tt.value, ast.Name) and tt.value.id == obj:
                        out.append(n)
                    elif isinstance(tt, ast.Subscript) and unparse(tt.value) == f"{obj}.__dict__":
                        out.append(n)
    return out


def store_events(corpus: Corpus, f: FunctionInfo) -> list[ast.AST]:
    """Stores on the first parameter of validator ``f``: direct, or through one level of a package helper."""
    if not f.params:
        return []
    inst = f.params[0]
    out = _direct_stores(f, inst)
    for n in f.local_nodes():
        if isinstance(n, ast.Call) and isinstance(n.func, ast.Name):
            callee = corpus.find_function(f.module.resolve(n.func.id))
            if callee is None or callee.fq == f.fq or callee.is_lambda:
                continue
            for i, a in enumerate(n.args):
                if isinstance(a, ast.Name) and a.id == inst and i < len(callee.params) and _direct_stores(callee, callee.params[i]):
                    out.append(n)
    return out


def custom_validators(corpus: Corpus) -> dict[str, FunctionInfo]:
    """fq -> FunctionInfo of every custom validator named in a field's metadata."""
    out: dict[str, FunctionInfo] = {}
    mod = corpus.mod(MAIN)
    for fld in config_fields(corpus):
        v = fld.meta.get("validator")
        if v is None:
            continue
        try:
            kinds = [classify_validator(corpus, mod, v)]
        except Unsupported:
            continue
        while kinds:
            k = kinds.pop()
            if k[0] == "list":
                kinds.extend(k[1])
            elif k[0] == "custom":
                out[k[1].fq] = k[1]
    return out


def field_is_coercing(corpus: Corpus, fld: Field) -> bool:
    mod = corpus.mod(MAIN)
    v = fld.meta.get("validator")
    if v is None:
        return False
    kinds = [classify_validator(corpus, mod, v)]
    while kinds:
        k = kinds.pop()
        if k[0] == "list":
            kinds.extend(k[1])
        elif k[0] == "custom" and store_events(corpus, k[1]):
            return True
    return False


# ---------------------------------------------------------------------------
# R1


@rule("C13.R1")
def r1_validator_types(corpus: Corpus, rep: Report, tier: str):
    rep.rule("C13.R1", "every MdParserConfig field has a validator; combinator validators agree with the annotation, including optionality")
    mod = corpus.mod(MAIN)
    for p in verify_combinators(corpus):
        rep.error("C13.R1", f"dc_validators: {p}")
    if not _no_combinator_stores(corpus):
        rep.error("C13.R1", "a dc_validators combinator stores on the instance (assumed non-coercing)")
    n_comb = 0
    for fld in config_fields(corpus):
        k = f"{mod.name}:{CONFIG_CLS}.{fld.name}"
        site = mod.site(fld.stmt)
        v = fld.meta.get("validator")
        if v is None:
            rep.violation("C13.R1", k + "|has validator", site, f"field `{fld.name}` has no metadata['validator']: validate_field silently accepts every value of every type")
            continue
        kind = classify_validator(corpus, mod, v)
        if kind[0] == "custom":
            f = kind[1]
            if len(f.params) < 3:
                rep.violation("C13.R1", k + "|custom validator signature", site, f"{f.qualname} does not take (inst, field, value)")
            else:
                rep.listed("C13.R1", k + "|custom", site, f"custom validator {f.qualname}: body not compared with the annotation `{unparse(fld.ann)}`" + ("; coercing (R2, R3)" if store_events(corpus, f) else ""))
                rep.ok("C13.R1", k + "|has validator", site, f.qualname)
            continue
        if kind[0] == "list":
            raise Unsupported(f"list of validators on field {fld.name}")
        n_comb += 1
        a = ashape(fld.ann)
        vs = vshape(corpus, mod, v)
        probs = agree(a, vs)
        if probs:
            rep.violation("C13.R1", k + "|annotation vs validator", site, f"`{fld.name}: {unparse(fld.ann)}` validated by `{short(v, 70)}`: " + "; ".join(probs))
        else:
            rep.ok("C13.R1", k + "|annotation vs validator", site, f"{unparse(fld.ann)} <-> {short(v, 70)}")
    if n_comb < 15:
        rep.error("C13.R1", f"only {n_comb} combinator-validated fields found (24 on the pinned tree)")
    rep.expect_min("C13.R1", 25, "30 fields on the pinned tree")


# ---------------------------------------------------------------------------
# R2 commit after validate


def _is_validator_call(corpus: Corpus, f: FunctionInfo, n: ast.Call) -> bool:
    """A call that applies a validator: ``comb(...)(inst, field, value)`` or a named validator function."""
    if isinstance(n.func, ast.Call):
        return True
    if isinstance(n.func, ast.Name) and len(n.args) >= 3 and _applied_combinator(f, n) is not None:
        return True
    d = dotted(n.func)
    if d is None:
        return False
    full = f.module.resolve(d)
    if full.startswith(corpus.mod(DCV).name + "."):
        return True
    callee = corpus.find_function(full)
    return callee is not None and callee.fq in custom_validators(corpus)


def rejection_after_store(corpus: Corpus, f: FunctionInfo):
    """(store node, rejecting node, kind) when validator ``f`` can still reject after storing on its instance, else None."""
    stores = store_events(corpus, f)
    if not stores:
        return None
    cfg = get_cfg(f)
    for s in stores:
        st = cfg.stmt_of(s)
        for n in cfg.reachable_from(st):
            if not isinstance(n, ast.stmt) or (n is st and cfg.loops.get(st) is None):
                continue
            if isinstance(n, ast.Raise):
                return (s, n, "raise")
            hdr_only = isinstance(n, (ast.If, ast.While, ast.For, ast.With, ast.Try))
            exprs = [n.test] if isinstance(n, (ast.If, ast.While)) else [n.iter] if isinstance(n, ast.For) else [i.context_expr for i in n.items] if isinstance(n, ast.With) else [] if hdr_only else [n]
            for e in exprs:
                for c in ast.walk(e):
                    if isinstance(c, ast.Call) and c is not s and _is_validator_call(corpus, f, c):
                        return (s, c, "validator call")
    return None


def validator_candidates(corpus: Corpus) -> dict[str, FunctionInfo]:
    cands: dict[str, FunctionInfo] = dict(custom_validators(corpus))
    updaters = {f.fq for f, _ in _validate_field_calls(corpus)}  # functions that apply validators are not validators
    for m in (corpus.mod(MAIN), corpus.mod(DCV)):
        for f in m.functions.values():
            if not f.is_lambda and f.cls is None and len(f.params) >= 3 and f.name not in ("validate_field", "validate_fields", "merge_file_level") and f.fq not in updaters:
                cands.setdefault(f.fq, f)
    return cands


def _enclosing_try(call: ast.AST) -> ast.Try | None:
    node: ast.AST = call
    for a in ancestors(call):
        if isinstance(a, (ast.FunctionDef, ast.AsyncFunctionDef, ast.Lambda)):
            return None
        if isinstance(a, ast.Try) and a.handlers and any(node is s for s in a.body):
            return a
        node = a
    return None


def _origin_seeds(f: FunctionInfo, obj: str) -> set[str]:
    """The validated object and the object(s) it was copied from (``obj = src.copy()``)."""
    seeds = {obj}
    for n in f.local_nodes():
        if isinstance(n, ast.Assign) and any(isinstance(t, ast.Name) and t.id == obj for t in n.targets):
            v = n.value
            if isinstance(v, ast.Call) and isinstance(v.func, ast.Attribute) and v.func.attr == "copy" and isinstance(v.func.value, ast.Name):
                seeds.add(v.func.value.id)
            elif isinstance(v, ast.Call) and v.args and isinstance(v.args[0], ast.Name) and (
                (dotted(v.func) or "").rsplit(".", 1)[-1] in ("replace", "copy", "deepcopy") or f.module.resolve(dotted(v.func) or "") in ("copy.copy", "copy.deepcopy", "dataclasses.replace")
            ):
                seeds.add(v.args[0].id)
    return seeds


def _origin_params(corpus: Corpus, f: FunctionInfo, obj: str, fieldvar: str | None = None) -> set[str]:
    """Parameters of the helper ``f`` that, at every call site, receive a value computed from the object bound to
    ``obj`` or from the object that one was copied from."""
    if obj not in f.params:
        return set()
    callers = _callers_of(corpus, f)
    if not callers:
        return set()
    out = set(f.params)
    for g, c, bind in callers:
        a = bind.get(obj)
        if not isinstance(a, ast.Name):
            return set()
        fa = bind.get(fieldvar) if fieldvar else None
        gfield = fa.id if isinstance(fa, ast.Name) else None
        origin = _derived_names(g, _origin_seeds(g, a.id) | _origin_params(corpus, g, a.id, gfield)) - {gfield}
        out &= {p for p, e in bind.items() if _free_names(e) & origin}
    return out


def _derived_names(f: FunctionInfo, seeds: set[str]) -> set[str]:
    """Names whose value is computed from ``seeds`` (flow-insensitive closure over assignments and loop targets)."""
    der = set(seeds)
    changed = True
    while changed:
        changed = False
        for n in f.local_nodes():
            if isinstance(n, ast.Assign):
                tg, val = n.targets, n.value
            elif isinstance(n, (ast.AnnAssign, ast.AugAssign)) and n.value is not None:
                tg, val = [n.target], n.value
            elif isinstance(n, ast.For):
                tg, val = [n.target], n.iter
            else:
                continue
            if not (_free_names(val) & der):
                continue
            for t in tg:
                for x in ast.walk(t):
                    if isinstance(x, ast.Name) and isinstance(x.ctx, ast.Store) and x.id not in der:
                        der.add(x.id)
                        changed = True
                for tt in (t.elts if isinstance(t, (ast.Tuple, ast.List)) else [t]):
                    # d[k] = v / d.a = v: the container now carries the derived value
                    root = _root_name(tt) if isinstance(tt, (ast.Subscript, ast.Attribute)) else None
                    if root is not None and root not in der:
                        der.add(root)
                        changed = True
        for n in f.local_nodes():
            # d.update(v) / l.append(v) / d.setdefault(k, v)
            if isinstance(n, ast.Call) and isinstance(n.func, ast.Attribute) and n.func.attr in MUTATORS:
                root = _root_name(n.func.value)
                if root is not None and root not in der and any(_free_names(a) & der for a in list(n.args) + [kw.value for kw in n.keywords]):
                    der.add(root)
                    changed = True
    return der


def catching_callers(corpus: Corpus) -> list[tuple[FunctionInfo, ast.Call, ast.ExceptHandler, bool, str]]:
    """Call sites that apply validators to an object and survive a rejection: (function, call, handler,
    restores?, why).  ``restores`` = every path from the handler to the code that goes on using the object
    passes a store of a value that does not derive from the rejected one."""

    def build():
        out = []
        dcv = corpus.mod(DCV).name
        for f in corpus.all_functions():
            if f.is_lambda or f.module.name == dcv:
                continue
            for n in f.local_nodes():
                if not (isinstance(n, ast.Call) and dotted(n.func)):
                    continue
                full = f.module.resolve(dotted(n.func))
                if full == f"{dcv}.validate_fields":
                    if f.name != "__post_init__" and _enclosing_try(n) is not None:
                        raise Unsupported(f"{f.fq} calls validate_fields inside a try on an existing object")
                    continue
                if full != f"{dcv}.validate_field":
                    continue
                tr = _enclosing_try(n)
                if tr is None:
                    continue  # the rejection leaves the function; the object under validation is dropped with it
                obj, fieldvar, val = _vf_args(n)
                raw, unknown = taint(f, val)
                cfg = get_cfg(f)
                hdr = cfg.loops.get(cfg.stmt_of(n))
                clean = set()
                origin = _derived_names(f, _origin_seeds(f, obj) | _origin_params(corpus, f, obj, fieldvar)) - {fieldvar}
                for st in obj_stores(f, obj):
                    if st.value is not None and _expr_kind(st.value, raw, unknown) == "clean":
                        if _free_names(st.value) & origin:
                            clean.add(cfg.stmt_of(st.node))
                        elif any(st.node is x for hh in tr.handlers for hs in hh.body for x in ast.walk(hs)):
                            corpus._cache.setdefault("c13-foreign-restores", []).append((f, st.node))
                for h in tr.handlers:
                    stops = [x for x in ((hdr,) if hdr is not None else ()) + ("EXIT",)]
                    unrestored = any(cfg.paths_avoiding(("H", h), stop, lambda x: x in clean) for stop in stops)
                    out.append((f, n, h, not unrestored, "a clean value is re-stored on every path out of the handler" if not unrestored else "some path out of the handler stores nothing"))
        return out

    return corpus.cache("c13-catching-callers", build)


@rule("C13.R2")
def r2_commit_after_validate(corpus: Corpus, rep: Report, tier: str):
    rep.rule(
        "C13.R2",
        "a validator that stores on the instance and can still reject afterwards is only tolerable where every caller that survives the rejection re-stores a clean value "
        "(constructor: the instance is discarded; merge_file_level: the handler restores)",
    )
    callers = catching_callers(corpus)
    for fq, f in sorted(validator_candidates(corpus).items()):
        stores = store_events(corpus, f)
        if not stores:
            continue
        rep.saw_function(fq)
        bad = rejection_after_store(corpus, f)
        k = f"{fq}|no observable rejection after the store"
        if not bad:
            rep.ok("C13.R2", k, f.module.site(stores[0]), f"{len(stores)} store(s), nothing can reject afterwards")
            continue
        s, n, what = bad
        keep = [(cf, c, h) for cf, c, h, restores, _ in callers if not restores]
        if not keep:
            rep.ok(
                "C13.R2",
                k,
                f.module.site(s),
                f"`{short(n, 50)}` ({what}) can reject after the store, unobservably: a failing constructor discards the instance and "
                f"{', '.join(sorted({cf.qualname for cf, *_ in callers})) or 'no caller'} re-stores a clean value in the handler",
            )
        else:
            cf, c, h = keep[0]
            rep.violation(
                "C13.R2",
                k,
                f.module.site(s),
                f"`{short(s, 60)}` commits the value on the instance, `{short(n, 70)}` ({what}, line {n.lineno}) can still reject it, and the handler "
                f"`except {unparse(h.type) if h.type else ''}` in {cf.qualname} keeps the object without re-storing the field: the value is reported as invalid and applied",
                [f"store {f.module.site(s)}", f"{what} {f.module.site(n)}", f"handler {cf.module.site(h)}"],
            )
    rep.expect_min("C13.R2", 3, "four coercing validators on the pinned tree")


# ---------------------------------------------------------------------------
# taint of the raw front-matter value (R3, R5)

TRANSPARENT_CALLS = {"dict", "list", "tuple", "set", "frozenset", "copy", "deepcopy", "copy.copy", "copy.deepcopy"}


def _pure_helper(call: ast.Call):
    """(FunctionInfo, returned expr) when ``call`` goes to a module-level helper that is just ``return <expr over its params>``."""
    if not isinstance(call.func, ast.Name):
        return None
    mod = getattr(call, "_mod", None)
    callee = mod.functions.get(call.func.id) if mod is not None else None
    if callee is None or callee.is_lambda or callee.cls is not None:
        return None
    body = [st for st in callee.node.body if not (isinstance(st, ast.Expr) and isinstance(st.value, ast.Constant))]
    if len(body) != 1 or not isinstance(body[0], ast.Return) or body[0].value is None:
        return None
    ret = body[0].value
    if any(isinstance(x, ast.Call) and (dotted(x.func) or "") not in TRANSPARENT_CALLS for x in ast.walk(ret)):
        return None
    if not (_free_names(ret) - set(TRANSPARENT_CALLS)) <= set(callee.params):
        return None
    return callee, ret


def _shallow_copy_of(e: ast.AST) -> ast.expr | None:
    """``a`` when ``e`` is ``dict(a)``, ``a.copy()``, ``copy.copy(a)`` or ``{**a}``: a new dict with a's items."""
    if isinstance(e, ast.Dict) and len(e.keys) == 1 and e.keys[0] is None:
        return e.values[0]
    if isinstance(e, ast.Call) and not e.keywords and not any(isinstance(a, ast.Starred) for a in e.args):
        d = dotted(e.func) or ""
        if d in ("dict", "copy.copy", "copy") and len(e.args) == 1:
            return e.args[0]
        if isinstance(e.func, ast.Attribute) and e.func.attr == "copy" and not e.args and d != "copy.copy":
            return e.func.value
    return None


def _local_copy_source(upd: ast.Call) -> ast.expr | None:
    """For ``m.update(...)`` as a statement of its own: the expression ``a`` when ``m`` is a local name whose only binding in the
    function is ``m = <shallow copy of a>``, made earlier in the same statement list (so once per execution of the update,
    and not shared with anything that outlives it)."""
    m = upd.func.value
    st = parent(upd)
    if not (isinstance(m, ast.Name) and isinstance(st, ast.Expr)):
        return None
    fn = next((a for a in ancestors(upd) if isinstance(a, (ast.FunctionDef, ast.AsyncFunctionDef, ast.Lambda))), None)
    if not isinstance(fn, (ast.FunctionDef, ast.AsyncFunctionDef)):
        return None
    a_ = fn.args
    if m.id in {x.arg for x in a_.posonlyargs + a_.args + a_.kwonlyargs + [y for y in (a_.vararg, a_.kwarg) if y is not None]}:
        return None
    binds = [x for x in ast.walk(fn) if isinstance(x, ast.Name) and x.id == m.id and isinstance(x.ctx, (ast.Store, ast.Del))]
    if len(binds) != 1:
        return None
    bst = parent(binds[0])
    if not (isinstance(bst, ast.Assign) and len(bst.targets) == 1 and bst.targets[0] is binds[0]):
        return None
    block = next((v for _, v in ast.iter_fields(parent(st)) if isinstance(v, list) and any(x is st for x in v)), None)
    if block is None or not any(x is bst for x in block) or [x is bst for x in block].index(True) > [x is st for x in block].index(True):
        return None
    return _shallow_copy_of(bst.value)


def merge_operands(n: ast.AST, raw: set[str]):
    """Operands (in override order) when ``n`` builds a merged dict: ``{**a, **b}``, ``a | b`` or a pure helper returning one;
    the string "inplace" for ``a.update(b)``; None otherwise."""
    if isinstance(n, ast.Dict) and n.keys and len(n.keys) >= 2 and all(kk is None for kk in n.keys):
        return list(n.values)
    if isinstance(n, ast.BinOp) and isinstance(n.op, ast.BitOr) and not isinstance(parent(n), ast.Subscript) and _free_names(n) & raw and not _free_names(n) <= raw:
        return [n.left, n.right]
    if isinstance(n, ast.Call) and isinstance(n.func, ast.Attribute) and n.func.attr == "update" and any(_free_names(a) & raw for a in n.args) and not (_free_names(n.func.value) & raw):
        src = _local_copy_source(n)
        if src is not None and not n.keywords and len(n.args) == 1 and not isinstance(n.args[0], ast.Starred):
            return [src, n.args[0]]  # m = dict(a); m.update(b)  ==  {**a, **b}
        return "inplace"
    if isinstance(n, ast.Call):
        ph = _pure_helper(n)
        if ph is not None and not n.keywords and not any(isinstance(a, ast.Starred) for a in n.args):
            callee, ret = ph
            inner = ret.values if isinstance(ret, ast.Dict) and ret.keys and len(ret.keys) >= 2 and all(kk is None for kk in ret.keys) else [ret.left, ret.right] if isinstance(ret, ast.BinOp) and isinstance(ret.op, ast.BitOr) else None
            if inner and all(isinstance(x, ast.Name) and x.id in callee.params and callee.params.index(x.id) < len(n.args) for x in inner):
                ops = [n.args[callee.params.index(x.id)] for x in inner]
                if any(_free_names(o) & raw for o in ops):
                    return ops
    return None


def _expr_kind(e: ast.AST, raw: set[str], unknown: set[str]) -> str:
    """clean | raw | unknown - how ``e`` relates to the raw value."""
    names = _free_names(e)
    if names & unknown:
        return "unknown"
    if not (names & raw):
        return "clean"

    def transparent(n: ast.AST) -> bool:
        if isinstance(n, ast.Call):
            if not ((dotted(n.func) or "") in TRANSPARENT_CALLS) and _pure_helper(n) is None:
                # a call that receives the raw value may normalise it
                inner = set()
                for a in list(n.args) + [kw.value for kw in n.keywords]:
                    inner |= _free_names(a)
                if isinstance(n.func, ast.Attribute):
                    inner |= _free_names(n.func.value)
                if inner & raw:
                    return False
        return all(transparent(c) for c in ast.iter_child_nodes(n))

    return "raw" if transparent(e) else "unknown"


def taint(f: FunctionInfo, seed: str) -> tuple[set[str], set[str]]:
    raw, unknown = {seed}, set()
    changed = True
    while changed:
        changed = False
        for n in f.local_nodes():
            if isinstance(n, ast.Assign):
                tg, val = n.targets, n.value
            elif isinstance(n, (ast.AnnAssign, ast.AugAssign)) and n.value is not None:
                tg, val = [n.target], n.value
            elif isinstance(n, ast.NamedExpr):
                tg, val = [n.target], n.value
            else:
                continue
            kind = _expr_kind(val, raw, unknown)
            if kind == "clean":
                continue
            for t in tg:
                for x in ast.walk(t):
                    if isinstance(x, ast.Name) and isinstance(x.ctx, ast.Store):
                        dest = raw if kind == "raw" else unknown
                        if x.id not in dest:
                            dest.add(x.id)
                            changed = True
    return raw, unknown


class ObjStore:
    def __init__(self, node, value, attr):
        self.node: ast.AST = node
        self.value: ast.expr | None = value
        self.attr: ast.expr | str | None = attr


def _helper_stores(f: FunctionInfo, obj: str) -> list[ObjStore]:
    """Stores made by a module-level helper that receives ``obj``: the helper's stored value is mapped back to the
    caller's argument expressions (a tuple of them when several parameters are involved)."""
    out = []
    for n in f.local_nodes():
        if not (isinstance(n, ast.Call) and isinstance(n.func, ast.Name)) or n.keywords and any(k.arg is None for k in n.keywords):
            continue
        callee = f.module.functions.get(n.func.id)
        if callee is None or callee.fq == f.fq or callee.is_lambda or callee.cls is not None:
            continue
        params = callee.params
        bound: dict[str, ast.expr] = {}
        for i, a in enumerate(n.args):
            if isinstance(a, ast.Starred) or i >= len(params):
                bound = {}
                break
            bound[params[i]] = a
        for kw in n.keywords:
            if kw.arg in params:
                bound[kw.arg] = kw.value
        for pname, a in list(bound.items()):
            if not (isinstance(a, ast.Name) and a.id == obj):
                continue
            for st in _plain_obj_stores(callee, pname):
                if st.value is None:
                    out.append(ObjStore(n, None, None))
                    continue
                used = _free_names(st.value)
                local_defs = {x.id for x in callee.local_nodes() if isinstance(x, ast.Name) and isinstance(x.ctx, ast.Store)}
                if used & local_defs:
                    raise Unsupported(f"helper {callee.qualname} computes the stored value locally: {short(st.value, 50)}")
                args = [bound[u] for u in sorted(used) if u in bound]
                val = args[0] if len(args) == 1 and isinstance(st.value, ast.Name) else ast.Tuple(elts=args or [ast.Constant(value=None)], ctx=ast.Load())
                out.append(ObjStore(n, val, None))
    return out


def obj_stores(f: FunctionInfo, obj: str) -> list[ObjStore]:
    return _plain_obj_stores(f, obj) + _helper_stores(f, obj)


def _plain_obj_stores(f: FunctionInfo, obj: str) -> list[ObjStore]:
    out = []
    for n in _direct_stores(f, obj):
        if isinstance(n, ast.Call):
            d = dotted(n.func) or ""
            if d == "setattr" and len(n.args) == 3:
                out.append(ObjStore(n, n.args[2], n.args[1]))
            elif d.endswith("__setattr__") and len(n.args) == 3:
                out.append(ObjStore(n, n.args[2], n.args[1]))
            elif d == "delattr":
                out.append(ObjStore(n, None, n.args[1] if len(n.args) > 1 else None))
            else:
                raise Unsupported(f"store idiom not understood: {short(n, 60)}")
        else:
            if isinstance(n, ast.Assign) and len(n.targets) == 1 and isinstance(n.targets[0], ast.Attribute):
                out.append(ObjStore(n, n.value, n.targets[0].attr))
            elif isinstance(n, (ast.AnnAssign, ast.AugAssign)) and isinstance(n.target, ast.Attribute):
                out.append(ObjStore(n, n.value, n.target.attr))
            else:
                raise Unsupported(f"store idiom not understood: {short(n, 60)}")
    return out


def _metadata_flag(t: ast.expr, fieldvar: str, _depth: int = 0) -> str | None:
    """Constant K when ``t`` tests ``<fieldvar>.metadata`` for K - directly, through ``bool(...)`` or through a local
    name that is assigned exactly once from such a test."""
    if isinstance(t, ast.Call) and dotted(t.func) == "bool" and len(t.args) == 1 and not t.keywords:
        return _metadata_flag(t.args[0], fieldvar, _depth + 1)
    if isinstance(t, ast.Name) and _depth < 3:
        from ..corpus import enclosing_function

        f = enclosing_function(t)
        if f is not None:
            defs = [n.value for n in f.local_nodes() if isinstance(n, (ast.Assign, ast.AnnAssign)) and n.value is not None and any(isinstance(x, ast.Name) and x.id == t.id for x in (n.targets if isinstance(n, ast.Assign) else [n.target]))]
            if len(defs) == 1 and t.id not in f.params:
                return _metadata_flag(defs[0], fieldvar, _depth + 1)
        return None
    return _metadata_flag_direct(t, fieldvar)


def _metadata_flag_direct(t: ast.expr, fieldvar: str) -> str | None:
    md = f"{fieldvar}.metadata"
    if isinstance(t, ast.Call) and isinstance(t.func, ast.Attribute) and t.func.attr == "get" and unparse(t.func.value) == md and t.args and isinstance(t.args[0], ast.Constant):
        if len(t.args) == 1 and not t.keywords:
            return t.args[0].value
        if len(t.args) == 2 and isinstance(t.args[1], ast.Constant) and not t.args[1].value:
            return t.args[0].value
    if isinstance(t, ast.Subscript) and unparse(t.value) == md and isinstance(t.slice, ast.Constant):
        return t.slice.value
    if isinstance(t, ast.Compare) and len(t.ops) == 1 and isinstance(t.ops[0], ast.In) and isinstance(t.left, ast.Constant) and unparse(t.comparators[0]) == md:
        return t.left.value
    return None


def _validate_field_calls(corpus: Corpus) -> list[tuple[FunctionInfo, ast.Call]]:
    out = []
    vf = corpus.mod(DCV).func("validate_field")
    for f in corpus.all_functions():
        if f.is_lambda or f.module.name == vf.module.name:
            continue
        for n in f.local_nodes():
            if isinstance(n, ast.Call) and dotted(n.func) and f.module.resolve(dotted(n.func)) == f"{vf.module.name}.validate_field":
                out.append((f, n))
    return out


def _callers_of(corpus: Corpus, f: FunctionInfo) -> list[tuple[FunctionInfo, ast.Call, dict[str, ast.expr]]]:
    """Call sites (by plain name, same module) of the module-level function ``f`` with their parameter binding."""
    if f.cls is not None or f.parent_func is not None or f.is_lambda:
        return []

    def build():
        out = []
        for g in f.module.functions.values():
            if g.is_lambda or g.fq == f.fq:
                continue
            for n in g.local_nodes():
                if isinstance(n, ast.Call) and isinstance(n.func, ast.Name) and n.func.id == f.name and f.module.functions.get(f.name) is f:
                    bind: dict[str, ast.expr] = {}
                    ok = True
                    for i, a in enumerate(n.args):
                        if isinstance(a, ast.Starred) or i >= len(f.params):
                            ok = False
                            break
                        bind[f.params[i]] = a
                    for kw in n.keywords:
                        if kw.arg is None or kw.arg not in f.params:
                            ok = False
                        else:
                            bind[kw.arg] = kw.value
                    if ok:
                        out.append((g, n, bind))
        return out

    return corpus.cache(("c13-callers", f.fq), build)


class Site:
    """One per-field update: ``validate_field(obj, field, raw)`` in merge_file_level itself or in a helper it calls."""

    def __init__(self, U, call, warn, via):
        self.U: FunctionInfo = U
        self.call: ast.Call = call
        self.obj, self.fieldvar, self.val = _vf_args(call)
        self.warn: str | None = warn
        self.via = via  # (caller FunctionInfo, call node, binding) when U is a helper


def update_sites(corpus: Corpus) -> list[Site]:
    def build():
        mfl = corpus.func(f"{MAIN}:merge_file_level")
        out = []
        for f, call in _validate_field_calls(corpus):
            if f.fq == mfl.fq:
                out.append(Site(f, call, mfl.params[2] if len(mfl.params) > 2 else None, None))
                continue
            for depth_caller, c, bind in _callers_of(corpus, f):
                via = None
                if depth_caller.fq == mfl.fq:
                    via = (depth_caller, c, bind)
                else:
                    # two levels: merge_file_level -> helper -> helper
                    for g2, c2, bind2 in _callers_of(corpus, depth_caller):
                        if g2.fq == mfl.fq:
                            via = (depth_caller, c, bind)
                if via is None:
                    continue
                warn = None
                caller_warn = mfl.params[2] if depth_caller.fq == mfl.fq and len(mfl.params) > 2 else None
                for pname, a in bind.items():
                    if isinstance(a, ast.Name) and (a.id == caller_warn or (caller_warn is None and a.id in depth_caller.params and "warn" in a.id)):
                        warn = pname
                out.append(Site(f, call, warn, via))
                break
        return out

    return corpus.cache("c13-update-sites", build)


def _role_text(node: ast.AST, obj: str, fieldvar: str, val: str, n: int = 80) -> str:
    """Text of ``node`` with the local names of the three validate_field roles replaced by their roles
    (keys must survive a renaming of locals)."""
    import re

    t = unparse(node)
    for name, role in ((obj, "<obj>"), (fieldvar, "<field>"), (val, "<raw>")):
        t = re.sub(rf"\b{re.escape(name)}\b", role, t)
    return t if len(t) <= n else t[: n - 3] + "..."


VF_ROLES = "validate_field(<obj>, <field>, <raw>)"


def _vf_args(call: ast.Call) -> tuple[str, str, str]:
    if len(call.args) != 3 or call.keywords or not all(isinstance(a, ast.Name) for a in call.args):
        raise Unsupported(f"validate_field call with non-name arguments: {short(call, 70)}")
    return call.args[0].id, call.args[1].id, call.args[2].id


@rule("C13.R3")
def r3_no_raw_overwrite(corpus: Corpus, rep: Report, tier: str):
    rep.rule("C13.R3", "after validate_field(obj, f, v) no store of the raw v to obj follows, unless guarded by a metadata flag of non-coercing fields only")
    fields = config_fields(corpus)
    n = 0
    for f, call in _validate_field_calls(corpus):
        rep.saw_function(f.fq)
        rep.saw_call(f.module.site(call))
        obj, fieldvar, val = _vf_args(call)
        raw, unknown = taint(f, val)
        cfg = get_cfg(f)
        cst = cfg.stmt_of(call)
        later = [s for s in obj_stores(f, obj) if _reach_same_iteration(cfg, cst, cfg.stmt_of(s.node))]
        if not later:
            n += 1
            rep.ok("C13.R3", f"{f.fq}|{VF_ROLES}|no later store", f.module.site(call), "the validator's own store is final")
        for s in later:
            n += 1
            k = f"{f.fq}|after {VF_ROLES}|{_role_text(s.node, obj, fieldvar, val)}"
            site = f.module.site(s.node)
            kind = "clean" if s.value is None else _expr_kind(s.value, raw, unknown)
            if kind == "clean":
                rep.ok("C13.R3", k, site, "the stored value does not derive from the raw input")
                continue
            if kind == "unknown":
                raise Unsupported(f"{site}: the stored value passes through a call that may normalise it: {short(s.node, 70)}")
            sst = cfg.stmt_of(s.node)
            flags = [(_metadata_flag(t, fieldvar), pol) for t, pol in cfg.guards(sst)]
            pos = [fl for fl, pol in flags if fl is not None and pol]
            discharged = None
            for fl in pos:
                flagged = [x for x in fields if fl in x.meta and not (isinstance(x.meta[fl], ast.Constant) and not x.meta[fl].value)]
                coercing = [x.name for x in flagged if field_is_coercing(corpus, x)]
                if flagged and not coercing:
                    discharged = f"only reached for fields with metadata[{fl!r}] ({', '.join(x.name for x in flagged)}), none of which has a coercing validator"
                elif coercing:
                    discharged = None
                    rep.violation("C13.R3", k, site, f"raw value stored for fields flagged {fl!r}, but {coercing} have coercing validators: the normalised value is overwritten")
                    break
            else:
                if discharged:
                    rep.ok("C13.R3", k, site, discharged)
                elif any(fieldvar in _free_names(t) and _metadata_flag(t, fieldvar) is None for t, _ in cfg.guards(sst)):
                    raise Unsupported(f"{site}: store guarded by a field-dependent condition that is not a metadata flag")
                elif not [x for x in fields if field_is_coercing(corpus, x) and not any(fl is not None and not pol and fl in x.meta and not (isinstance(x.meta[fl], ast.Constant) and not x.meta[fl].value) for fl, pol in flags)]:
                    rep.ok("C13.R3", k, site, "only reached for fields without the excluding metadata flags, none of which has a coercing validator")
                else:
                    # fields excluded by a negative flag test (e.g. `if field.metadata.get("global_only"): continue`) never reach the store
                    co = [x.name for x in fields if field_is_coercing(corpus, x) and not any(fl is not None and not pol and fl in x.meta and not (isinstance(x.meta[fl], ast.Constant) and not x.meta[fl].value) for fl, pol in flags)]
                    rep.violation(
                        "C13.R3",
                        k,
                        site,
                        f"`{short(s.node, 60)}` re-assigns the raw value `{unparse(s.value)}` after validate_field has stored the normalised one: for the coercing fields "
                        f"({', '.join(co)}) the front-matter value keeps its raw spelling (list instead of dict/set, dotted path instead of callable) - not what the same global value gives",
                        [f"validate {f.module.site(call)}", f"store {site}"],
                    )
    # constructor-based update (copy(**{name: value})) is validated by construction
    mfl = corpus.func(f"{MAIN}:merge_file_level")
    if not update_sites(corpus):
        reval = [c for c in mfl.local_nodes() if isinstance(c, ast.Call) and ((isinstance(c.func, ast.Attribute) and c.func.attr == "copy" and c.keywords) or _resolves_to(mfl.module, c.func, "dataclasses.replace"))]
        if not reval:
            raise Unsupported("merge_file_level neither calls validate_field nor re-constructs the config with the update")
        for c in reval:
            n += 1
            rep.ok("C13.R3", f"{mfl.fq}|{short(c, 60)}", mfl.module.site(c), "update applied through the validating constructor")
    _r3_merge_last_store(corpus, rep)
    rep.expect_min("C13.R3", 1, "the per-field update in merge_file_level")


def _merge_exprs(f: FunctionInfo, raw: set[str]) -> list[ast.AST]:
    return [n for n in f.local_nodes() if isinstance(merge_operands(n, raw), list)]


def _r3_merge_last_store(corpus: Corpus, rep: Report) -> None:
    """For fields flagged merge_topmatter: on every path of one iteration that stores at all and does not pass a
    handler, the last store on the object is the merged dict (never the bare front-matter dict)."""
    mfl = corpus.func(f"{MAIN}:merge_file_level")
    if not any(fl.meta.get("merge_topmatter") is not None for fl in config_fields(corpus)):
        return
    for us in update_sites(corpus):
        U, call, mod = us.U, us.call, us.U.module
        obj, fieldvar, val = us.obj, us.fieldvar, us.val
        raw, unknown = taint(U, val)
        cfg = get_cfg(U)
        hdr = cfg.loops.get(cfg.stmt_of(call))
        merges = _merge_exprs(U, raw)
        merge_ids = {id(m) for m in merges}
        stores = {}
        for st in obj_stores(U, obj):
            stores.setdefault(cfg.stmt_of(st.node), []).append(st)
        # names that hold the merged dict after `x = {**old, **x}`
        merge_assign = {}
        for n in U.local_nodes():
            if isinstance(n, ast.Assign) and len(n.targets) == 1 and isinstance(n.targets[0], ast.Name) and n.value is not None:
                merge_assign[n] = n.targets[0].id

        def is_flag(t: ast.expr) -> bool:
            return _metadata_flag(t, fieldvar) == "merge_topmatter"

        def pruned(edge_node) -> bool:
            # an edge that is only taken by fields WITHOUT the merge flag
            if isinstance(edge_node, tuple) and edge_node[0] in ("T", "F") and isinstance(edge_node[1], ast.If):
                return any(is_flag(t) and not pol for t, pol in flow_facts(edge_node[1].test, edge_node[0] == "T"))
            return isinstance(edge_node, tuple) and edge_node[0] == "H"  # handler paths: R5

        def for_merge_field(e: ast.expr) -> ast.expr:
            # `A if flag else B` evaluated for a field that carries the flag
            while isinstance(e, ast.IfExp):
                fs_t = flow_facts(e.test, True)
                fs_f = flow_facts(e.test, False)
                if any(is_flag(t) and pol for t, pol in fs_t) and len(fs_t) == 1:
                    e = e.body
                elif any(is_flag(t) and not pol for t, pol in fs_t) and len(fs_t) == 1:
                    e = e.orelse
                else:
                    break
            return e

        start = ("T", hdr) if hdr is not None else "ENTRY"
        end = hdr if hdr is not None else "EXIT"
        seen = set()
        work = [(start, "none", frozenset())]
        witness = None
        while work:
            node, last, merged_names = work.pop()
            key = (id(node) if not isinstance(node, tuple) else (node[0], id(node[1])), last, merged_names)
            if key in seen:
                continue
            seen.add(key)
            if (node is end or node == "EXIT") and node is not start:
                if last == "raw":
                    witness = True
                    break
                continue
            if node in merge_assign:
                v = for_merge_field(node.value)
                if id(v) in merge_ids or (isinstance(v, ast.Name) and v.id in merged_names):
                    merged_names = merged_names | {merge_assign[node]}
                else:
                    merged_names = merged_names - {merge_assign[node]}
            for st in stores.get(node, []):
                v = for_merge_field(st.value) if st.value is not None else None
                if v is None:
                    last = "ok"
                elif id(v) in merge_ids or (isinstance(v, ast.Name) and v.id in merged_names):
                    last = "ok"
                else:
                    kind = _expr_kind(v, raw, unknown)
                    last = "raw" if kind == "raw" else "ok"
            for nx in cfg.succ.get(node, []):
                if nx == "RAISE" or pruned(nx):
                    continue
                work.append((nx, last, merged_names))
        k = f"{mfl.fq}|fields flagged merge_topmatter|last store of a successful update is the merge"
        site = mod.site(merges[0]) if merges else mod.site(call)
        if witness:
            rep.violation(
                "C13.R3",
                k,
                site,
                "for a field flagged merge_topmatter some successful path through the update loop ends with the bare front-matter dict as the last store "
                "(the merge is skipped under an additional condition): that dict replaces the global one instead of merging over it, e.g. `substitutions: {}` wipes the global substitutions",
            )
        else:
            rep.ok("C13.R3", k, site, "every successful path that stores ends with the merged dict")


# ---------------------------------------------------------------------------
# R5 invalid value path


@rule("C13.R5")
def r5_invalid_value_path(corpus: Corpus, rep: Report, tier: str):
    rep.rule("C13.R5", "merge_file_level: a rejected value gives exactly one MD_TOPMATTER warning and is not stored")
    mfl = corpus.func(f"{MAIN}:merge_file_level")
    sites = update_sites(corpus)
    if not sites:
        rep.listed("C13.R5", f"{mfl.fq}|no validate_field call", mfl.site(), "updates are not validated field by field here")
        raise Unsupported("merge_file_level does not call validate_field: invalid-value path not understood")
    if len(mfl.params) < 3:
        raise Unsupported("merge_file_level signature changed")
    warn_box = [mfl.params[2]]

    def n_warn(node) -> int:
        warn = warn_box[0]
        if not isinstance(node, ast.stmt) or isinstance(node, (ast.If, ast.For, ast.While, ast.Try, ast.With)):
            e = node.test if isinstance(node, (ast.If, ast.While)) else node.iter if isinstance(node, ast.For) else None
            if e is None:
                return 0
            return sum(1 for c in ast.walk(e) if isinstance(c, ast.Call) and isinstance(c.func, ast.Name) and c.func.id == warn)
        return sum(1 for c in ast.walk(node) if isinstance(c, ast.Call) and isinstance(c.func, ast.Name) and c.func.id == warn)

    for us in sites:
        U, call, mod = us.U, us.call, us.U.module
        obj, fieldvar, val = us.obj, us.fieldvar, us.val
        if us.warn is None:
            raise Unsupported(f"{U.qualname}: the warning callback of merge_file_level does not reach the function that validates")
        warn = warn_box[0] = us.warn
        cfg = get_cfg(U)
        raw, unknown = taint(U, val)
        tr = None
        node: ast.AST = call
        for a in ancestors(call):
            if isinstance(a, (ast.FunctionDef, ast.Lambda)):
                break
            if isinstance(a, ast.Try) and any(node is s for s in a.body) and a.handlers:
                tr = a
                break
            node = a
        kbase = f"{mfl.fq}|{VF_ROLES}"
        if tr is None:
            rep.violation("C13.R5", kbase + "|handler", mod.site(call), "validate_field is not inside a try: an invalid front-matter value aborts the parse instead of being ignored with a warning")
            continue
        hdr = cfg.loops.get(cfg.stmt_of(call))
        if hdr is None and us.via is None:
            raise Unsupported("validate_field is not called inside the per-update loop")
        for h in tr.handlers:
            ht = unparse(h.type) if h.type is not None else "BaseException"
            k = kbase + f"|except {ht}"
            site = mod.site(h)
            start = ("H", h)
            res = cfg.counts(start, {x for x in (hdr, "EXIT") if x is not None}, n_warn)
            problems = []
            if "EXIT" in res and hdr not in res:
                pass
            for stop, cnts in res.items():
                where = "the next update" if (stop is hdr or us.via is not None) else "the end of the function"
                if cnts != {1}:
                    problems.append(f"{'/'.join(str(c) if c < 2 else '2+' for c in sorted(cnts))} warning call(s) on the path from the handler to {where} (expected exactly 1)")
            if not res:
                problems.append("the handler never continues with the next update (it leaves by an exception)")
            # the warnings on that path are MD_TOPMATTER
            for s in h.body:
                for c in ast.walk(s):
                    if isinstance(c, ast.Call) and isinstance(c.func, ast.Name) and c.func.id == warn:
                        a0 = c.args[0] if c.args else None
                        if not (a0 is not None and (dotted(a0) or "").endswith("MystWarnings.MD_TOPMATTER") and mod.resolve(dotted(a0)).endswith("warnings_.MystWarnings.MD_TOPMATTER")):
                            problems.append(f"the warning is not typed MystWarnings.MD_TOPMATTER: `{short(c, 60)}`")
            # no store of the rejected value on the path
            for s in obj_stores(U, obj):
                sst = cfg.stmt_of(s.node)
                if cfg.paths_avoiding(start, sst, lambda n: n is hdr) and s.value is not None:
                    kind = _expr_kind(s.value, raw, unknown)
                    if kind == "unknown":
                        raise Unsupported(f"{mod.site(s.node)}: stored value passes through an unknown call")
                    if kind == "raw":
                        problems.append(f"`{short(s.node, 60)}` (line {s.node.lineno}) stores the rejected value after the handler ran")
            # if the rejected value can already be on the object when the handler starts, the handler must replace it
            cst = cfg.stmt_of(call)
            pre = [s for s in obj_stores(U, obj) if s.value is not None and _expr_kind(s.value, raw, unknown) == "raw" and _reach_same_iteration(cfg, cfg.stmt_of(s.node), cst) and not _reach_same_iteration(cfg, cst, cfg.stmt_of(s.node))]
            hazard = [vf.qualname for vf in validator_candidates(corpus).values() if rejection_after_store(corpus, vf)]
            note = "the rejected value is never on the object"
            if pre or hazard:
                restored = [r for cf, c, hh, r, _ in catching_callers(corpus) if hh is h]
                reason = f"`{short(pre[0].node, 50)}` stores the raw value before it is validated" if pre else f"{', '.join(hazard)} can store before rejecting"
                foreign = [nd for ff, nd in corpus._cache.get("c13-foreign-restores", []) if ff.fq == U.fq]
                if restored and all(restored):
                    note = f"{reason}; the handler re-stores the incoming configuration's value on every path"
                elif foreign:
                    problems.append(
                        f"{reason}, and the handler re-stores `{short(foreign[0], 60)}`, a value that is computed neither from the incoming configuration nor from the copy: "
                        "an invalid front-matter value must leave the global value in effect, not some other default"
                    )
                else:
                    problems.append(f"{reason}, and some path from the handler to the next update stores nothing over it: the rejected value stays in effect")
            if problems:
                rep.violation("C13.R5", k, site, "; ".join(problems))
            else:
                rep.ok("C13.R5", k, site, f"one MD_TOPMATTER warning, then the next update; {note}")
    # no update is dropped silently: every path through one update passes validate_field or a warning
    mcfg = get_cfg(mfl)
    mwarn = mfl.params[2]

    def has_call(node, pred) -> bool:
        if isinstance(node, tuple) or isinstance(node, str):
            return False
        exprs = [node.test] if isinstance(node, (ast.If, ast.While)) else [node.iter] if isinstance(node, ast.For) else [i.context_expr for i in node.items] if isinstance(node, ast.With) else [] if isinstance(node, ast.Try) else [node]
        return any(isinstance(c, ast.Call) and pred(c) for e in exprs for c in ast.walk(e))

    for us in sites:
        U = us.U
        ucfg = get_cfg(U)
        in_mfl = us.call if us.via is None else us.via[1] if us.via[0].fq == mfl.fq else None
        k = f"{mfl.fq}|every update is validated or reported"
        problems = []
        witness = None
        if in_mfl is not None:
            hdr = mcfg.loops.get(mcfg.stmt_of(in_mfl))
            if hdr is None:
                raise Unsupported("merge_file_level: the per-update loop was not found")
            point = mcfg.stmt_of(in_mfl)
            stop_ok = lambda n: n is point or has_call(n, lambda c: isinstance(c.func, ast.Name) and c.func.id == mwarn)  # noqa: E731
            if mcfg.paths_avoiding(("T", hdr), hdr, stop_ok):
                # name the branch that skips
                skips = [n for n in mfl.local_nodes() if isinstance(n, ast.Continue) and mcfg.loops.get(n) is hdr and mcfg.paths_avoiding(("T", hdr), n, stop_ok)]
                witness = skips[0] if skips else hdr
                g = [fact_ for fact_ in mcfg.guards(witness)] if skips else []
                problems.append("an update can reach the next one without being validated and without a warning" + (f" (skipped under `{short(g[-1][0], 50)}`)" if g else ""))
        if us.via is not None:
            vpoint = ucfg.stmt_of(us.call)
            if ucfg.paths_avoiding("ENTRY", "EXIT", lambda n: n is vpoint or has_call(n, lambda c: isinstance(c.func, ast.Name) and c.func.id == us.warn)):
                problems.append(f"{U.qualname} can return without validating the value and without a warning")
                witness = witness or U.node
        if problems:
            rep.violation(
                "C13.R5",
                k,
                (mfl if witness is None or in_mfl is not None and witness is not U.node else U).module.site(witness) if witness is not None else mfl.site(),
                "; ".join(problems) + ": a front-matter key is dropped silently depending on its value or name - the same value set globally is validated (accepted and normalised, or rejected with an error)",
            )
        else:
            rep.ok("C13.R5", k, mfl.module.site(in_mfl) if in_mfl is not None else U.site(), "every path through an update passes validate_field or a topmatter warning")
    rep.expect_min("C13.R5", 1, "the handler of the validation try in merge_file_level")


# ---------------------------------------------------------------------------
# R7 short-circuit consistency in raise-conditions

SEQ_TYPES = {"list", "tuple", "set", "frozenset"}


def _binding_count(f: FunctionInfo, name: str) -> int:
    n = f.params.count(name)
    for x in f.local_nodes():
        if isinstance(x, ast.Name) and x.id == name and isinstance(x.ctx, (ast.Store, ast.Del)):
            n += 1
    return n


def _member_type_test(t: ast.expr, pol: bool):
    """If fact (t, pol) says 'some part of X has the wrong type': (X text, access kind) else None.
    access kind: 'iter' | 'int' | 'str'."""

    def isinst_on(e):
        return e.args[0] if isinstance(e, ast.Call) and dotted(e.func) == "isinstance" and len(e.args) == 2 else None

    if isinstance(t, ast.Call) and dotted(t.func) in ("all", "any") and len(t.args) == 1 and isinstance(t.args[0], (ast.GeneratorExp, ast.ListComp)):
        g = t.args[0]
        if len(g.generators) != 1 or g.generators[0].ifs or not isinstance(g.generators[0].target, ast.Name):
            return None
        var = g.generators[0].target.id
        elt, neg = g.elt, False
        if isinstance(elt, ast.UnaryOp) and isinstance(elt.op, ast.Not):
            elt, neg = elt.operand, True
        sub = isinst_on(elt)
        if sub is None or not (isinstance(sub, ast.Name) and sub.id == var):
            return None
        fn = dotted(t.func)
        if (fn == "all" and not neg and not pol) or (fn == "any" and neg and pol):
            return unparse(g.generators[0].iter), "iter"
        return None
    sub = isinst_on(t)
    if sub is not None and not pol and isinstance(sub, ast.Subscript) and isinstance(sub.slice, ast.Constant):
        kind = "int" if isinstance(sub.slice.value, int) else "str" if isinstance(sub.slice.value, str) else None
        if kind:
            return unparse(sub.value), kind
    return None


@rule("C13.R7")
def r7_short_circuit_consistency(corpus: Corpus, rep: Report, tier: str):
    rep.rule("C13.R7", "no raise-condition requires both `x is not a <container>` and a type test on x's members (the member test could then never reject a container)")
    n = 0
    for m in (corpus.mod(MAIN), corpus.mod(DCV)):
        for f in m.functions.values():
            if f.is_lambda:
                continue
            raises = [r for r in f.local_nodes() if isinstance(r, ast.Raise)]
            if not raises:
                continue
            cfg = get_cfg(f)
            seen_conditions = set()
            for r in sorted(raises, key=lambda x: x.lineno):
                tagged = []  # (test, pol, owner-if)
                for d in cfg.dom().get(r, set()):
                    if isinstance(d, tuple) and d[0] in ("T", "F") and isinstance(d[1], (ast.If, ast.While)):
                        for t, pol in flow_facts(d[1].test, d[0] == "T"):
                            tagged.append((t, pol, d[1]))
                if not tagged:
                    continue
                n += 1
                inner = max((o for _, _, o in tagged), key=lambda o: (o.lineno, o.col_offset))
                inner_pol = any(d == ("T", inner) for d in cfg.dom().get(r, set()))
                k = f"{f.fq}|raise when {'' if inner_pol else 'not '}({short(inner.test, 200)})"
                if k in seen_conditions:
                    continue
                seen_conditions.add(k)
                bad = None
                for t1, p1, o1 in tagged:
                    if p1 or not (isinstance(t1, ast.Call) and dotted(t1.func) == "isinstance" and len(t1.args) == 2):
                        continue
                    try:
                        types = set(_type_names(t1.args[1]))
                    except Unsupported:
                        continue
                    x = unparse(t1.args[0])
                    for t2, p2, o2 in tagged:
                        mt = _member_type_test(t2, p2)
                        if mt is None or mt[0] != x:
                            continue
                        need = SEQ_TYPES if mt[1] == "iter" else {"list", "tuple"} if mt[1] == "int" else {"dict"}
                        if not types or not types <= need:
                            continue
                        if o1 is not o2:
                            root = _root_name(t1.args[0])
                            if root is None or _binding_count(f, root) != 1:
                                continue
                        bad = (t1, t2, p2)
                if bad:
                    t1, t2, p2 = bad
                    rep.violation(
                        "C13.R7",
                        k,
                        m.site(r),
                        f"the raise needs `not {short(t1, 50)}` AND `{'' if p2 else 'not '}{short(t2, 60)}`: for a value that is a {unparse(t1.args[1])} the member test is never "
                        "evaluated, so a container with wrongly typed members is accepted (and any non-container whose iteration happens to pass, too); the two tests were meant to be alternatives (`or`)",
                    )
                else:
                    rep.ok("C13.R7", k, m.site(r))
    rep.expect_min("C13.R7", 15, "guarded raise statements in config/main.py and dc_validators.py (25 on the pinned tree)")


# ---------------------------------------------------------------------------
# R8 truthiness standing in for a None / type test


def _subjects(f: FunctionInfo) -> set[str]:
    """The validated value and the names bound to its parts (loop targets over it)."""
    subj = {f.params[2]}
    for _ in range(3):
        for n in f.local_nodes():
            if isinstance(n, ast.For) and _free_names(n.iter) & subj:
                for t in ast.walk(n.target):
                    if isinstance(t, ast.Name):
                        subj.add(t.id)
    return subj


def _branch_rejects(stmts: list[ast.stmt]) -> bool:
    return bool(stmts) and isinstance(stmts[-1], ast.Raise)


def _has_check(corpus: Corpus, f: FunctionInfo, stmts: list[ast.stmt]) -> bool:
    wrapped = set(f.parent_func.params) if f.parent_func is not None else set()
    for st in stmts:
        for n in ast.walk(st):
            if isinstance(n, ast.Raise):
                return True
            if isinstance(n, ast.Call) and (_is_validator_call(corpus, f, n) or (isinstance(n.func, ast.Name) and n.func.id in wrapped)):
                return True  # a validator is applied (named, built by a combinator, or the closure's wrapped one)
    return False


@rule("C13.R8")
def r8_truthiness_for_none(corpus: Corpus, rep: Report, tier: str):
    rep.rule(
        "C13.R8",
        "in a validator, the bare truthiness of the validated value (or of one of its items) never decides between accepting and checking unless its type is already established: "
        "`if not value: return` accepts 0, '', [], {} and False of any type where `value is None` was meant",
    )
    for fq, f in sorted(validator_candidates(corpus).items()):
        if len(f.params) < 3:
            continue
        rep.saw_function(fq)
        subj = _subjects(f)
        cfg = get_cfg(f)
        found = 0
        for iff in sorted((n for n in f.local_nodes() if isinstance(n, ast.If)), key=lambda n: (n.lineno, n.col_offset)):
            t_true = [(t.id, pol) for t, pol in flow_facts(iff.test, True) if isinstance(t, ast.Name) and t.id in subj]
            t_false = [(t.id, pol) for t, pol in flow_facts(iff.test, False) if isinstance(t, ast.Name) and t.id in subj]
            if not t_true and not t_false:
                continue
            for name in sorted({x for x, _ in t_true + t_false}):
                found += 1
                k = f"{fq}|truthiness of `{name}` in `if {short(iff.test, 60)}`"
                site = f.module.site(iff)
                typed = any(pol and isinstance(t, ast.Call) and dotted(t.func) == "isinstance" and t.args and unparse(t.args[0]) == name for t, pol in cfg.guards(iff))
                if typed:
                    rep.ok("C13.R8", k, site, f"the type of `{name}` is established by a dominating isinstance test: an emptiness test")
                    continue
                falsy_branch = None  # statements executed knowing the subject is falsy
                truthy_only = None  # statements executed only when the subject is truthy
                if (name, False) in t_true:
                    falsy_branch = iff.body
                if (name, False) in t_false:
                    falsy_branch = iff.orelse or []
                if (name, True) in t_true:
                    truthy_only = iff.body
                if (name, True) in t_false:
                    truthy_only = iff.orelse or []
                what = None
                if falsy_branch is not None and not _branch_rejects(falsy_branch):
                    what = (
                        f"when `{name}` is falsy the branch `{short(falsy_branch[0], 40) if falsy_branch else 'fall through'}` accepts it without any type test: "
                        "0, '', [], {} and False are accepted whatever the option's type (a `is None` test was meant)"
                    )
                elif truthy_only is not None and _has_check(corpus, f, truthy_only):
                    other = iff.orelse if truthy_only is iff.body else iff.body
                    if not _branch_rejects(other):
                        what = f"the checks in this branch only run when `{name}` is truthy: falsy values of the wrong type (0, '', [], {{}}, False) skip them and are accepted"
                if what:
                    rep.violation("C13.R8", k, site, what)
                else:
                    rep.ok("C13.R8", k, site, "the falsy side rejects")
        if not found:
            rep.ok("C13.R8", f"{fq}|no truthiness test on the validated value", f.site(), f"subjects: {', '.join(sorted(subj))}")
    rep.expect_min("C13.R8", 10, "6 custom validators and 5 combinator closures on the pinned tree")


# ---------------------------------------------------------------------------
# R10 a plain string must not pass as a container of strings

CONCRETE_CONTAINERS = {"list", "tuple", "set", "frozenset", "dict", "List", "Tuple", "Set", "FrozenSet", "Dict", "MutableSequence", "MutableSet", "MutableMapping", "Mapping", "deque"}
STR_ADMITTING = {"Sequence", "Iterable", "Collection", "Container", "Sized", "Reversible", "Hashable", "object"}


def _context_facts(cfg, node: ast.AST) -> list[tuple[ast.expr, bool]]:
    """Facts that hold when ``node`` is evaluated: dominating branch facts of its statement plus the short-circuit
    facts of the boolean / conditional expressions around it."""
    out = list(cfg.guards(cfg.stmt_of(node)))
    cur: ast.AST = node
    p_ = parent(cur)
    while p_ is not None and not isinstance(p_, ast.stmt):
        if isinstance(p_, ast.BoolOp) and cur in p_.values:
            i = p_.values.index(cur)
            for v in p_.values[:i]:
                out.extend(flow_facts(v, isinstance(p_.op, ast.And)))
        elif isinstance(p_, ast.IfExp):
            if cur is p_.body:
                out.extend(flow_facts(p_.test, True))
            elif cur is p_.orelse:
                out.extend(flow_facts(p_.test, False))
        cur, p_ = p_, parent(p_)
    if isinstance(p_, (ast.If, ast.While)) and cur is not p_.test:
        pass
    return out


def _isinstance_str_test(e: ast.AST, var: str | None = None) -> ast.expr | None:
    """The tested expression when ``e`` is ``isinstance(<x>, <types incl. str>)``."""
    if isinstance(e, ast.Call) and dotted(e.func) == "isinstance" and len(e.args) == 2:
        try:
            names = _type_names(e.args[1])
        except Unsupported:
            return None
        if "str" in names:
            return e.args[0]
    return None


def _str_member_tests(f: FunctionInfo) -> list[tuple[ast.AST, ast.expr, str]]:
    """(node where the container is consumed, container expression, how) for every test that the members of a
    container are str: iteration (for / all / any) or integer index."""
    out = []
    for n in f.local_nodes():
        if isinstance(n, ast.For) and isinstance(n.target, (ast.Name, ast.Tuple)):
            it, var = n.iter, None
            if isinstance(it, ast.Call) and dotted(it.func) == "enumerate" and it.args and isinstance(n.target, ast.Tuple) and len(n.target.elts) == 2 and isinstance(n.target.elts[1], ast.Name):
                it, var = it.args[0], n.target.elts[1].id
            elif isinstance(n.target, ast.Name):
                var = n.target.id
            if var is None or isinstance(it, ast.Call):
                continue  # .items()/.values()/zip(...): not something a str offers silently
            if any((x := _isinstance_str_test(c)) is not None and isinstance(x, ast.Name) and x.id == var for st in n.body for c in ast.walk(st)):
                out.append((n, it, "iteration"))
        elif isinstance(n, (ast.GeneratorExp, ast.ListComp, ast.SetComp)) and len(n.generators) == 1 and isinstance(n.generators[0].target, ast.Name):
            g = n.generators[0]
            if isinstance(g.iter, ast.Call):
                continue
            x = _isinstance_str_test(n.elt.operand if isinstance(n.elt, ast.UnaryOp) else n.elt)
            if x is not None and isinstance(x, ast.Name) and x.id == g.target.id:
                out.append((n, g.iter, "iteration"))
        else:
            x = _isinstance_str_test(n)
            if x is not None and isinstance(x, ast.Subscript) and isinstance(x.slice, ast.Constant) and isinstance(x.slice.value, int) and not isinstance(x.slice.value, bool):
                out.append((n, x.value, "integer index"))
    return out


def _container_verdict(corpus: Corpus, f: FunctionInfo, node: ast.AST, cont: ast.expr, depth: int = 0) -> tuple[str | None, str]:
    """("ok" | "bad" | "unknown" | None, reason): does the context in which ``node`` runs exclude that ``cont`` is a str?
    Facts of the function itself first; for a helper parameter, the facts at every call site."""
    cfg = get_cfg(f)
    ctext = unparse(cont)
    verdict, why = None, ""
    for t, pol in _context_facts(cfg, node):
        if not (isinstance(t, ast.Call) and dotted(t.func) == "isinstance" and len(t.args) == 2 and unparse(t.args[0]) == ctext):
            continue
        try:
            names = {x.rsplit(".", 1)[-1] for x in _type_names_dotted(t.args[1])} if not isinstance(t.args[1], ast.BinOp) else set(_type_names(t.args[1]))
        except Unsupported:
            continue
        if pol and names and names <= CONCRETE_CONTAINERS:
            return "ok", f"isinstance({ctext}, {unparse(t.args[1])})"
        if not pol and "str" in names:
            return "ok", f"not isinstance({ctext}, {unparse(t.args[1])})"
        if pol and names & STR_ADMITTING:
            verdict, why = "bad", unparse(t.args[1])
        elif pol and verdict is None:
            verdict, why = "unknown", unparse(t.args[1])
    root = _root_name(cont)
    if depth < 2 and root is not None and root in f.params and _binding_count(f, root) == 1:
        callers = _callers_of(corpus, f)
        if callers:
            reasons = []
            for g, c, bind in callers:
                a = bind.get(root)
                if a is None:
                    return verdict, why
                # the same access path on the caller's argument: val["classes"] -> <arg>["classes"]
                arg_cont = a if isinstance(cont, ast.Name) else None
                if arg_cont is None:
                    return verdict, why
                v2, w2 = _container_verdict(corpus, g, c, arg_cont, depth + 1)
                if v2 != "ok":
                    return (v2 or verdict), (w2 or why)
                reasons.append(f"{g.qualname}: {w2}")
            return "ok", "established at every call site (" + "; ".join(sorted(set(reasons))) + ")"
    return verdict, why


def _applied_combinator(f: FunctionInfo, call: ast.Call) -> ast.Call | None:
    """The ``deep_iterable(...)``-style factory call whose product ``call`` applies: ``comb(...)(inst, field, v)`` or
    ``v_ = comb(...)`` ... ``v_(inst, field, v)`` (single definition)."""
    dcv = "config.dc_validators."
    fac = None
    if isinstance(call.func, ast.Call):
        fac = call.func
    elif isinstance(call.func, ast.Name):
        defs = [n.value for n in f.local_nodes() if isinstance(n, (ast.Assign, ast.AnnAssign)) and n.value is not None and any(isinstance(t, ast.Name) and t.id == call.func.id for t in (n.targets if isinstance(n, ast.Assign) else [n.target]))]
        if len(defs) == 1 and isinstance(defs[0], ast.Call):
            fac = defs[0]
    if fac is not None and dcv in f.module.resolve(dotted(fac.func) or "") + ".":
        return fac
    return None


CONSUMERS = {"set", "frozenset", "list", "tuple", "sorted", "dict.fromkeys", "any", "all", "sum", "max", "min", "enumerate", "iter", "reversed"}


def _consumptions(f: FunctionInfo, name: str) -> list[ast.AST]:
    """Nodes that iterate the object bound to ``name``: set(x)/list(x)/..., ``for _ in x``, comprehensions over x, ``c in x``."""
    out: list[ast.AST] = []
    for n in f.local_nodes():
        if isinstance(n, ast.Call) and (dotted(n.func) or "") in CONSUMERS and n.args and isinstance(n.args[0], ast.Name) and n.args[0].id == name:
            out.append(n)
        elif isinstance(n, ast.For) and isinstance(n.iter, ast.Name) and n.iter.id == name:
            out.append(n)
        elif isinstance(n, ast.comprehension) and isinstance(n.iter, ast.Name) and n.iter.id == name:
            out.append(parent(n))
        elif isinstance(n, ast.Compare) and len(n.ops) == 1 and isinstance(n.ops[0], (ast.In, ast.NotIn)) and isinstance(n.comparators[0], ast.Name) and n.comparators[0].id == name:
            out.append(n)
        elif isinstance(n, ast.Call) and len(n.args) >= 3 and isinstance(n.args[2], ast.Name) and n.args[2].id == name and _applied_combinator(f, n) is not None:
            out.append(n)  # an inline combinator application iterates the value too
    return out


def _r10_collection_of_str_values(corpus: Corpus, rep: Report) -> int:
    """Custom validators of fields documented as a collection of str that iterate the value: (a) a str and a mapping are
    excluded before the value is iterated (a str iterates as characters, a mapping as its keys); (b) when the container
    test admits one-shot iterators (only an ABC such as Iterable), the caller's object is iterated once."""
    mod = corpus.mod(MAIN)
    n = 0
    by_validator: dict[str, list[Field]] = {}
    for fld in config_fields(corpus):
        v = fld.meta.get("validator")
        if v is None:
            continue
        kind = classify_validator(corpus, mod, v)
        a = ashape(fld.ann)
        a = a[1] if a[0] == "opt" else a
        if kind[0] == "custom" and a[0] == "iter" and a[2] == ("prim", "str"):
            by_validator.setdefault(kind[1].fq, []).append(fld)
    for fq, flds in sorted(by_validator.items()):
        f = corpus.func(fq.replace("myst_parser.", "", 1))
        if len(f.params) < 3:
            continue
        val = f.params[2]
        cfg = get_cfg(f)
        rebinds = {cfg.stmt_of(x) for x in f.local_nodes() if isinstance(x, (ast.Assign, ast.AnnAssign)) and any(isinstance(t, ast.Name) and t.id == val for t in (x.targets if isinstance(x, ast.Assign) else [x.target]))}
        cons = sorted(_consumptions(f, val), key=lambda x: (x.lineno, x.col_offset))

        def sees_callers_object(c: ast.AST) -> bool:
            st = cfg.stmt_of(c)
            others = rebinds - {st}
            return cfg.paths_avoiding("ENTRY", st, lambda x: x in others)

        orig = [c for c in cons if sees_callers_object(c)]
        if not orig:
            continue
        names = ", ".join(x.name for x in flds)
        # (a) what the first iteration of the caller's object can be
        first = orig[0]
        n += 1
        k = f"{fq}|a str or a mapping is not iterated as the collection ({names})"
        site = f.module.site(first)
        concrete = False
        excluded: set[str] = set()
        abc_only = False
        inline = [c for c in f.local_nodes() if isinstance(c, ast.Call) and len(c.args) >= 3 and unparse(c.args[2]) == val and _applied_combinator(f, c) is not None and f.module.resolve(dotted(_applied_combinator(f, c).func) or "").endswith("dc_validators.deep_iterable")]
        for c in inline:
            shp = vshape(corpus, f.module, _applied_combinator(f, c))
            if shp[2] is not None and shp[2][0] == "inst" and shp[2][1] and shp[2][1] <= CONCRETE_CONTAINERS and (c is first or cfg.dominates(cfg.stmt_of(c), cfg.stmt_of(first))):
                concrete = True
        for t, pol in _context_facts(cfg, first):
            if isinstance(t, ast.Call) and dotted(t.func) == "isinstance" and len(t.args) == 2 and unparse(t.args[0]) == val:
                try:
                    tn = {x.rsplit(".", 1)[-1] for x in _type_names_dotted(t.args[1])} if not isinstance(t.args[1], ast.BinOp) else set(_type_names(t.args[1]))
                except Unsupported:
                    continue
                if pol and tn and tn <= (CONCRETE_CONTAINERS - {"dict", "Dict", "Mapping", "MutableMapping"}):
                    concrete = True
                elif pol and tn & STR_ADMITTING:
                    abc_only = True
                elif not pol:
                    excluded |= tn
        if concrete:
            rep.ok("C13.R10", k, site, "the value is a concrete list/tuple/set before it is iterated")
        else:
            missing = []
            if "str" not in excluded:
                missing.append("a str (iterated as its characters; '' becomes the empty collection)")
            if not (excluded & {"dict", "Mapping", "MutableMapping", "Dict"}):
                missing.append("a mapping (iterated as its keys: `{x: false}` reads as [x])")
            if missing:
                rep.violation("C13.R10", k, site, f"`{short(first, 40)}` iterates the value of {names} (documented as a collection of str) without excluding " + " and ".join(missing))
            else:
                rep.ok("C13.R10", k, site, f"str and mapping are rejected before the value is iterated (not isinstance(..., {sorted(excluded)}))")
        # (b) one-shot iterators
        if not concrete and abc_only or (not concrete and not excluded and not abc_only):
            n += 1
            k = f"{fq}|the caller's iterable is read once ({names})"
            twice = [(c1, c2) for i, c1 in enumerate(orig) for c2 in orig[i + 1 :] if cfg.stmt_of(c1) is cfg.stmt_of(c2) or cfg.paths_avoiding(cfg.stmt_of(c1), cfg.stmt_of(c2), lambda x: False)]
            if twice:
                c1, c2 = twice[0]
                rep.violation(
                    "C13.R10",
                    k,
                    f.module.site(c2),
                    f"the value only has to be an Iterable, yet `{short(c1, 30)}` (line {c1.lineno}) and `{short(c2, 30)}` (line {c2.lineno}) both iterate the caller's object: a generator or "
                    "filter object passes the first pass (validation) and is empty in the second, so the validated value is not the stored one",
                )
            else:
                rep.ok("C13.R10", k, f.module.site(orig[0]), "materialised once; later uses read the materialised copy")
    return n


@rule("C13.R10")
def r10_str_is_not_a_container_of_str(corpus: Corpus, rep: Report, tier: str):
    rep.rule(
        "C13.R10",
        "where a validator requires the members of X to be str (by iteration or integer index), X's own type test excludes str: a concrete container type or an explicit "
        "not-a-str test; an abstract test such as Sequence/Iterable (or none) lets a plain string pass as the container of its characters",
    )
    dcv = corpus.mod(DCV).name
    n_inst = 0
    for fq, f in sorted(validator_candidates(corpus).items()):
        cfg = get_cfg(f)
        seen: set[str] = set()
        for node, cont, how in sorted(_str_member_tests(f), key=lambda t: (t[0].lineno, t[0].col_offset)):
            ctext = unparse(cont)
            k = f"{fq}|members of `{ctext}` must be str ({how})"
            if k in seen:
                continue
            seen.add(k)
            n_inst += 1
            verdict, why = _container_verdict(corpus, f, node, cont)
            site = f.module.site(node)
            if verdict == "ok":
                rep.ok("C13.R10", k, site, why)
            elif verdict == "unknown":
                rep.listed("C13.R10", k, site, f"container test against {why}: not known whether a str satisfies it")
            else:
                rep.violation(
                    "C13.R10",
                    k,
                    site,
                    f"the members of `{ctext}` are only required to be str, and `{ctext}` itself is " + (f"only tested against {why}, which a str satisfies" if verdict == "bad" else "not type-tested at all")
                    + ": a plain string is accepted as a container of its (one-character, str) items - e.g. 'ab' where a list/tuple of two strings is documented",
                )
        # deep_iterable(instance_of(str), <container>) applied inside a custom validator
        for c in f.local_nodes():
            fac_ = _applied_combinator(f, c) if isinstance(c, ast.Call) and len(c.args) >= 3 else None
            if fac_ is not None and (f.module.resolve(dotted(fac_.func) or "") == f"{dcv}.deep_iterable"):
                n_inst += 1
                shape = vshape(corpus, f.module, fac_)
                k = f"{fq}|deep_iterable applied to `{short(c.args[2], 30) if len(c.args) > 2 else '?'}`: container excludes str"
                mem, cont = shape[1], shape[2]
                if not (mem is not None and mem[0] == "inst" and "str" in mem[1]):
                    rep.ok("C13.R10", k, f.module.site(c), "members are not required to be str")
                elif cont is not None and cont[0] == "inst" and cont[1] and cont[1] <= CONCRETE_CONTAINERS:
                    rep.ok("C13.R10", k, f.module.site(c), f"container must be {sorted(cont[1])}")
                elif cont is not None and cont[0] == "inst" and not (cont[1] & STR_ADMITTING):
                    rep.listed("C13.R10", k, f.module.site(c), f"container test against {sorted(cont[1])}: not known whether a str satisfies it")
                else:
                    rep.violation("C13.R10", k, f.module.site(c), "members must be str but the container is " + ("not checked" if cont is None else f"only checked against {sorted(cont[1])}") + ": a plain string passes as an iterable of its characters")
    n_inst += _r10_collection_of_str_values(corpus, rep)
    if n_inst < 4:
        rep.error("C13.R10", f"only {n_inst} member-is-str tests found in the validators (8 on the pinned tree)")
    rep.expect_min("C13.R10", 4, "member-is-str tests in check_url_schemes, check_sub_delimiters, check_inventories and the inline deep_iterable applications")


# ---------------------------------------------------------------------------
# R9 comma-delimited docutils setting strings are split like docutils does


def _comma_split_sites(f: FunctionInfo) -> list[ast.Call]:
    return [n for n in f.local_nodes() if isinstance(n, ast.Call) and isinstance(n.func, ast.Attribute) and n.func.attr == "split" and len(n.args) >= 1 and isinstance(n.args[0], ast.Constant) and n.args[0].value == ","]


WHITESPACE_ONLY = {"strip", "lstrip", "rstrip"}


def _pipeline_sources(f: FunctionInfo, site: ast.AST) -> tuple[set[int], set[str]]:
    """Everything that carries the items of ``site`` (a comma split) on: names it is assigned to, comprehensions /
    map / filter / list-like calls over it - each of which is a source for the next stage
    (``xs = (i.strip() for i in s.split(","))`` then ``dict.fromkeys(x for x in xs if x)``)."""
    nodes: set[int] = {id(site)}
    holders: set[str] = set()

    def is_src(e: ast.AST) -> bool:
        return id(e) in nodes or (isinstance(e, ast.Name) and e.id in holders)

    changed = True
    while changed:
        changed = False
        for n in f.local_nodes():
            if isinstance(n, (ast.Assign, ast.AnnAssign, ast.NamedExpr)) and getattr(n, "value", None) is not None and id(n.value) in nodes:
                tgts = n.targets if isinstance(n, ast.Assign) else [n.target]
                for t in tgts:
                    if isinstance(t, ast.Name) and t.id not in holders:
                        holders.add(t.id)
                        changed = True
            elif isinstance(n, (ast.ListComp, ast.SetComp, ast.GeneratorExp)) and n.generators and is_src(n.generators[0].iter) and id(n) not in nodes:
                nodes.add(id(n))
                changed = True
            elif isinstance(n, ast.Call) and id(n) not in nodes:
                d = dotted(n.func) or ""
                if (d in ("map", "filter") and len(n.args) == 2 and is_src(n.args[1])) or (d in ("list", "tuple", "sorted", "reversed", "iter") and n.args and is_src(n.args[0])):
                    nodes.add(id(n))
                    changed = True
    return nodes, holders


def _item_transforms(f: FunctionInfo, site: ast.Call) -> list[tuple[ast.AST, str]]:
    """(node, method) for every str method other than stripping that is applied to the items produced by ``site``
    (a comma split or a call of docutils' splitter) on their way into the result; tests in filters do not count."""
    src_nodes, holders = _pipeline_sources(f, site)

    def is_source(e: ast.AST) -> bool:
        return id(e) in src_nodes or (isinstance(e, ast.Name) and e.id in holders)

    def calls_on(e: ast.AST, var: set[str]) -> list[tuple[ast.AST, str]]:
        # method calls whose receiver is (derived from) an item: k.lower(), k.strip().lower(), k.replace(...)
        return [
            (c, c.func.attr)
            for c in ast.walk(e)
            if isinstance(c, ast.Call) and isinstance(c.func, ast.Attribute) and c.func.attr not in WHITESPACE_ONLY and _free_names(c.func.value) & var
        ]

    found: list[tuple[ast.AST, str]] = []
    for n in f.local_nodes():
        if isinstance(n, (ast.ListComp, ast.SetComp, ast.GeneratorExp, ast.DictComp)):
            for g in n.generators:
                if is_source(g.iter):
                    var = {x.id for x in ast.walk(g.target) if isinstance(x, ast.Name)}
                    for part in ([n.key, n.value] if isinstance(n, ast.DictComp) else [n.elt]):
                        found += calls_on(part, var)
        elif isinstance(n, ast.For) and is_source(n.iter):
            var = {x.id for x in ast.walk(n.target) if isinstance(x, ast.Name)}
            for st in ast.walk(n):
                if isinstance(st, ast.Assign) and _free_names(st.value) & var:
                    var |= {t.id for t in st.targets if isinstance(t, ast.Name)}
            for st in n.body:
                for x in ast.walk(st):
                    if isinstance(x, ast.If):
                        continue
                    if isinstance(x, (ast.Assign, ast.Expr, ast.AugAssign, ast.Return)):
                        tests = {id(y) for i_ in ast.walk(x) if isinstance(i_, (ast.If, ast.IfExp)) for y in ast.walk(i_.test)}
                        found += [(c, m) for c, m in calls_on(x, var) if id(c) not in tests]
        elif isinstance(n, ast.Call) and dotted(n.func) == "map" and len(n.args) == 2 and is_source(n.args[1]):
            d = dotted(n.args[0]) or ""
            if d.startswith("str.") and d[4:] not in WHITESPACE_ONLY:
                found.append((n, d[4:]))
    seen = set()
    out = []
    for c, m in found:
        if id(c) not in seen:
            seen.add(id(c))
            out.append((c, m))
    return out


def _split_site_verdict(f: FunctionInfo, site: ast.Call) -> tuple[bool, bool]:
    """(items stripped?, empty items dropped?) for one ``X.split(",")`` - Unsupported when the items are consumed in an unknown way."""
    # the split result and every later stage of the pipeline that carries its items on
    src_nodes, holders = _pipeline_sources(f, site)

    def is_source(e: ast.AST) -> bool:
        return id(e) in src_nodes or (isinstance(e, ast.Name) and e.id in holders)

    def strips(e: ast.AST, var: set[str]) -> bool:
        for c in ast.walk(e):
            if isinstance(c, ast.Call) and isinstance(c.func, ast.Attribute) and c.func.attr in ("strip",) and _free_names(c.func.value) & var:
                return True
        return False

    stripped = filtered = False
    consumed = False
    for n in f.local_nodes():
        if isinstance(n, (ast.ListComp, ast.SetComp, ast.GeneratorExp, ast.DictComp)):
            for g in n.generators:
                if not is_source(g.iter):
                    continue
                consumed = True
                var = {x.id for x in ast.walk(g.target) if isinstance(x, ast.Name)}
                parts = [n.key, n.value] if isinstance(n, ast.DictComp) else [n.elt]
                if any(strips(p_, var) for p_ in parts) or any(strips(c, var) for c in g.ifs):
                    stripped = True
                if any(_free_names(c) & var for c in g.ifs):
                    filtered = True
                # filter(None, <genexp>) / filter(bool, ...)
                pa = parent(n)
                if isinstance(pa, ast.Call) and dotted(pa.func) == "filter" and pa.args and (is_const_none(pa.args[0]) or dotted(pa.args[0]) == "bool"):
                    filtered = True
        elif isinstance(n, ast.For) and is_source(n.iter):
            consumed = True
            var = {x.id for x in ast.walk(n.target) if isinstance(x, ast.Name)}
            derived = set(var)
            for st in ast.walk(n):
                if isinstance(st, ast.Assign) and _free_names(st.value) & derived:
                    if strips(st.value, derived):
                        stripped = True
                    for t in st.targets:
                        if isinstance(t, ast.Name):
                            derived.add(t.id)
            if any(strips(st, derived) for st in n.body):
                stripped = True
            if any(isinstance(st, ast.If) and _free_names(st.test) & derived for st in ast.walk(n)):
                filtered = True
        elif isinstance(n, ast.Call) and dotted(n.func) == "map" and len(n.args) == 2 and is_source(n.args[1]):
            consumed = True
            if dotted(n.args[0]) == "str.strip":
                stripped = True
            pa = parent(n)
            if isinstance(pa, ast.Call) and dotted(pa.func) == "filter" and pa.args and (is_const_none(pa.args[0]) or dotted(pa.args[0]) == "bool"):
                filtered = True
        elif isinstance(n, ast.Call) and dotted(n.func) == "filter" and len(n.args) == 2 and is_source(n.args[1]):
            consumed = True
            if is_const_none(n.args[0]) or dotted(n.args[0]) == "bool":
                filtered = True
        elif isinstance(n, ast.Call) and dotted(n.func) in ("set", "list", "tuple", "frozenset", "sorted", "dict.fromkeys") and n.args and is_source(n.args[0]):
            consumed = True  # taken as they are
    if not consumed:
        raise Unsupported(f"{f.qualname}: the items of `{short(site, 40)}` are consumed in a way that is not understood")
    return stripped, filtered


def is_const_none(e: ast.AST) -> bool:
    return isinstance(e, ast.Constant) and e.value is None


@rule("C13.R9")
def r9_comma_lists_split_like_docutils(corpus: Corpus, rep: Report, tier: str):
    rep.rule(
        "C13.R9",
        "every docutils setting converter that splits a comma-delimited string strips the items and drops empty ones, as docutils' validate_comma_separated_list "
        "does (else 'a, b' / 'a,' / '' give a configuration no list value gives)",
    )
    du = corpus.mod("parsers.docutils_")
    anchor = du.func("_attr_to_optparse_option")
    # the oracle: docutils' own splitter strips and drops empties
    try:
        fe = corpus.sibling("docutils/frontend.py")
        rep.saw_sibling("docutils/frontend.py")
        oracle = fe.func("validate_comma_separated_list")
        osites = _comma_split_sites(oracle)
        if not osites or not all(_split_site_verdict(oracle, x) == (True, True) for x in osites):
            rep.error("C13.R9", "docutils.frontend.validate_comma_separated_list no longer strips items and drops empty ones (oracle changed)")
    except AnchorMissing as e:
        rep.error("C13.R9", f"sibling oracle missing: {e}")
    # converters named as optparse validators
    conv: dict[str, FunctionInfo] = {}
    delegating_direct = 0
    for n in anchor.local_nodes():
        if isinstance(n, ast.Dict):
            for k_, v in zip(n.keys, n.values):
                if not (isinstance(k_, ast.Constant) and k_.value == "validator"):
                    continue
                tgt = v.func if isinstance(v, ast.Call) else v
                d = dotted(tgt) or ""
                if du.resolve(d) == "docutils.frontend.validate_comma_separated_list":
                    delegating_direct += 1
                    rep.ok("C13.R9", f"{anchor.fq}|{short(v, 50)} used directly", du.site(v), "docutils' own splitter")
                    continue
                f = du.functions.get(d)
                if f is None:
                    continue
                conv[f.fq] = f
                if isinstance(v, ast.Call):  # factory: its closures do the work
                    for q, g in du.functions.items():
                        if g.parent_func is not None and g.parent_func.fq == f.fq and not g.is_lambda:
                            conv[g.fq] = g
    if not conv:
        raise Unsupported("_attr_to_optparse_option names no local converter functions")
    for fq, f in sorted(conv.items()):
        rep.saw_function(fq)
        sites = _comma_split_sites(f)
        delegates = [c for c in f.local_nodes() if isinstance(c, ast.Call) and du.resolve(dotted(c.func) or "") == "docutils.frontend.validate_comma_separated_list"]
        for c in delegates:
            rep.ok("C13.R9", f"{fq}|delegates the splitting to docutils", du.site(c), "validate_comma_separated_list strips items and drops empty ones (sibling verified)")
        for j, src in enumerate(sorted(sites + delegates, key=lambda x: (x.lineno, x.col_offset))):
            k = f"{fq}|items pass through unchanged apart from stripping" + (f" #{j + 1}" if len(sites + delegates) > 1 else "")
            tr = _item_transforms(f, src)
            if tr:
                node_, meth = tr[0]
                rep.violation(
                    "C13.R9",
                    k,
                    du.site(node_),
                    f"`{short(node_, 50)}` in {f.qualname} applies .{meth}() to the items of the comma-delimited spelling: the docutils option string is normalised differently from the same "
                    "value given as a YAML dict, in conf.py or in front matter (which reach the shared validator untouched) - a normalisation belongs in the field's validator, not in one entry point",
                )
            else:
                rep.ok("C13.R9", k, du.site(src), "only whitespace stripping")
        for i, site in enumerate(sorted(sites, key=lambda x: (x.lineno, x.col_offset))):
            k = f"{fq}|items of the comma split are stripped and empty items dropped" + (f" #{i + 1}" if len(sites) > 1 else "")
            stripped, filtered = _split_site_verdict(f, site)
            if stripped and filtered:
                rep.ok("C13.R9", k, du.site(site))
            else:
                missing = " and ".join(x for x, okx in (("are not stripped", stripped), ("empty items are kept", filtered)) if not okx)
                rep.violation(
                    "C13.R9",
                    k,
                    du.site(site),
                    f"`{short(site, 40)}` in {f.qualname}: the items {missing}. Every other comma-delimited MyST setting goes through docutils' validate_comma_separated_list "
                    "(strip, drop empties), so 'a, b', 'a,' or '' in this setting yield keys/items (' b', '') that no list value of the option has - the docutils spelling does not "
                    "produce the configuration the same value gives elsewhere",
                )
    rep.expect_min("C13.R9", 3, "two direct uses, two delegating converters and one own split on the pinned tree")


# ---------------------------------------------------------------------------
# R11 per-document options are not read from the raw conf.py value


def _raw_conf_reads(f: FunctionInfo) -> list[tuple[ast.AST, str | None]]:
    """(node, field name | None when computed) for reads of ``<x>.config.myst_<field>`` / ``<x>.config["myst_<field>"]``
    / ``getattr(<x>.config, "myst_<field>")`` - the un-validated, project wide Sphinx conf value."""

    def is_conf(e: ast.AST) -> bool:
        return (isinstance(e, ast.Attribute) and e.attr == "config") or (isinstance(e, ast.Name) and e.id == "config" and "config" not in _cfg_names(f, {}))

    out = []
    for n in f.local_nodes():
        if isinstance(n, ast.Attribute) and n.attr.startswith("myst_") and n.attr != "myst_config" and is_conf(n.value) and isinstance(n.ctx, ast.Load):
            out.append((n, n.attr[5:]))
        elif isinstance(n, ast.Subscript) and is_conf(n.value) and isinstance(n.ctx, ast.Load):
            sl = n.slice
            if isinstance(sl, ast.Constant) and isinstance(sl.value, str) and sl.value.startswith("myst_"):
                out.append((n, sl.value[5:]))
            elif isinstance(sl, ast.JoinedStr) and sl.values and isinstance(sl.values[0], ast.Constant) and str(sl.values[0].value).startswith("myst_"):
                out.append((n, None))
        elif isinstance(n, ast.Call) and dotted(n.func) == "getattr" and len(n.args) >= 2 and is_conf(n.args[0]) and isinstance(n.args[1], ast.Constant) and str(n.args[1].value).startswith("myst_"):
            out.append((n, str(n.args[1].value)[5:]))
    return out


def _in_fallback_position(n: ast.AST, _depth: int = 0) -> bool:
    """``n`` is only used when a more specific lookup has no value: default of ``.get(k, n)`` / ``getattr(o, k, n)``,
    last operand of ``or``, else-arm of a conditional expression - directly, or through a local it is hoisted into
    (``g = <n>`` once, every use of ``g`` in fallback position)."""
    pa = parent(n)
    if _depth < 2 and isinstance(pa, (ast.Assign, ast.AnnAssign)) and pa.value is n:
        tgts = pa.targets if isinstance(pa, ast.Assign) else [pa.target]
        if len(tgts) == 1 and isinstance(tgts[0], ast.Name):
            from ..corpus import enclosing_function

            f = enclosing_function(n)
            name = tgts[0].id
            if f is not None:
                binds = [x for x in f.local_nodes() if isinstance(x, ast.Name) and x.id == name and isinstance(x.ctx, ast.Store)]
                uses = [x for x in f.local_nodes() if isinstance(x, ast.Name) and x.id == name and isinstance(x.ctx, ast.Load)]
                return len(binds) == 1 and name not in f.params and bool(uses) and all(_in_fallback_position(u, _depth + 1) for u in uses)
        return False
    cur, p_ = n, parent(n)
    while p_ is not None and not isinstance(p_, ast.stmt):
        if isinstance(p_, ast.Call):
            if isinstance(p_.func, ast.Attribute) and p_.func.attr in ("get", "pop", "setdefault") and len(p_.args) == 2 and p_.args[1] is cur:
                return True
            if dotted(p_.func) == "getattr" and len(p_.args) == 3 and p_.args[2] is cur:
                return True
            return False
        if isinstance(p_, ast.BoolOp) and isinstance(p_.op, ast.Or) and p_.values[-1] is cur and len(p_.values) > 1:
            return True
        if isinstance(p_, ast.IfExp) and p_.orelse is cur:
            return True
        cur, p_ = p_, parent(p_)
    return False


def _global_config_reads(f: FunctionInfo) -> list[tuple[ast.AST, str]]:
    """(node, field) for reads of ``<x>.myst_config.<field>``: the validated, project wide configuration."""
    return [(n, n.attr) for n in f.local_nodes() if isinstance(n, ast.Attribute) and isinstance(n.ctx, ast.Load) and isinstance(n.value, ast.Attribute) and n.value.attr == "myst_config"]


@rule("C13.R11")
def r11_no_raw_conf_reads(corpus: Corpus, rep: Report, tier: str):
    rep.rule(
        "C13.R11",
        "outside the function that builds the validated global config, (a) no option is read from the raw conf.py value (app.config / env.config myst_*: un-validated, un-normalised), "
        "and (b) project-wide code reads an option a document may override from the validated global config only as the fallback of a per-document lookup",
    )
    fields = {f.name: f for f in config_fields(corpus)}

    def global_only(fld: Field) -> bool:
        g = fld.meta.get("global_only")
        return g is not None and not (isinstance(g, ast.Constant) and not g.value)

    n = 0
    for f in corpus.all_functions():
        if f.is_lambda or f.module.name.endswith("._docs"):
            continue
        builds = any(isinstance(c, ast.Call) and (dotted(c.func) or "").rsplit(".", 1)[-1] == CONFIG_CLS and any(kw.arg is None for kw in c.keywords) for c in f.local_nodes())
        # (a) raw conf reads
        for node, fname in _raw_conf_reads(f):
            n += 1
            k = f"{f.fq}|reads conf value myst_{fname or '<computed>'}"
            site = f.module.site(node)
            rep.saw_function(f.fq)
            if builds:
                rep.ok("C13.R11", k, site, "feeds the validating constructor of the global config")
                continue
            if fname is None:
                raise Unsupported(f"{site}: computed myst_* conf read outside the config builder")
            fld = fields.get(fname)
            if fld is None:
                rep.listed("C13.R11", k, site, "not a MdParserConfig field")
                continue
            rep.violation(
                "C13.R11",
                k,
                site,
                f"{f.qualname} uses the raw conf.py value `{short(node, 50)}`: it is validated and normalised only inside MdParserConfig (an invalid value makes create_myst_config "
                f"install the defaults while this read still sees it, a wrong type raises here)"
                + ("" if global_only(fld) else f", and `{fname}` can be set per document in the front matter, which this read ignores")
                + " - read env.myst_config (and the per-document value first) instead",
            )
        # (b) validated global reads in project-wide code
        if builds or f.module.name.split(".")[-2:-1] in (["parsers"], ["mdit_to_docutils"]) or ".parsers." in f.module.name or ".mdit_to_docutils." in f.module.name:
            continue  # the builder itself, and the code that owns the per-document config
        for node, fname in _global_config_reads(f):
            fld = fields.get(fname)
            if fld is None:
                continue
            n += 1
            k = f"{f.fq}|reads global config value {fname}"
            site = f.module.site(node)
            if global_only(fld):
                rep.ok("C13.R11", k, site, "global_only option: there is no per-document value")
            elif _in_fallback_position(node):
                rep.ok("C13.R11", k, site, "only the fallback of a more specific (per-document) lookup")
            else:
                rep.violation(
                    "C13.R11",
                    k,
                    site,
                    f"{f.qualname} decides on the project-wide value `{short(node, 50)}` although `{fname}` can be set per document in the front matter: a document that sets it "
                    "there is treated differently from one built with the same value in conf.py (look the per-document value up first and fall back to the global one)",
                )
    rep.expect_min("C13.R11", 3, "the builder's f-string read, the resolver's fallback read and the two global_only reads of the MathJax override on the pinned tree")


# ---------------------------------------------------------------------------
# R12 read_topmatter hands the front-matter block to YAML as markdown-it delimits it

# (opening line, candidate line, does the markdown-it front_matter rule close the block there?)
# facts re-read from the sibling: the marker is looked for after the line's indentation (tShift), a code-block
# indentation (>= 4) is skipped, the run of '-' must be at least as long as the opener and followed by spaces only,
# and a line whose content is exactly '...' closes at any indentation.
TOPMATTER_PROBES = [
    ("---", "---", True), ("---", " ---", True), ("---", "   ---", True), ("---", "----", True), ("---", "---  ", True),
    ("---", "...", True), ("---", "  ...", True),
    ("---", "    ---", False), ("---", "--", False), ("---", "--- DRAFT ---", False), ("---", "  --- x", False), ("---", "... and so on", False),
    ("---", "a: ---", False), ("---", "- item", False), ("---", "key: value", False),
    ("-----", "---", False), ("-----", "-----", True), ("-----", " ------", True),
]


class _AbstractEval:
    """Evaluates expressions of one function over constants: literals, str methods, len, slices, comparisons, boolean
    operators, f-strings, re.compile/match on literal patterns, and local names through their single definition."""

    def __init__(self, f: FunctionInfo, env: dict[str, object]):
        self.f = f
        self.mod = f.module
        self.env = dict(env)
        self.depth = 0

    def name(self, nm: str):
        if nm in self.env:
            return self.env[nm]
        if nm in self.mod.const_nodes:
            return self.val(self.mod.const_nodes[nm])
        defs = [n.value for n in self.f.local_nodes() if isinstance(n, ast.Assign) and len(n.targets) == 1 and isinstance(n.targets[0], ast.Name) and n.targets[0].id == nm]
        if len(defs) != 1:
            raise Unsupported(f"name `{nm}` has no single constant definition")
        self.depth += 1
        if self.depth > 12:
            raise Unsupported("definition chain too deep")
        try:
            v = self.val(defs[0])
        finally:
            self.depth -= 1
        self.env[nm] = v
        return v

    def val(self, x: ast.expr):
        import re as _re

        if isinstance(x, ast.Name):
            return self.name(x.id)
        if isinstance(x, ast.Constant):
            return x.value
        if isinstance(x, ast.Tuple):
            return tuple(self.val(y) for y in x.elts)
        if isinstance(x, ast.JoinedStr):
            out = []
            for part in x.values:
                if isinstance(part, ast.Constant):
                    out.append(str(part.value))
                elif isinstance(part, ast.FormattedValue) and part.format_spec is None and part.conversion == -1:
                    out.append(format(self.val(part.value)))
                else:
                    raise Unsupported("f-string with a format spec")
            return "".join(out)
        if isinstance(x, ast.Call):
            d = dotted(x.func) or ""
            if d == "len" and len(x.args) == 1:
                return len(self.val(x.args[0]))
            if d in ("str", "int", "bool") and len(x.args) == 1:
                return {"str": str, "int": int, "bool": bool}[d](self.val(x.args[0]))
            if d == "next" and x.args and "__opener__" in self.env:
                return self.env["__opener__"]
            if d in ("re.match", "re.fullmatch", "re.search") and len(x.args) in (2, 3):
                return getattr(_re, d.split(".")[1])(*[self.val(a) for a in x.args])
            if d == "re.compile" and x.args:
                return _re.compile(*[self.val(a) for a in x.args])
            if isinstance(x.func, ast.Attribute) and not x.keywords:
                recv = self.val(x.func.value)
                m = x.func.attr
                if isinstance(recv, str) and m in ("lstrip", "rstrip", "strip", "startswith", "endswith", "expandtabs", "removeprefix", "removesuffix", "isspace", "count", "find"):
                    return getattr(recv, m)(*[self.val(a) for a in x.args])
                if isinstance(recv, _re.Pattern) and m in ("match", "fullmatch", "search"):
                    return getattr(recv, m)(*[self.val(a) for a in x.args])
            raise Unsupported(f"call not evaluable: {short(x, 50)}")
        if isinstance(x, ast.UnaryOp) and isinstance(x.op, ast.Not):
            return not self.val(x.operand)
        if isinstance(x, ast.BinOp) and isinstance(x.op, (ast.Add, ast.Sub, ast.Mult)):
            l, r = self.val(x.left), self.val(x.right)
            return l + r if isinstance(x.op, ast.Add) else l - r if isinstance(x.op, ast.Sub) else l * r
        if isinstance(x, ast.Subscript) and isinstance(x.slice, ast.Slice):
            parts = [None if b is None else self.val(b) for b in (x.slice.lower, x.slice.upper, x.slice.step)]
            return self.val(x.value)[slice(*parts)]
        if isinstance(x, ast.Subscript):
            return self.val(x.value)[self.val(x.slice)]
        if isinstance(x, ast.BoolOp):
            res = None
            for v in x.values:
                res = self.val(v)
                if isinstance(x.op, ast.And) and not res:
                    return res
                if isinstance(x.op, ast.Or) and res:
                    return res
            return res
        if isinstance(x, ast.Compare) and len(x.ops) == 1:
            l, r = self.val(x.left), self.val(x.comparators[0])
            op = x.ops[0]
            table = {ast.Eq: lambda: l == r, ast.NotEq: lambda: l != r, ast.In: lambda: l in r, ast.NotIn: lambda: l not in r, ast.Is: lambda: l is r, ast.IsNot: lambda: l is not r,
                     ast.Lt: lambda: l < r, ast.LtE: lambda: l <= r, ast.Gt: lambda: l > r, ast.GtE: lambda: l >= r}
            if type(op) in table:
                return table[type(op)]()
        raise Unsupported(f"expression not evaluable: {short(x, 50)}")


@rule("C13.R12")
def r12_topmatter_block_as_markdown_delimits_it(corpus: Corpus, rep: Report, tier: str):
    rep.rule(
        "C13.R12",
        "read_topmatter passes the front-matter lines to YAML verbatim (only the line terminator is removed) and ends the block exactly where the markdown-it front_matter rule ends it "
        "(a run of dashes at least as long as the opener, indented by up to three spaces and followed by spaces only, or a bare '...' line)",
    )
    rt = corpus.func(f"{MAIN}:read_topmatter")
    mod = rt.module
    loops = [n for n in rt.local_nodes() if isinstance(n, ast.For) and isinstance(n.target, ast.Name) and any(isinstance(x, ast.Break) for x in ast.walk(n))]
    if len(loops) != 1:
        raise Unsupported("read_topmatter: the loop collecting the front-matter lines was not found")
    lp = loops[0]
    var = lp.target.id
    # names that hold (a form of) the current line inside the loop
    line_names = {var}
    for _ in range(3):
        for n in ast.walk(lp):
            if isinstance(n, ast.Assign) and len(n.targets) == 1 and isinstance(n.targets[0], ast.Name) and _free_names(n.value) & line_names:
                line_names.add(n.targets[0].id)

    def terminator_only(x: ast.Call) -> bool:
        return x.func.attr in ("rstrip", "removesuffix") and len(x.args) == 1 and isinstance(x.args[0], ast.Constant) and isinstance(x.args[0].value, str) and set(x.args[0].value) <= set("\r\n")

    # (a) what reaches YAML: the appended expression and every loop-local definition it is built from
    adds = [c for c in ast.walk(lp) if isinstance(c, ast.Call) and isinstance(c.func, ast.Attribute) and c.func.attr in ("append", "write") and c.args and _free_names(c.args[0]) & line_names]
    if not adds:
        raise Unsupported("read_topmatter: no append of the current line found")
    k = f"{rt.fq}|front-matter lines reach YAML verbatim"
    exprs = [c.args[0] for c in adds] + [n.value for n in ast.walk(lp) if isinstance(n, ast.Assign) and len(n.targets) == 1 and isinstance(n.targets[0], ast.Name) and n.targets[0].id in line_names]
    bad = None
    for e in exprs:
        for x in ast.walk(e):
            if isinstance(x, ast.Call) and isinstance(x.func, ast.Attribute) and _free_names(x.func.value) & line_names and isinstance(x.func.value, (ast.Name, ast.Call)):
                if terminator_only(x):
                    continue
                if x.func.attr in ("splitlines", "format", "encode", "decode", "join"):
                    raise Unsupported(f"read_topmatter: line handling `{short(x, 40)}` not understood")
                bad = bad or x
    if bad is not None:
        rep.violation(
            "C13.R12",
            k,
            mod.site(bad),
            f"`{short(bad, 40)}` alters every front-matter line before YAML sees it: trailing spaces are significant inside multi-line scalars (a Markdown hard break in a "
            "substitution), so the value applied differs from the same value set globally (and from what the renderer's own yaml.safe_load of the block yields)",
        )
    else:
        rep.ok("C13.R12", k, mod.site(adds[0]), "only the line terminator is stripped")
    # (b) where the block ends: the disjunction of every `if <test on the line>: break` of the loop
    brks = [n for n in ast.walk(lp) if isinstance(n, ast.If) and any(isinstance(x, ast.Break) for x in n.body) and not n.orelse]
    brks = [n for n in brks if len(n.body) == 1]
    if not brks:
        raise Unsupported("read_topmatter: the test that ends the block was not found")
    try:
        fm = corpus.sibling("mdit_py_plugins/front_matter/index.py")
        rep.saw_sibling("mdit_py_plugins/front_matter/index.py")
        txt = unparse(fm.func("_front_matter_rule").node)
        for fact in ("tShift[nextLine]", "is_code_block(state, nextLine)", "pos - start < marker_count", "== '...'", "state.skipSpaces(pos)"):
            if fact not in txt:
                rep.error("C13.R12", f"mdit_py_plugins front_matter rule no longer contains `{fact}` (oracle changed: re-derive the probe table)")
    except AnchorMissing as e:
        rep.error("C13.R12", f"sibling oracle missing: {e}")
    k = f"{rt.fq}|block ends where the markdown-it front_matter rule ends it"
    wrong = []
    for opener, probe, want in TOPMATTER_PROBES:
        ev = _AbstractEval(rt, {"__opener__": opener, **{nm: probe for nm in line_names}})
        got = any(bool(ev.val(b.test)) for b in brks)
        if got != want:
            wrong.append((opener, probe, want))
    if wrong:
        opener, probe, want = wrong[0]
        rep.violation(
            "C13.R12",
            k,
            mod.site(brks[0]),
            f"after the opening line {opener!r} the end-of-block test(s) `{' / '.join(short(b.test, 40) for b in brks)}` {'do not stop' if want else 'stop'} at the line {probe!r}, but the markdown-it "
            f"front_matter rule {'closes the block there' if want else 'does not (the marker run must be at least as long as the opener, indented by at most three spaces and followed by spaces only; or a bare ...)'}: "
            "the renderer and read_topmatter see different YAML, so 'myst:' options after/before that line are silently not applied"
            + (f" ({len(wrong)} of {len(TOPMATTER_PROBES)} probe lines disagree)" if len(wrong) > 1 else ""),
        )
    else:
        rep.ok("C13.R12", k, mod.site(brks[0]), f"{len(TOPMATTER_PROBES)} (opener, line) probes agree")
    rep.expect_min("C13.R12", 2, "the append and the terminator test of read_topmatter")


# ---------------------------------------------------------------------------
# R13 re-parses of a part of a document start from the document's file-level config


def _render_config_var(f: FunctionInfo) -> tuple[str, ast.Call] | None:
    """(config local, call) for the call that obtains the markdown-it parser the document is rendered with: the
    receiver of ``<parser>.render(...)`` is assigned from a call - create_md_parser or any factory/cache in front of
    it - that takes a config-typed local of the function as an argument."""
    cfgs = _cfg_names(f, {})
    receivers = {n.func.value.id for n in f.local_nodes() if isinstance(n, ast.Call) and isinstance(n.func, ast.Attribute) and n.func.attr == "render" and isinstance(n.func.value, ast.Name)}
    cands = []
    for n in f.local_nodes():
        if isinstance(n, ast.Assign) and isinstance(n.value, ast.Call) and any(isinstance(t, ast.Name) and t.id in receivers for t in n.targets):
            args = [a for a in list(n.value.args) + [k.value for k in n.value.keywords] if isinstance(a, ast.Name) and a.id in cfgs]
            if args:
                cands.append((args[0].id, n.value))
    if not cands:
        # direct spelling, e.g. create_md_parser(config, R).render(text)
        for c in f.local_nodes():
            if isinstance(c, ast.Call) and (dotted(c.func) or "").rsplit(".", 1)[-1] == "create_md_parser" and c.args and isinstance(c.args[0], ast.Name):
                cands.append((c.args[0].id, c))
    return cands[0] if cands else None


@rule("C13.R13")
def r13_reparse_uses_file_level_config(corpus: Corpus, rep: Report, tier: str):
    rep.rule(
        "C13.R13",
        "Sphinx re-parses every translated message through MystParser.parse without front matter: the parser keeps the file-level config of the document being read "
        "and starts from it for such sources",
    )
    try:
        i18n = corpus.sibling("sphinx/transforms/i18n.py")
        rep.saw_sibling("sphinx/transforms/i18n.py")
    except AnchorMissing:
        rep.listed("C13.R13", "sphinx i18n transform", "sphinx/transforms/i18n.py", "sibling source not installed: rule not applicable")
        rep.expect_min("C13.R13", 0, "")
        return
    if ":<translated>" not in i18n.src or "publish_msgstr" not in i18n.src:
        rep.listed("C13.R13", "sphinx i18n transform", "sphinx/transforms/i18n.py", "this Sphinx does not re-parse messages under a '<translated>' source: rule not applicable")
        return
    f = corpus.func("parsers.sphinx_:MystParser.parse")
    mod = f.module
    k = f"{f.fq}|translated messages start from the file-level config"
    # the config that reaches create_md_parser
    found = _render_config_var(f)
    if found is None:
        raise Unsupported("MystParser.parse: the call that builds the parser from the document's config was not found")
    cvar, mk0 = found
    mk = [mk0]

    def per_doc_store(e: ast.AST) -> str | None:
        """Key text when ``e`` is a per-read store of the environment: env.temp_data[...] / .get(...)."""
        if isinstance(e, ast.Subscript) and isinstance(e.value, ast.Attribute) and e.value.attr in ("temp_data", "current_document") and isinstance(e.slice, ast.Constant):
            return f"{e.value.attr}[{e.slice.value!r}]"
        if isinstance(e, ast.Call) and isinstance(e.func, ast.Attribute) and e.func.attr in ("get", "pop") and isinstance(e.func.value, ast.Attribute) and e.func.value.attr in ("temp_data", "current_document") and e.args and isinstance(e.args[0], ast.Constant):
            return f"{e.func.value.attr}[{e.args[0].value!r}]"
        return None

    writes = {per_doc_store(t): n for n in f.local_nodes() if isinstance(n, ast.Assign) for t in n.targets if per_doc_store(t) and isinstance(n.value, ast.Name) and n.value.id == cvar}
    reads = {per_doc_store(n.value): n for n in f.local_nodes() if isinstance(n, ast.Assign) and any(isinstance(t, ast.Name) and t.id == cvar for t in n.targets) and per_doc_store(n.value)}
    common = set(writes) & set(reads)
    if not common:
        rep.violation(
            "C13.R13",
            k,
            f.site(),
            f"MystParser.parse neither keeps the merged file-level config (`{cvar}`) in the per-read store of the environment nor starts from it: Sphinx's i18n transform "
            "re-parses each msgstr as a stand-alone '<translated>' source without front matter, so translated paragraphs are parsed with the global configuration only "
            "(extensions/substitutions enabled in the document's front matter are not applied to them)",
        )
        return
    key = sorted(common)[0]
    cfg = get_cfg(f)
    rd, wr = reads[key], writes[key]
    gr = [unparse(t) for t, p in cfg.guards(rd)]
    # the stored value must be the config the document is rendered with: between the store and the call that builds
    # the parser from it, the variable is not assigned again (whatever function performs the file-level merge)
    mk_st = cfg.stmt_of(mk[0])

    def assigns_cvar(n) -> bool:
        if isinstance(n, ast.Assign):
            return any(isinstance(x, ast.Name) and x.id == cvar for t in n.targets for x in ast.walk(t))
        if isinstance(n, (ast.AnnAssign, ast.AugAssign)):
            return isinstance(n.target, ast.Name) and n.target.id == cvar
        return False

    stale = [n for n in cfg.nodes if n is not wr and assigns_cvar(n) and cfg.paths_avoiding(wr, n, lambda x: False) and cfg.paths_avoiding(n, mk_st, lambda x: False) and n is not rd]
    if stale:
        rep.violation("C13.R13", k, mod.site(wr), f"`{short(wr, 50)}` stores the config before it is final: `{short(stale[0], 60)}` changes `{cvar}` between the store and the call that builds the parser, so re-parsed messages start from a config without that step (e.g. without the front matter merged in)")
    elif not gr:
        rep.violation("C13.R13", k, mod.site(rd), f"`{short(rd, 60)}` replaces the starting config for every parse, not only for re-parsed messages")
    else:
        rep.ok("C13.R13", k, mod.site(rd), f"{key}: the config the document is rendered with is stored, and read back (under `{gr[0][:40]}`) for re-parsed messages")
    rep.expect_min("C13.R13", 1, "MystParser.parse")


# ---------------------------------------------------------------------------
# R14 notices about a configured option look at the configuration the document is parsed with


def _mentions_deprecated(stmts: list[ast.stmt], corpus: Corpus | None = None, depth: int = 0) -> bool:
    """The statements emit a MystWarnings.DEPRECATED warning - directly, or through a package helper (one or two
    levels) that does, e.g. ``create_attrs_image_warning(document)``."""
    for st in stmts:
        for x in ast.walk(st):
            d = dotted(x) if isinstance(x, ast.Attribute) else None
            if d and (d.endswith("MystWarnings.DEPRECATED") or d.endswith("MystWarnings.DEPRECATED.value")):
                return True
            if corpus is not None and depth < 2 and isinstance(x, ast.Call) and dotted(x.func):
                mod = getattr(x, "_mod", None)
                callee = corpus.find_function(mod.resolve(dotted(x.func))) if mod is not None else None
                if callee is not None and not callee.is_lambda and _mentions_deprecated(callee.node.body, corpus, depth + 1):
                    return True
    return False


def _option_membership_tests(test: ast.expr) -> list[tuple[str, str, ast.expr]]:
    """(constant, field, receiver) for every positive conjunct ``<const> in <recv>.<field>`` of ``test``."""
    out = []
    for t, pol in flow_facts(test, True):
        if pol and isinstance(t, ast.Compare) and len(t.ops) == 1 and isinstance(t.ops[0], ast.In) and isinstance(t.left, ast.Constant) and isinstance(t.left.value, str) and isinstance(t.comparators[0], ast.Attribute):
            out.append((t.left.value, t.comparators[0].attr, t.comparators[0].value))
    return out


@rule("C13.R14")
def r14_option_notices_use_the_document_config(corpus: Corpus, rep: Report, tier: str):
    rep.rule(
        "C13.R14",
        "a warning that depends on a configured option (e.g. the deprecation notice of an extension) is decided in every front end on the configuration the document is "
        "parsed with - after the front matter is merged in - so that enabling the option in the front matter warns like enabling it globally",
    )
    fields = {f.name for f in config_fields(corpus)}
    # front-end parse functions: they hand a config local to create_md_parser
    fronts: list[tuple[FunctionInfo, str, ast.Call]] = []
    for fq in ("parsers.docutils_:Parser.parse", "parsers.sphinx_:MystParser.parse"):
        f = corpus.func(fq)
        found = _render_config_var(f)
        if found is None:
            raise Unsupported(f"{fq}: the call that builds the parser from the document's config was not found")
        fronts.append((f, found[0], found[1]))
    # the notices that exist anywhere (global builder or a front end)
    notices: dict[tuple[str, str], str] = {}
    scan = [corpus.func("sphinx_ext.main:create_myst_config")] + [f for f, _, _ in fronts]
    for f in scan:
        for n in f.local_nodes():
            if isinstance(n, ast.If) and _mentions_deprecated(n.body, corpus):
                for const, fld, recv in _option_membership_tests(n.test):
                    if fld in fields:
                        notices.setdefault((const, fld), f.module.site(n))
    if not notices:
        rep.listed("C13.R14", "no option-dependent deprecation notice in the package", "myst_parser", "nothing to decide")
        return
    for (const, fld), origin in sorted(notices.items()):
        for f, cvar, mk in fronts:
            cfg = get_cfg(f)
            mk_st = cfg.stmt_of(mk)
            k = f"{f.fq}|notice for {const!r} in {fld} is decided on the document's final config"
            tests = [n for n in f.local_nodes() if isinstance(n, ast.If) and _mentions_deprecated(n.body, corpus) and any(c == const and fl == fld and isinstance(r, ast.Name) and r.id == cvar for c, fl, r in _option_membership_tests(n.test))]
            if not tests:
                rep.violation(
                    "C13.R14",
                    k,
                    f.site(),
                    f"{f.qualname} never tests `{const!r} in {cvar}.{fld}` for the [myst.deprecated] notice (it exists at {origin}): a document that enables {const!r} only in its "
                    "front matter uses the option without the warning the same global setting produces",
                )
                continue

            def assigns(n) -> bool:
                if isinstance(n, ast.Assign):
                    return any(isinstance(x, ast.Name) and x.id == cvar for t in n.targets for x in ast.walk(t))
                return isinstance(n, (ast.AnnAssign, ast.AugAssign)) and isinstance(n.target, ast.Name) and n.target.id == cvar

            bad = None
            for t in tests:
                for n in cfg.nodes:
                    if assigns(n) and cfg.paths_avoiding(t, n, lambda x: False) and cfg.paths_avoiding(n, mk_st, lambda x: False):
                        bad = (t, n)
            if bad:
                t, n = bad
                rep.violation(
                    "C13.R14",
                    k,
                    f.module.site(t),
                    f"the notice is decided on `{cvar}` before `{short(n, 60)}` (line {n.lineno}) changes it: the test sees the global configuration only, so {const!r} enabled in the "
                    "document's front matter is used without the warning",
                )
            else:
                rep.ok("C13.R14", k, f.module.site(tests[0]), f"`{cvar}` is not assigned again before create_md_parser")
    rep.expect_min("C13.R14", 2, "the attrs_image notice in both front ends")


# ---------------------------------------------------------------------------
# R4 who may write a config object

MUTATORS = {
    "add", "update", "append", "extend", "insert", "pop", "remove", "discard", "clear", "setdefault", "sort", "reverse",
    "popitem", "difference_update", "intersection_update", "symmetric_difference_update", "__setitem__", "__delitem__",
}
CFG_ATTRS = ("md_config", "myst_config")
CFG_FACTORIES = ("MdParserConfig", "config_cls", "create_myst_config", "merge_file_level")


def _cfg_names(f: FunctionInfo, validators: dict[str, FunctionInfo]) -> set[str]:
    names: set[str] = set()
    factories = set(CFG_FACTORIES)
    mods = getattr(f.module, "_c13_factories", None)
    if mods is None:
        # local functions / methods annotated to return the config class are factories too
        mods = {g.name for g in f.module.functions.values() if not g.is_lambda and getattr(g.node, "returns", None) is not None and unparse(g.node.returns).strip("'\"").endswith(CONFIG_CLS)}
        f.module._c13_factories = mods  # type: ignore[attr-defined]
    factories |= mods
    node = f.node
    if not f.is_lambda:
        a = node.args
        for x in a.posonlyargs + a.args + a.kwonlyargs:
            if x.annotation is not None and unparse(x.annotation).strip("'\"").endswith(CONFIG_CLS):
                names.add(x.arg)
    if f.cls is not None and f.cls.name == CONFIG_CLS and f.params and f.params[0] == "self":
        names.add("self")
    if f.fq in validators and f.params:
        names.add(f.params[0])
    for _ in range(3):
        for n in f.local_nodes():
            if isinstance(n, ast.Assign) and len(n.targets) == 1 and isinstance(n.targets[0], ast.Name):
                tgt, val = n.targets[0].id, n.value
            elif isinstance(n, ast.AnnAssign) and isinstance(n.target, ast.Name) and n.value is not None:
                tgt, val = n.target.id, n.value
            else:
                continue
            if _is_cfg(val, names) or (isinstance(val, ast.Call) and (_factory_call(f, val, factories, names) or (isinstance(val.func, ast.Attribute) and val.func.attr == "copy" and _is_cfg(val.func.value, names)))):
                names.add(tgt)
    return names


def _factory_call(f: FunctionInfo, call: ast.Call, factories: set[str], names: set[str]) -> bool:
    """``call`` goes to a function/method known to return a config object.  A method name only counts on a receiver
    that can own it: a config object, ``self``/``cls`` or an imported module (``x.__dict__.copy()`` is not MdParserConfig.copy)."""
    fn = call.func
    if isinstance(fn, ast.Name):
        return fn.id in factories
    if isinstance(fn, ast.Attribute) and fn.attr in factories:
        recv = fn.value
        if _is_cfg(recv, names):
            return True
        if isinstance(recv, ast.Name) and (recv.id in ("self", "cls") or recv.id in f.module.imports or recv.id == CONFIG_CLS):
            return fn.attr != "copy" or recv.id == CONFIG_CLS
        d = dotted(recv)
        return bool(d) and d.split(".")[0] in f.module.imports
    return False


def _is_cfg(e: ast.AST, names: set[str]) -> bool:
    if isinstance(e, ast.Attribute) and e.attr in CFG_ATTRS:
        return True
    if isinstance(e, ast.Subscript) and isinstance(e.slice, ast.Constant) and e.slice.value == "myst_config":
        return True
    return isinstance(e, ast.Name) and e.id in names


def _cfg_in_chain(e: ast.AST, names: set[str], strict: bool) -> ast.AST | None:
    """The config-typed sub-expression at the base of an attribute/subscript chain."""
    cur = e
    first = True
    while True:
        if not (first and strict) and _is_cfg(cur, names):
            return cur
        first = False
        if isinstance(cur, (ast.Attribute, ast.Subscript)):
            cur = cur.value
        else:
            return None


def config_writes(f: FunctionInfo, validators: dict[str, FunctionInfo]) -> list[tuple[ast.AST, ast.AST, str]]:
    """(node, config base expr, kind) for every write into a config object in ``f``; kind: store|mutate|bind."""
    names = _cfg_names(f, validators)
    out = []
    # aliases of field values: x = <cfg>.<attr>
    aliases: set[str] = set()

    def field_object(e: ast.AST) -> bool:
        """``e`` evaluates to the very object stored in a config field (no copy in between)."""
        if isinstance(e, ast.Attribute) and _is_cfg(e.value, names):
            return True
        if isinstance(e, ast.Name) and e.id in aliases:
            return True
        if isinstance(e, ast.BoolOp):
            return any(field_object(v) for v in e.values)
        if isinstance(e, ast.IfExp):
            return field_object(e.body) or field_object(e.orelse)
        if isinstance(e, ast.Call) and dotted(e.func) == "getattr" and len(e.args) >= 2 and _is_cfg(e.args[0], names):
            return True
        return False

    defs: dict[str, list[ast.expr]] = {}
    for n in f.local_nodes():
        if isinstance(n, ast.Assign):
            for t in n.targets:
                if isinstance(t, ast.Name):
                    defs.setdefault(t.id, []).append(n.value)
                else:
                    for x in ast.walk(t):
                        if isinstance(x, ast.Name) and isinstance(x.ctx, ast.Store):
                            defs.setdefault(x.id, []).append(ast.Constant(value=None))
        elif isinstance(n, (ast.AnnAssign, ast.NamedExpr)) and isinstance(n.target, ast.Name) and n.value is not None:
            defs.setdefault(n.target.id, []).append(n.value)
        elif isinstance(n, (ast.For, ast.comprehension)):
            for x in ast.walk(n.target):
                if isinstance(x, ast.Name):
                    defs.setdefault(x.id, []).append(ast.Constant(value=None))
    for _ in range(2):
        for tgt, vals in defs.items():
            # an alias only if the name never holds anything else (e.g. a copy made afterwards under the same name)
            if tgt not in names and tgt not in f.params and vals and all(field_object(v) for v in vals):
                aliases.add(tgt)
    for n in f.local_nodes():
        if isinstance(n, (ast.Assign, ast.AugAssign, ast.AnnAssign, ast.Delete)):
            tgts = n.targets if isinstance(n, (ast.Assign, ast.Delete)) else [n.target]
            if isinstance(n, ast.AnnAssign) and n.value is None:
                continue
            for t in tgts:
                for tt in (t.elts if isinstance(t, (ast.Tuple, ast.List)) else [t]):
                    if not isinstance(tt, (ast.Attribute, ast.Subscript)):
                        continue
                    base = _cfg_in_chain(tt, names, strict=True)
                    if base is not None:
                        out.append((n, base, "store"))
                    elif isinstance(tt, ast.Attribute) and tt.attr == "myst_config":
                        out.append((n, tt, "bind"))
                    elif _root_name(tt) in aliases:
                        out.append((n, tt.value, "mutate"))
        elif isinstance(n, ast.Call):
            d = dotted(n.func) or ""
            if (d in ("setattr", "delattr") or d.endswith("__setattr__")) and n.args:
                base = _cfg_in_chain(n.args[0], names, strict=False)
                if base is not None:
                    out.append((n, base, "store"))
            elif isinstance(n.func, ast.Attribute) and n.func.attr in MUTATORS:
                base = _cfg_in_chain(n.func.value, names, strict=True)
                if base is not None:
                    out.append((n, base, "mutate"))
                elif _root_name(n.func.value) in aliases:
                    out.append((n, n.func.value, "mutate"))
    return out


def _restored_in_finally(f: FunctionInfo, node: ast.AST) -> str | None:
    """Reason string when ``node`` (a write) is bracketed: saved copy before a try, write inside the try (or it is the
    restoring store in the finally), the same attribute re-assigned from the saved copy in the finally."""
    for a in ancestors(node):
        if isinstance(a, (ast.FunctionDef, ast.Lambda)):
            break
        if not (isinstance(a, ast.Try) and a.finalbody):
            continue
        restores = [s for s in a.finalbody if isinstance(s, ast.Assign) and len(s.targets) == 1 and isinstance(s.targets[0], ast.Attribute) and isinstance(s.value, ast.Name)]
        for rs in restores:
            attr_text = unparse(rs.targets[0])
            saved = rs.value.id
            # the saved copy: assigned before the try from a copying call on the same attribute
            ok_saved = False
            for n in f.local_nodes():
                if isinstance(n, ast.Assign) and len(n.targets) == 1 and isinstance(n.targets[0], ast.Name) and n.targets[0].id == saved and n.lineno < a.lineno:
                    v = n.value
                    if isinstance(v, ast.Call) and (((dotted(v.func) or "").rsplit(".", 1)[-1] in ("copy", "deepcopy", "set", "list", "dict", "tuple", "frozenset") and v.args and unparse(v.args[0]) == attr_text) or (isinstance(v.func, ast.Attribute) and v.func.attr == "copy" and unparse(v.func.value) == attr_text)):
                        ok_saved = True
            if not ok_saved:
                continue
            in_body = any(node is x for s in a.body for x in ast.walk(s))
            is_restore = node is rs
            written = unparse(node.func.value) if isinstance(node, ast.Call) and isinstance(node.func, ast.Attribute) else unparse(node.targets[0]) if isinstance(node, ast.Assign) else ""
            if is_restore or (in_body and written.startswith(attr_text)):
                return f"`{attr_text}` is saved (copy) before the try and re-assigned from the copy in `finally`"
    return None


FRESH_CALLS = {"set", "frozenset", "dict", "list", "sorted", "copy", "deepcopy", "copy.copy", "copy.deepcopy"}


def _is_fresh(f: FunctionInfo, e: ast.expr, depth: int = 0, at: ast.AST | None = None) -> bool:
    if isinstance(e, (ast.Dict, ast.Set, ast.List, ast.DictComp, ast.SetComp, ast.ListComp)):
        return True
    if isinstance(e, ast.Call):
        d = dotted(e.func) or ""
        return d in FRESH_CALLS or (isinstance(e.func, ast.Attribute) and e.func.attr == "copy")
    if isinstance(e, ast.Name) and depth < 3:
        defs = [n.value for n in f.local_nodes() if isinstance(n, ast.Assign) and any(isinstance(t, ast.Name) and t.id == e.id for t in n.targets)]
        defs += [n.value for n in f.local_nodes() if isinstance(n, ast.AnnAssign) and isinstance(n.target, ast.Name) and n.target.id == e.id and n.value is not None]
        if not defs or not all(_is_fresh(f, d, depth + 1) for d in defs):
            return False
        if e.id not in f.params:
            return True
        # a parameter re-bound to a fresh container (`value = set(value)`): fresh where the caller's object can no
        # longer reach the use, i.e. every path from the entry to `at` passes one of the re-binding assignments
        if at is None:
            return False
        cfg = get_cfg(f)
        rebinds = {cfg.stmt_of(n) for n in f.local_nodes() if isinstance(n, (ast.Assign, ast.AnnAssign)) and any(isinstance(t, ast.Name) and t.id == e.id for t in (n.targets if isinstance(n, ast.Assign) else [n.target]))}
        return not cfg.paths_avoiding("ENTRY", cfg.stmt_of(at), lambda x: x in rebinds)
    return False


def _fresh_container_per_instance(corpus: Corpus, rep: Report, fname: str, user: FunctionInfo, node: ast.AST) -> None:
    """A field that is mutated in place and restored by re-binding must be a container owned by the one config object:
    copy() = dc.replace passes the same object to the new instance, so the validator has to store a fresh container on
    every validation - otherwise the per-document copy and the global config share it and the re-binding does not undo the mutation."""
    fld = next((x for x in config_fields(corpus) if x.name == fname), None)
    if fld is None:
        return
    mod = corpus.mod(MAIN)
    k = f"{mod.name}:{CONFIG_CLS}.{fname}|own container per instance (mutated in place by {user.qualname})"
    v = fld.meta.get("validator")
    kind = classify_validator(corpus, mod, v) if v is not None else None
    if kind is None or kind[0] != "custom":
        rep.violation("C13.R4", k, user.module.site(node), f"`{fname}` is mutated in place by {user.qualname}, but its validator never stores a fresh container: copy() shares the object with the global configuration")
        return
    vf = kind[1]
    cfg = get_cfg(vf)
    stores = obj_stores(vf, vf.params[0])
    if not stores:
        rep.violation("C13.R4", k, vf.site(), f"`{fname}` is mutated in place by {user.qualname}, but {vf.qualname} never stores a fresh container: copy() shares the object with the global configuration")
        return
    fresh_stmts = {cfg.stmt_of(st.node) for st in stores if st.value is not None and _is_fresh(vf, st.value, at=st.node)}
    stale = [st for st in stores if st.value is not None and not _is_fresh(vf, st.value, at=st.node)]
    site = vf.module.site(stores[0].node) if stores else vf.site()
    if stale:
        rep.violation("C13.R4", k, vf.module.site(stale[0].node), f"{vf.qualname} stores `{short(stale[0].value, 40)}`, not a freshly built container, although {user.qualname} mutates `{fname}` in place: the copy made for a document shares the object with the global configuration")
    elif cfg.paths_avoiding("ENTRY", "EXIT", lambda n: n in fresh_stmts):
        rep.violation(
            "C13.R4",
            k,
            site,
            f"{vf.qualname} can return normally without storing a fresh container (the store is conditional), although {user.qualname} mutates `{fname}` in place and restores it by re-binding: "
            "copy()/dc.replace hands the global configuration's own object to the per-document copy, the in-place mutation reaches the global object and the re-binding of the copy's attribute does not undo it",
        )
    else:
        rep.ok("C13.R4", k, site, f"{vf.qualname} stores a freshly built container on every accepting path")


def _param_receives(corpus: Corpus, f: FunctionInfo, pname: str, mfl: FunctionInfo, copies: set[str], depth: int = 0) -> str | None:
    """'copy' when parameter ``pname`` of helper ``f`` is bound, at every call site, to merge_file_level's copy of
    the global config (directly or through one more helper); 'global' when some call site passes the global parameter."""
    if pname not in f.params or depth > 2:
        return None
    callers = _callers_of(corpus, f)
    if not callers:
        return None
    verdicts = set()
    for g, c, bind in callers:
        a = bind.get(pname)
        if not isinstance(a, ast.Name):
            return None
        if g.fq == mfl.fq:
            verdicts.add("copy" if a.id in copies else "global" if a.id == mfl.params[0] else None)
        else:
            verdicts.add(_param_receives(corpus, g, a.id, mfl, copies, depth + 1))
    if "global" in verdicts:
        return "global"
    return "copy" if verdicts == {"copy"} else None


def _copy_locals(mfl: FunctionInfo) -> tuple[str, set[str]]:
    """(global-config parameter, locals assigned only from <param>.copy(...))."""
    gparam = mfl.params[0]
    cands: dict[str, list[ast.expr]] = {}
    for n in mfl.local_nodes():
        if isinstance(n, ast.Assign):
            for t in n.targets:
                for x in ast.walk(t):
                    if isinstance(x, ast.Name):
                        cands.setdefault(x.id, []).append(n.value)
    out = set()
    for name, vals in cands.items():
        if all(_copy_kind(mfl, v, {gparam} | out) is not None for v in vals):
            out.add(name)
    return gparam, out


def _copy_kind(f: FunctionInfo, v: ast.expr, sources: set[str]) -> str | None:
    """How ``v`` duplicates one of the config objects named in ``sources``: 'validating' (copy() / dc.replace: the
    constructor runs, every coercing validator stores a fresh container), 'deep' (copy.deepcopy) or 'shallow'
    (copy.copy: a distinct object that shares every mutable field value)."""
    if not isinstance(v, ast.Call):
        return None
    if isinstance(v.func, ast.Attribute) and v.func.attr == "copy" and isinstance(v.func.value, ast.Name) and v.func.value.id in sources:
        return "validating"
    full = f.module.resolve(dotted(v.func) or "")
    if v.args and isinstance(v.args[0], ast.Name) and v.args[0].id in sources:
        if full == "dataclasses.replace":
            return "validating"
        if full == "copy.deepcopy":
            return "deep"
        if full == "copy.copy":
            return "shallow"
    return None


@rule("C13.R4")
def r4_config_writers(corpus: Corpus, rep: Report, tier: str):
    rep.rule("C13.R4", "config objects are written only by validators (own instance), by merge_file_level (on the copy) and inside mutate+restore-in-finally brackets; the global parameter is only copied")
    validators = dict(custom_validators(corpus))
    for f in corpus.mod(DCV).functions.values():
        if not f.is_lambda and len(f.params) >= 3:
            validators.setdefault(f.fq, f)
    mfl = corpus.func(f"{MAIN}:merge_file_level")
    if not mfl.params:
        raise Unsupported("merge_file_level has no parameters")
    gparam, copies = _copy_locals(mfl)
    binder = corpus.func("sphinx_ext.main:create_myst_config")
    for f in corpus.all_functions():
        if f.is_lambda:
            continue
        for node, base, kind in config_writes(f, validators):
            site = f.module.site(node)
            k = f"{f.fq}|{short(node, 90)}"
            root = _root_name(base)
            rep.saw_function(f.fq)
            if kind == "bind":
                if f.fq == binder.fq:
                    rep.ok("C13.R4", k, site, "the global config object is created here (builder-inited)")
                else:
                    rep.violation("C13.R4", k, site, f"{f.qualname} re-binds the global `myst_config`: only sphinx_ext.main.create_myst_config may create it")
            elif f.fq in validators and isinstance(base, ast.Name) and f.params and base.id == f.params[0]:
                rep.ok("C13.R4", k, site, "validator storing the normalised value on its own instance (R2)")
            elif f.fq == mfl.fq and isinstance(base, ast.Name) and base.id in copies:
                rep.ok("C13.R4", k, site, f"write on `{base.id}`, the copy of the global config")
            elif f.fq == mfl.fq and root == gparam:
                rep.violation("C13.R4", k, site, f"merge_file_level writes to its `{gparam}` parameter - the global configuration shared by all documents")
            elif isinstance(base, ast.Name) and _param_receives(corpus, f, base.id, mfl, copies) == "copy":
                rep.ok("C13.R4", k, site, f"write on `{base.id}`, which every call site binds to merge_file_level's copy of the global config")
            elif isinstance(base, ast.Name) and _param_receives(corpus, f, base.id, mfl, copies) == "global":
                rep.violation("C13.R4", k, site, f"{f.qualname} writes to `{base.id}`, which merge_file_level binds to its `{gparam}` parameter - the global configuration shared by all documents")
            else:
                why = _restored_in_finally(f, node)
                if why:
                    rep.assumed("C13.R4", k, site, why + " (net effect on the shared object: none; C15.R2)")
                    if kind == "mutate" and isinstance(node, ast.Call) and isinstance(node.func, ast.Attribute) and isinstance(node.func.value, ast.Attribute):
                        _fresh_container_per_instance(corpus, rep, node.func.value.attr, f, node)
                else:
                    rep.violation(
                        "C13.R4",
                        k,
                        site,
                        f"`{short(node, 60)}` in {f.qualname} writes into a configuration object outside validation/merge and without a restore-in-finally bracket: "
                        "the value is not validated, and when the document has no front matter the object is the global configuration of every document",
                    )
    # merge_file_level: the parameter is only copied/read
    cfg = get_cfg(mfl)
    mod = mfl.module
    sites = update_sites(corpus)
    vcalls = [us.call for us in sites if us.U.fq == mfl.fq]
    for us in sites:
        c = us.call
        k = f"{mfl.fq}|validate_field|validated object"
        a0 = c.args[0] if c.args else None
        where = us.U.module.site(c)
        got = None
        if isinstance(a0, ast.Name):
            got = ("copy" if a0.id in copies else "global" if a0.id == gparam else None) if us.U.fq == mfl.fq else _param_receives(corpus, us.U, a0.id, mfl, copies)
        if got == "copy":
            rep.ok("C13.R4", k, where, "validators store on the copy")
        elif got == "global":
            rep.violation("C13.R4", k, where, f"validate_field is given the global `{gparam}`: coercing validators store the document's value on the configuration shared by all documents")
        else:
            raise Unsupported(f"validate_field target not understood: {short(c, 60)}")
    # the copy is taken once, outside any loop, and is what is returned
    copy_assigns = [n for n in mfl.local_nodes() if isinstance(n, ast.Assign) and any(isinstance(t, ast.Name) and t.id in copies for t in n.targets)]
    if not copy_assigns:
        rep.violation("C13.R4", f"{mfl.fq}|copy of the global config", mfl.site(), f"merge_file_level never copies `{gparam}`: updates are applied to the global configuration itself")
    for n in copy_assigns:
        kind_ = _copy_kind(mfl, n.value, {gparam} | copies)
        k2 = f"{mfl.fq}|copy of the global config|owns its mutable values"
        if kind_ == "shallow":
            rep.violation(
                "C13.R4",
                k2,
                mod.site(n),
                f"`{short(n, 50)}` is a shallow copy: the per-document config is a distinct object but shares every mutable field value (the enable_extensions set, the dictionaries) "
                "with the global configuration - copy()/dataclasses.replace re-run the validators, which store fresh containers - so an in-place mutation of a field of the "
                "document's config (figure-md adds 'html_image' and restores by re-binding) changes the global configuration of every later document",
            )
        else:
            rep.ok("C13.R4", k2, mod.site(n), f"{kind_} copy")
        k = f"{mfl.fq}|copy of the global config|taken once"
        if cfg.loops.get(n) is not None:
            rep.violation("C13.R4", k, mod.site(n), "the copy is re-taken inside a loop: updates applied in earlier iterations are lost")
        elif not all(cfg.dominates(n, cfg.stmt_of(c)) for c in vcalls + [us.via[1] for us in sites if us.via is not None and us.via[0].fq == mfl.fq]):
            rep.violation("C13.R4", k, mod.site(n), "the copy does not dominate the validation of the updates")
        else:
            rep.ok("C13.R4", k, mod.site(n), "before the update loop")
    for r in (n for n in mfl.local_nodes() if isinstance(n, ast.Return)):
        k = f"{mfl.fq}|return value"
        if isinstance(r.value, ast.Name) and r.value.id in copies:
            rep.ok("C13.R4", k, mod.site(r), "returns the copy")
        elif isinstance(r.value, ast.Name) and r.value.id == gparam:
            rep.violation("C13.R4", k, mod.site(r), "returns the global object: the file-level updates are dropped")
        else:
            raise Unsupported(f"return value of merge_file_level not understood: {short(r, 40)}")
    # merged dict values: a new dict, global operand first, front-matter operand last
    for us in sites:
        U, mod = us.U, us.U.module
        obj, fieldvar, val = us.obj, us.fieldvar, us.val
        raw, unknown = taint(U, val)
        merges = []
        for n in U.local_nodes():
            mo = merge_operands(n, raw)
            if mo is not None:
                merges.append((n, None if mo == "inplace" else mo))
        flagged = [t for n in U.local_nodes() if isinstance(n, ast.If) for t, p in flow_facts(n.test, True) if _metadata_flag(t, fieldvar) == "merge_topmatter"]
        if flagged and not merges:
            raise Unsupported("merge_file_level tests metadata['merge_topmatter'] but no dict merge expression was recognised")
        for n, ops in merges:
            k = f"{mfl.fq}|merge of dict-valued options|" + ("in place" if ops is None else " + ".join("front-matter" if _expr_kind(o, raw, unknown) == "raw" else "global" for o in ops))
            if ops is None:
                rep.violation("C13.R4", k, mod.site(n), f"`{short(n, 60)}` merges in place: the old dictionary object (possibly the global one) is mutated")
                continue
            kinds = [_expr_kind(o, raw, unknown) for o in ops]
            if kinds[-1] == "raw" and all(x == "clean" for x in kinds[:-1]):
                rep.ok("C13.R4", k, mod.site(n), "new dict; global operand(s) first, front-matter operand last (front matter wins)")
            elif "unknown" in kinds:
                raise Unsupported(f"merge operands not understood: {short(n, 60)}")
            else:
                rep.violation("C13.R4", k, mod.site(n), f"operand order of the merge `{short(n, 60)}`: the front-matter value must be the last operand so that it overrides the global keys")
    rep.expect_min("C13.R4", 8, "4 validator stores, 1 store on the copy, figure-md add+restore, 2 bindings, 5 merge_file_level shape facts on the pinned tree")


# ---------------------------------------------------------------------------
# R6 entry points funnel


EXC_PARENTS = {
    "TypeError": ["TypeError", "Exception", "BaseException"],
    "ValueError": ["ValueError", "Exception", "BaseException"],
    "AttributeError": ["AttributeError", "Exception", "BaseException"],
    "ImportError": ["ImportError", "Exception", "BaseException"],
    "ModuleNotFoundError": ["ModuleNotFoundError", "ImportError", "Exception", "BaseException"],
    "KeyError": ["KeyError", "LookupError", "Exception", "BaseException"],
    "IndexError": ["IndexError", "LookupError", "Exception", "BaseException"],
    "AssertionError": ["AssertionError", "Exception", "BaseException"],
    "Exception": ["Exception", "BaseException"],
}


def _handler_covers(h: ast.ExceptHandler, needed: set[str]) -> bool:
    if h.type is None:
        return True
    try:
        names = {x.rsplit(".", 1)[-1] for x in _type_names_dotted(h.type)}
    except Unsupported:
        return False
    if names & {"Exception", "BaseException"}:
        return True
    return needed <= names


def _type_names_dotted(e: ast.expr) -> set[str]:
    if isinstance(e, ast.Tuple):
        out: set[str] = set()
        for x in e.elts:
            out |= _type_names_dotted(x)
        return out
    d = dotted(e)
    if d is None:
        raise Unsupported("handler type")
    return {d}


def _omit_filters(f: FunctionInfo) -> list[tuple[str, bool, ast.AST]]:
    """(constant, includes-when-not-omitted?, node) for every test of ``X.metadata.get('omit', ...)`` in f."""
    out = []
    for n in f.local_nodes():
        if not (isinstance(n, ast.Compare) and len(n.ops) == 1 and isinstance(n.ops[0], (ast.In, ast.NotIn)) and isinstance(n.left, ast.Constant) and isinstance(n.left.value, str)):
            continue
        c = n.comparators[0]
        if not (isinstance(c, ast.Call) and isinstance(c.func, ast.Attribute) and c.func.attr == "get" and unparse(c.func.value).endswith(".metadata") and c.args and isinstance(c.args[0], ast.Constant) and c.args[0].value == "omit"):
            continue
        notin = isinstance(n.ops[0], ast.NotIn)
        p = parent(n)
        neg = False
        while isinstance(p, ast.UnaryOp) and isinstance(p.op, ast.Not):
            neg = not neg
            p = parent(p)
        keeps_when_true = None
        if isinstance(p, ast.comprehension):
            keeps_when_true = True
        elif isinstance(p, ast.If) and not p.orelse:
            if len(p.body) == 1 and isinstance(p.body[0], ast.Continue):
                keeps_when_true = False
            elif not any(isinstance(x, (ast.Continue, ast.Break, ast.Return)) for s in p.body for x in ast.walk(s)):
                keeps_when_true = True
        if keeps_when_true is None:
            raise Unsupported(f"omit filter in {f.qualname} used in an unknown way: {short(p, 60)}")
        test_true_means_omitted = (not notin) != neg
        good = keeps_when_true != test_true_means_omitted
        out.append((n.left.value, good, n))
    return out


@rule("C13.R6")
def r6_entry_points_funnel(corpus: Corpus, rep: Report, tier: str):
    rep.rule("C13.R6", "constructor and copy validate every field; both front ends build the global config through the constructor inside a handler with a default fallback; register/read loops share the omit filter")
    main = corpus.mod(MAIN)
    dcv = corpus.mod(DCV)
    ci = corpus.cls(f"{MAIN}:{CONFIG_CLS}")
    # (a) __post_init__ -> validate_fields(self)
    pi = ci.methods.get("__post_init__")
    k = f"{ci.fq}.__post_init__|calls validate_fields(self)"
    if pi is None:
        rep.violation("C13.R6", k, main.site(ci.node), "MdParserConfig has no __post_init__: constructor arguments are never validated")
    else:
        calls = [c for c in pi.local_nodes() if isinstance(c, ast.Call) and dotted(c.func) and main.resolve(dotted(c.func)) == f"{dcv.name}.validate_fields" and c.args and unparse(c.args[0]) == pi.params[0]]
        cfg = get_cfg(pi)
        if calls and not cfg.guards(cfg.stmt_of(calls[0])) and cfg.postdominates(cfg.stmt_of(calls[0]), "ENTRY"):
            rep.ok("C13.R6", k, main.site(calls[0]))
        elif calls:
            raise Unsupported("__post_init__ calls validate_fields conditionally")
        else:
            rep.violation("C13.R6", k, pi.site(), "__post_init__ does not call validate_fields(self): MdParserConfig(**values) and copy() accept anything and coerce nothing")
    # (b) validate_fields: every field's validator sees the current value on every iteration
    vfs = dcv.func("validate_fields")
    inst = vfs.params[0]
    cfgs = get_cfg(vfs)
    lp = next((n for n in vfs.local_nodes() if isinstance(n, ast.For) and isinstance(n.iter, ast.Call) and dcv.resolve(dotted(n.iter.func) or "") == "dataclasses.fields" and n.iter.args and unparse(n.iter.args[0]) in (inst, f"type({inst})", f"{inst}.__class__") and isinstance(n.target, ast.Name)), None)
    k = f"{vfs.fq}|every field, current value"
    if lp is None:
        rep.error("C13.R6", "validate_fields does not loop over dc.fields(inst)")
    else:
        fv = lp.target.id
        cur = f"getattr({inst}, {fv}.name)"
        val_names = {t.id for n in ast.walk(lp) if isinstance(n, ast.Assign) and unparse(n.value) == cur for t in n.targets if isinstance(t, ast.Name)}
        calls = [c for s_ in lp.body for c in ast.walk(s_) if isinstance(c, ast.Call) and dotted(c.func) == "validate_field" and len(c.args) == 3 and unparse(c.args[0]) == inst and unparse(c.args[1]) == fv and (unparse(c.args[2]) == cur or (isinstance(c.args[2], ast.Name) and c.args[2].id in val_names))]
        if not calls:
            rep.error("C13.R6", "validate_fields does not call validate_field(inst, field, getattr(inst, field.name)) inside its loop")
        else:
            cstmts = {cfgs.stmt_of(c) for c in calls}
            skip = any(cfgs.paths_avoiding(("T", lp), stop, lambda n: n in cstmts) for stop in (lp, "EXIT"))
            if not skip:
                rep.ok("C13.R6", k, vfs.site())
            else:
                tests = [n for s_ in lp.body for n in ast.walk(s_) if isinstance(n, (ast.If, ast.IfExp, ast.While))]
                value_dep = [t for t in tests if (_free_names(t.test) & val_names) or "getattr(" in unparse(t.test)]
                harmless = [t for t in tests if unparse(t.test) in (f"'validator' not in {fv}.metadata", f"not {fv}.metadata.get('validator')")]
                if value_dep:
                    t = value_dep[0]
                    rep.violation(
                        "C13.R6",
                        k,
                        dcv.site(t),
                        f"validate_fields skips a field's validator depending on its value (`{short(t.test, 70)}`): values that take the skipping path are accepted unchecked and "
                        "un-normalised by the constructor, copy() and both front ends (e.g. a wrong-typed value that merely compares equal to the default)",
                    )
                elif tests and len(harmless) == len(tests):
                    rep.ok("C13.R6", k, vfs.site(), "only fields without a validator are skipped")
                else:
                    rep.error("C13.R6", "validate_fields skips validate_field on some path under a condition that is not understood")
    vf = dcv.func("validate_field")
    cfgv = get_cfg(vf)
    fpar = vf.params[1]
    src_texts = (f"{fpar}.metadata['validator']", f"{fpar}.metadata.get('validator')")

    def from_metadata(e: ast.AST, der: set[str]) -> bool:
        return any(unparse(x) in src_texts for x in ast.walk(e)) or bool(_free_names(e) & der)

    der: set[str] = set()
    for _ in range(3):
        for n in vf.local_nodes():
            if isinstance(n, ast.Assign) and from_metadata(n.value, der):
                der |= {x.id for t in n.targets for x in ast.walk(t) if isinstance(x, ast.Name)}
            elif isinstance(n, (ast.AnnAssign, ast.NamedExpr)) and n.value is not None and isinstance(n.target, ast.Name) and from_metadata(n.value, der):
                der.add(n.target.id)
            elif isinstance(n, ast.For) and from_metadata(n.iter, der):
                der |= {x.id for x in ast.walk(n.target) if isinstance(x, ast.Name)}
    applied = [
        c
        for c in vf.local_nodes()
        if isinstance(c, ast.Call) and len(c.args) >= 3 and [unparse(a_) for a_ in c.args[:3]] == vf.params[:3] and (unparse(c.func) in src_texts or (isinstance(c.func, ast.Name) and c.func.id in der))
    ]
    k = f"{vf.fq}|applies metadata['validator'] to (inst, field, value)"
    if not applied:
        rep.error("C13.R6", "validate_field does not apply field.metadata['validator'] (single or list) to (inst, field, value) in a recognisable way")
    else:
        points = set()
        for c in applied:
            st = cfgv.stmt_of(c)
            loops_ = [a_ for a_ in ancestors(c) if isinstance(a_, ast.For) and from_metadata(a_.iter, der)]
            points.add(loops_[-1] if loops_ else st)  # a loop over the validators counts as the application point
        def no_validator(t: ast.expr, pol: bool) -> bool:
            u = unparse(t)
            return (u == f"'validator' not in {fpar}.metadata" and pol) or (u == f"'validator' in {fpar}.metadata" and not pol) or (u == f"{fpar}.metadata.get('validator')" and not pol)

        def harmless(n) -> bool:
            # a branch edge that is only taken by fields without a validator
            return isinstance(n, tuple) and n[0] in ("T", "F") and isinstance(n[1], ast.If) and any(no_validator(t, p) for t, p in flow_facts(n[1].test, n[0] == "T"))

        if cfgv.paths_avoiding("ENTRY", "EXIT", lambda n: n in points or harmless(n)):
            cond = [t for t in (n for n in vf.local_nodes() if isinstance(n, ast.If)) if vf.params[2] in _free_names(t.test)]
            if cond:
                rep.violation("C13.R6", k, dcv.site(cond[0]), f"validate_field can return without applying the field's validator, depending on the value (`{short(cond[0].test, 60)}`)")
            else:
                rep.error("C13.R6", "validate_field can return without applying the validator on a path that is not understood")
        else:
            rep.ok("C13.R6", k, vf.site(), "single validator or every validator of a list")
    # (c) copy == dc.replace(self, **kwargs)
    cp = ci.methods.get("copy")
    if cp is None:
        raise AnchorMissing("MdParserConfig.copy")
    k = f"{ci.fq}.copy|re-validates through the constructor"
    rets = [r for r in cp.local_nodes() if isinstance(r, ast.Return)]
    via_ctor = [
        r
        for r in rets
        if isinstance(r.value, ast.Call)
        and (
            (main.resolve(dotted(r.value.func) or "") == "dataclasses.replace" and r.value.args and unparse(r.value.args[0]) == cp.params[0])
            or unparse(r.value.func) in (CONFIG_CLS, f"{cp.params[0]}.__class__", f"type({cp.params[0]})")
        )
    ]
    if _direct_stores(cp, cp.params[0]) or any(isinstance(c, ast.Call) and (dotted(c.func) or "") in ("setattr", "copy.copy", "copy", "copy.deepcopy", "deepcopy") for c in cp.local_nodes()):
        rep.violation("C13.R6", k, cp.site(), "copy() builds the new object by copying/assigning attributes: replaced fields are neither validated nor normalised")
    elif rets and len(via_ctor) == len(rets):
        kw = via_ctor[0].value.keywords
        if cp.node.args.kwarg is not None and not any(cp.node.args.kwarg.arg in _free_names(x.value) for x in kw):
            rep.violation("C13.R6", k, cp.site(), "copy(**kwargs) does not pass its kwargs to the constructor: replacements are dropped")
        else:
            rep.ok("C13.R6", k, cp.site(), short(via_ctor[0].value, 50))
    else:
        raise Unsupported("MdParserConfig.copy not understood")
    # (d) the two front ends
    front = [
        ("docutils", corpus.func("parsers.docutils_:create_myst_config"), corpus.func("parsers.docutils_:create_myst_settings_spec")),
        ("sphinx", corpus.func("sphinx_ext.main:create_myst_config"), corpus.func("sphinx_ext.main:setup_sphinx")),
    ]
    handlers: list[tuple[str, ast.ExceptHandler]] = []

    def try_around(c: ast.AST) -> ast.Try | None:
        node: ast.AST = c
        for anc in ancestors(c):
            if isinstance(anc, (ast.FunctionDef, ast.AsyncFunctionDef, ast.Lambda)):
                return None
            if isinstance(anc, ast.Try) and anc.handlers and any(node is s_ or any(node is x for x in ast.walk(s_)) for s_ in anc.body):
                return anc
        return None

    for tag, builder, registrar in front:
        # constructor call with **values
        ctor_names = {CONFIG_CLS}
        a = builder.node.args
        pos = a.posonlyargs + a.args
        for p_, dflt in zip(pos[len(pos) - len(a.defaults) :], a.defaults):
            if (dotted(dflt) or "").endswith(CONFIG_CLS):
                ctor_names.add(p_.arg)
        ctors = [c for c in builder.local_nodes() if isinstance(c, ast.Call) and dotted(c.func) in ctor_names and any(kw.arg is None for kw in c.keywords)]
        k = f"{builder.fq}|global config built by the validating constructor"
        if not ctors:
            raise Unsupported(f"{builder.fq}: no MdParserConfig(**values) call found")
        rep.ok("C13.R6", k, builder.module.site(ctors[0]), short(ctors[0], 40))
        # guarded by a handler that covers the validators' exception classes and falls back to the defaults
        # (the handler is either around the constructor inside the builder, or around every call of the builder - wherever that call lives)
        if all(try_around(c) is not None for c in ctors):
            guarded_calls = [(builder, c) for c in ctors]
        else:
            guarded_calls = []
            for g in corpus.all_functions():
                if g.is_lambda or g.fq == builder.fq:
                    continue
                for c in g.local_nodes():
                    if isinstance(c, ast.Call) and dotted(c.func):
                        tgt = corpus.find_function(g.module.resolve(dotted(c.func)))
                        if tgt is not None and tgt.fq == builder.fq:
                            guarded_calls.append((g, c))
            if not guarded_calls:
                raise Unsupported(f"no call of {builder.fq} found in the package")
        for outer, c in guarded_calls:
            k = f"{outer.fq}|{short(c, 50)}|invalid global config is reported, defaults used"
            tr = try_around(c)
            if tr is not None:
                handlers += [(tag, h) for h in tr.handlers]
            if tr is None:
                rep.violation("C13.R6", k, outer.module.site(c), f"the {tag} front end builds the global configuration outside any try: an invalid value aborts instead of being reported")
                continue
            needed = {"TypeError", "ValueError"}
            hs = [h for h in tr.handlers if _handler_covers(h, needed)]
            if not hs:
                rep.violation("C13.R6", k, outer.module.site(tr.handlers[0]), f"the handler `except {unparse(tr.handlers[0].type) if tr.handlers[0].type else ''}` does not cover TypeError and ValueError, the classes the validators raise")
                continue
            fallback = any(isinstance(x, ast.Call) and dotted(x.func) in ctor_names | {CONFIG_CLS} and not x.args and not x.keywords for s in hs[0].body for x in ast.walk(s))
            if fallback:
                rep.ok("C13.R6", k, outer.module.site(tr), f"except {unparse(hs[0].type) if hs[0].type else 'BaseException'} -> defaults")
            else:
                rep.violation("C13.R6", k, outer.module.site(hs[0]), "the handler does not fall back to MdParserConfig() defaults")
        # the global object is (re)built from the current conf values on every normal path
        if tag == "sphinx":
            bcfg = get_cfg(builder)
            binds = {bcfg.stmt_of(n) for n in builder.local_nodes() if isinstance(n, ast.Assign) and any(isinstance(t, ast.Attribute) and t.attr == "myst_config" for t in n.targets)}
            k = f"{builder.fq}|every normal path binds env.myst_config from the current conf values"
            if not binds:
                raise Unsupported(f"{builder.fq} never assigns *.myst_config")
            if bcfg.paths_avoiding("ENTRY", "EXIT", lambda n: n in binds):
                early = [r for r in builder.local_nodes() if isinstance(r, ast.Return) and bcfg.paths_avoiding("ENTRY", r, lambda n: n in binds)]
                rep.violation(
                    "C13.R6",
                    k,
                    builder.module.site(early[0]) if early else builder.site(),
                    "the builder-inited handler can finish without (re)building env.myst_config: the environment is pickled between builds, so a config left over from "
                    "an earlier build (or none at all) is used and the current myst_* conf values are neither validated nor applied",
                )
            else:
                rep.ok("C13.R6", k, builder.site(), f"{len(binds)} binding statement(s) cover every path")
        # omit filters
        fb, fr = _omit_filters(builder), _omit_filters(registrar)
        k = f"{tag}|omit filter: {registrar.qualname} registers exactly what {builder.qualname} reads"
        if len(fb) != 1 or len(fr) != 1:
            raise Unsupported(f"{tag}: expected one omit filter in {builder.qualname} and one in {registrar.qualname}, found {len(fb)} and {len(fr)}")
        (cb, gb, nb), (cr, gr, nr) = fb[0], fr[0]
        probs = []
        if cb != cr:
            probs.append(f"{builder.qualname} filters on {cb!r}, {registrar.qualname} on {cr!r}")
        if cb != tag and cb == cr:
            probs.append(f"both filter on {cb!r} in the {tag} front end")
        if not gb:
            probs.append(f"{builder.qualname} keeps exactly the omitted fields (polarity)")
        if not gr:
            probs.append(f"{registrar.qualname} keeps exactly the omitted fields (polarity)")
        if probs:
            rep.violation("C13.R6", k, builder.module.site(nb), "; ".join(probs) + ": a registered setting is silently ignored, or an unregistered one is read")
        else:
            rep.ok("C13.R6", k, builder.module.site(nb), f"both keep fields without {cb!r} in metadata['omit']")
    # (e) what a validator can raise on a config-controlled value is covered by every front-end handler
    if len({t for t, _ in handlers}) < 2:
        raise Unsupported("front-end handlers around the global constructor not found")

    def uncovered(cls: str) -> list[str]:
        chain = EXC_PARENTS.get(cls)
        if chain is None:
            raise Unsupported(f"exception class {cls} not in the small hierarchy table")
        out = []
        for tag in ("docutils", "sphinx"):
            hs = [h for t, h in handlers if t == tag]
            if not any(h.type is None or ({x.rsplit(".", 1)[-1] for x in _type_names_dotted(h.type)} & set(chain)) for h in hs):
                out.append(tag)
        return out

    for fq, f in sorted(custom_validators(corpus).items()):
        for n in f.local_nodes():
            cls = None
            if isinstance(n, ast.Raise) and n.exc is not None:
                e = n.exc.func if isinstance(n.exc, ast.Call) else n.exc
                cls = (dotted(e) or "?").rsplit(".", 1)[-1]
                what = short(n, 60)
            elif isinstance(n, ast.Call) and dotted(n.func) == "getattr" and len(n.args) == 2 and not isinstance(n.args[1], ast.Constant):
                cls, what = "AttributeError", short(n, 60)
            elif isinstance(n, ast.Call) and (dotted(n.func) or "").rsplit(".", 1)[-1] in ("import_module", "__import__"):
                cls, what = "ImportError", short(n, 60)
            if cls is None:
                continue
            k = f"{fq}|{cls} from {what}"
            # caught inside the validator?
            caught = False
            node: ast.AST = n
            for anc in ancestors(n):
                if isinstance(anc, (ast.FunctionDef, ast.Lambda)):
                    break
                if isinstance(anc, ast.Try) and any(node is s for s in anc.body):
                    for h in anc.handlers:
                        if h.type is None or ({x.rsplit(".", 1)[-1] for x in _type_names_dotted(h.type)} & set(EXC_PARENTS.get(cls) or [cls])):
                            caught = True
                node = anc
            if caught:
                rep.ok("C13.R6", k, f.module.site(n), "caught inside the validator")
                continue
            miss = uncovered(cls)
            if miss:
                rep.violation(
                    "C13.R6",
                    k,
                    f.module.site(n),
                    f"`{what}` in {f.qualname} can raise {cls} on a configuration-controlled value; the {'/'.join(miss)} front end only handles "
                    f"{', '.join(sorted({unparse(h.type) if h.type else 'everything' for t, h in handlers if t in miss}))} around MdParserConfig(**values): "
                    "the same invalid value is a reported error in one front end and an abort in the other",
                )
            else:
                rep.ok("C13.R6", k, f.module.site(n), "covered by both front-end handlers")
    rep.expect_min("C13.R6", 9, "post_init, validate_fields, validate_field, copy, 2x constructor, 2x handler, 2x omit filter")


# ---------------------------------------------------------------------------
# R15 the front-matter handler covers what validators raise / R16 explicit falsy docutils settings


def _value_param(f: FunctionInfo) -> str | None:
    ps = f.params
    return ps[2] if len(ps) >= 3 else None


def _unchecked_attr_uses(f: FunctionInfo, vname: str) -> list[ast.Attribute]:
    """``<value>.<attr>`` uses (non-dunder) that can be reached without passing a type test of the value or a
    call that is handed the value (a delegated validator / constructor)."""
    cfg = get_cfg(f)

    def mentions_check(e: ast.AST) -> bool:
        for c in ast.walk(e):
            if isinstance(c, ast.Call):
                if dotted(c.func) in ("isinstance", "callable", "hasattr") and c.args and isinstance(c.args[0], ast.Name) and c.args[0].id == vname:
                    return True
                if not (isinstance(c.func, ast.Attribute) and isinstance(c.func.value, ast.Name) and c.func.value.id == vname) and any(isinstance(a, ast.Name) and a.id == vname for a in c.args):
                    return True
        return False

    def is_check(n) -> bool:
        if isinstance(n, (tuple, str)):
            return False
        if isinstance(n, (ast.If, ast.While)):
            return mentions_check(n.test)
        if isinstance(n, ast.For):
            return mentions_check(n.iter)
        if isinstance(n, (ast.Try, ast.With, ast.FunctionDef, ast.AsyncFunctionDef, ast.ClassDef)):
            return False
        if isinstance(n, (ast.Assign, ast.AnnAssign, ast.AugAssign)) and any(isinstance(t, ast.Name) and t.id == vname for t in (n.targets if isinstance(n, ast.Assign) else [n.target])):
            return True  # re-bound: no longer the raw value
        return mentions_check(n)

    out = []
    for n in f.local_nodes():
        if not (isinstance(n, ast.Attribute) and isinstance(n.value, ast.Name) and n.value.id == vname and isinstance(n.ctx, ast.Load)):
            continue
        if n.attr.startswith("__") and n.attr.endswith("__"):
            continue
        if any(pol and mentions_check(t) for t, pol in _context_facts(cfg, n)):
            continue
        st = cfg.stmt_of(n)
        if cfg.paths_avoiding("ENTRY", st, lambda x: x is not st and is_check(x)):
            out.append(n)
    return out


@rule("C13.R15")
def r15_topmatter_handler_covers_validator_exceptions(corpus: Corpus, rep: Report, tier: str):
    rep.rule("C13.R15", "the handler around merge_file_level's validate_field covers every exception class a validator can raise on a front-matter value (explicit raises; AttributeError of an attribute use on the unchecked value)")
    mfl = corpus.func(f"{MAIN}:merge_file_level")
    dcv = corpus.mod(DCV).name
    for us in update_sites(corpus):
        U, call, mod = us.U, us.call, us.U.module
        tr = _enclosing_try(call)
        if tr is None or not tr.handlers:
            continue  # R5 reports the missing handler
        hs = tr.handlers
        k = f"{mfl.fq}|{VF_ROLES}|handler covers the validators' exceptions"
        if any(_handler_covers(h, {"\0"}) for h in hs):
            rep.ok("C13.R15", k, mod.site(hs[0]), "a handler for Exception: whatever a validator raises is turned into the topmatter warning")
            continue
        caught: set[str] = set()
        for h in hs:
            caught |= {x.rsplit(".", 1)[-1] for x in _type_names_dotted(h.type)}

        def covered(cls: str) -> bool:
            chain = EXC_PARENTS.get(cls)
            if chain is None:
                raise Unsupported(f"exception class {cls} not in the small hierarchy table")
            return bool(caught & set(chain))

        validators = {f.fq: f for f in custom_validators(corpus).values()}
        for f in corpus.all_functions():
            if not f.is_lambda and f.module.name == dcv and f.name not in ("validate_field", "validate_fields"):
                validators.setdefault(f.fq, f)
        problems = []
        witness = None
        for fq, f in sorted(validators.items()):
            for n in f.local_nodes():
                if isinstance(n, ast.Raise) and n.exc is not None:
                    e = n.exc.func if isinstance(n.exc, ast.Call) else n.exc
                    cls = (dotted(e) or "?").rsplit(".", 1)[-1]
                    if cls == "?":
                        raise Unsupported(f"{f.qualname}: raise of an unknown expression")
                    if not covered(cls):
                        problems.append(f"{f.qualname} raises {cls}")
                        witness = witness or (f, n)
            vname = _value_param(f)
            if vname is None:
                continue
            if not covered("AttributeError"):
                for a in _unchecked_attr_uses(f, vname):
                    problems.append(f"`{short(a, 40)}` in {f.qualname} is reached before any type test of the value (AttributeError for a value of another type)")
                    witness = witness or (f, a)
        if problems:
            rep.violation(
                "C13.R15",
                k,
                mod.site(hs[0]),
                f"the handler only covers {', '.join(sorted(caught))} but " + "; ".join(sorted(set(problems))[:4]) + ": such an invalid front-matter value aborts the parse instead of being ignored with one topmatter warning",
            )
        else:
            rep.ok("C13.R15", k, mod.site(hs[0]), f"except {', '.join(sorted(caught))} covers every explicit raise and no validator uses an attribute of the unchecked value")
    rep.expect_min("C13.R15", 1, "the handler of the validation try in merge_file_level")


def _test_atoms(e: ast.expr) -> list[ast.expr]:
    if isinstance(e, ast.BoolOp):
        return [a for v in e.values for a in _test_atoms(v)]
    if isinstance(e, ast.UnaryOp) and isinstance(e.op, ast.Not):
        return _test_atoms(e.operand)
    return [e]


@rule("C13.R16")
def r16_explicit_falsy_docutils_settings_are_kept(corpus: Corpus, rep: Report, tier: str):
    rep.rule("C13.R16", "docutils create_myst_config: whether a value read from the settings object is passed to the constructor is decided by a sentinel identity/equality/type test, never by the value's truthiness")
    builder = corpus.func("parsers.docutils_:create_myst_config")
    if not builder.params:
        raise Unsupported("create_myst_config takes no settings parameter")
    settings = builder.params[0]

    def is_read(n: ast.AST) -> bool:
        return isinstance(n, ast.Call) and dotted(n.func) == "getattr" and len(n.args) >= 2 and isinstance(n.args[0], ast.Name) and n.args[0].id == settings

    reads = [n for n in builder.local_nodes() if is_read(n)]
    if not reads:
        raise Unsupported(f"{builder.qualname}: no getattr({settings}, <name>, <default>) read found")
    vals: set[str] = set()
    for n in builder.local_nodes():
        if isinstance(n, (ast.Assign, ast.AnnAssign)) and n.value is not None and is_read(n.value):
            for t in n.targets if isinstance(n, ast.Assign) else [n.target]:
                if isinstance(t, ast.Name):
                    vals.add(t.id)
        elif isinstance(n, ast.NamedExpr) and is_read(n.value):
            vals.add(n.target.id)

    def about_value(e: ast.AST) -> bool:
        return any((isinstance(x, ast.Name) and x.id in vals) or is_read(x) for x in ast.walk(e))

    def is_value(e: ast.AST) -> bool:
        return (isinstance(e, ast.Name) and e.id in vals) or is_read(e) or (isinstance(e, ast.NamedExpr) and is_read(e.value))

    tests: list[ast.expr] = []
    for n in builder.local_nodes():
        if isinstance(n, (ast.If, ast.While, ast.IfExp)):
            tests.append(n.test)
        elif isinstance(n, ast.comprehension):
            tests.extend(n.ifs)
    n_inst = 0
    for t in tests:
        for a in _test_atoms(t):
            if not about_value(a):
                continue
            n_inst += 1
            k = f"{builder.fq}|condition on the setting value `{short(a, 50)}`"
            site = builder.module.site(a)
            if is_value(a) or (isinstance(a, ast.Call) and dotted(a.func) in ("bool", "len") and len(a.args) == 1 and is_value(a.args[0])):
                rep.violation(
                    "C13.R16",
                    k,
                    site,
                    "the setting value is tested for truthiness: an explicitly supplied False / 0 / empty collection (e.g. --myst-footnote-sort=no for an option whose default is True) "
                    "is treated as not supplied, so the docutils front end builds a different configuration than MdParserConfig(**values) / Sphinx for the same values",
                )
            elif isinstance(a, ast.Compare) and all(isinstance(o, (ast.Is, ast.IsNot, ast.Eq, ast.NotEq)) for o in a.ops):
                rep.ok("C13.R16", k, site, "identity/equality test against a sentinel")
            elif isinstance(a, ast.Call) and dotted(a.func) == "isinstance":
                rep.ok("C13.R16", k, site, "type test")
            else:
                rep.error("C13.R16", f"{site}: condition `{short(a, 60)}` on the setting value is not understood")
    if n_inst == 0:
        rep.ok("C13.R16", f"{builder.fq}|no condition on the setting value", builder.module.site(reads[0]), "every value read is passed on")
    rep.expect_min("C13.R16", 1, "the `is not DOCUTILS_UNSET` test of create_myst_config")


RULES = [r1_validator_types, r2_commit_after_validate, r3_no_raw_overwrite, r4_config_writers, r5_invalid_value_path, r6_entry_points_funnel, r7_short_circuit_consistency, r8_truthiness_for_none, r9_comma_lists_split_like_docutils, r10_str_is_not_a_container_of_str, r11_no_raw_conf_reads, r12_topmatter_block_as_markdown_delimits_it, r13_reparse_uses_file_level_config, r14_option_notices_use_the_document_config, r15_topmatter_handler_covers_validator_exceptions, r16_explicit_falsy_docutils_settings_are_kept]


# ---------------------------------------------------------------------------
# mutants of the current tree


def enclosing_stmt_of(node: ast.AST) -> ast.stmt:
    n = node
    while not isinstance(n, ast.stmt):
        n = parent(n)
    return n


def _seg(mod: Module, node: ast.AST) -> str:
    return ast.get_source_segment(mod.src, node) or ""


def _indent(mod: Module, st: ast.AST) -> str:
    line = mod.lines[st.lineno - 1]
    return line[: len(line) - len(line.lstrip())]


def _splice_many(src: str, edits: list[tuple[ast.AST, str]]) -> str:
    for node, text in sorted(edits, key=lambda e: (e[0].lineno, e[0].col_offset), reverse=True):
        src = splice(src, node, text)
    return src


def mutants(corpus: Corpus):
    out: list = []
    main = corpus.mod(MAIN)
    fields = {f.name: f for f in config_fields(corpus)}

    def meta_key_node(fld: Field, key: str):
        md = kwarg(fld.call, "metadata")
        for k, v in zip(md.keys, md.values):
            if k.value == key:
                return k, v
        return None, None

    # ---- R1
    fld = fields.get("footnote_sort")
    if fld is not None and fld.call is not None:
        k, v = meta_key_node(fld, "validator")
        if k is not None:
            out.append(Mutant("c13-validator-key-dropped", "C13.R1", main.rel, splice(main.src, k, '"validators"'), expect="footnote_sort", canary=True))
    fld = fields.get("mathjax_classes")
    if fld is not None and fld.call is not None:
        k, v = meta_key_node(fld, "validator")
        if v is not None:
            out.append(Mutant("c13-optional-added-to-str-field", "C13.R1", main.rel, splice(main.src, v, f"optional({_seg(main, v)})"), expect="mathjax_classes"))
    fld = fields.get("number_code_blocks")
    if fld is not None and fld.call is not None:
        k, v = meta_key_node(fld, "validator")
        if isinstance(v, ast.Call) and len(v.args) == 2 and isinstance(v.args[1], ast.Call):
            out.append(Mutant("c13-sequence-container-widened-to-set", "C13.R1", main.rel, splice(main.src, v.args[1], "instance_of((list, tuple, set))"), expect="number_code_blocks"))
    fld = fields.get("html_meta")
    if fld is not None and fld.call is not None:
        k, v = meta_key_node(fld, "validator")
        if isinstance(v, ast.Call) and len(v.args) == 3:
            out.append(Mutant("c13-dict-str-str-values-unchecked", "C13.R1", main.rel, splice(main.src, v.args[1], "any_"), expect="html_meta"))
            out.append(Mutant("c13-dict-container-unchecked", "C13.R1", main.rel, splice(main.src, v, f"deep_mapping({_seg(main, v.args[0])}, {_seg(main, v.args[1])})"), expect="html_meta"))
    fld = fields.get("heading_anchors")
    if fld is not None and fld.call is not None:
        k, v = meta_key_node(fld, "validator")
        if v is not None and not (isinstance(v, ast.Call) and dotted(v.func) == "optional"):
            out.append(Mutant("c13-F22-reverted-heading-anchors-optional", "C13.R1", main.rel, splice(main.src, v, f"optional({_seg(main, v)})"), expect="heading_anchors"))
        else:
            out.append(("c13-F22-reverted-heading-anchors-optional", "F22 is not repaired on this tree (the rule fires on the tree itself)"))

    # ---- R2 (a store-then-reject validator is only observable together with a handler that does not restore)
    mfl = main.func("merge_file_level")
    vcalls0 = [c for ff, c in _validate_field_calls(corpus) if ff.fq == mfl.fq]
    restore = None
    if vcalls0:
        tr0 = _enclosing_try(vcalls0[0])
        obj0, fieldvar0, val0 = _vf_args(vcalls0[0])
        raw0, unk0 = taint(mfl, val0)
        if tr0 is not None:
            for st in obj_stores(mfl, obj0):
                if st.value is not None and _expr_kind(st.value, raw0, unk0) == "clean" and any(st.node is x for hs in tr0.handlers[0].body for x in ast.walk(hs)):
                    restore = enclosing_stmt_of(st.node)

    def with_restore_dropped(edits):
        return _splice_many(main.src, edits + [(restore, "pass")])

    if restore is None:
        out.append(("c13-store-before-reject", "merge_file_level's handler has no restoring store on this tree"))
    else:
        f = main.func("check_fence_as_directive")
        body = [s for s in f.node.body if not (isinstance(s, ast.Expr) and isinstance(s.value, ast.Constant))]
        if len(body) == 2 and isinstance(body[0], ast.Expr) and isinstance(body[1], ast.Expr):
            out.append(Mutant("c13-fence-store-before-validation+no-restore", "C13.R2", main.rel, with_restore_dropped([(body[0], _seg(main, body[1])), (body[1], _seg(main, body[0]))]), expect="check_fence_as_directive", canary=True))
        f = main.func("check_url_schemes")
        loop = next((s for s in f.node.body if isinstance(s, ast.For)), None)
        st = next((s for s in f.node.body if isinstance(s, ast.Expr) and isinstance(s.value, ast.Call) and dotted(s.value.func) == "setattr"), None)
        if loop is not None and st is not None and st.lineno > loop.lineno:
            out.append(Mutant("c13-url-schemes-store-before-checks+no-restore", "C13.R2", main.rel, with_restore_dropped([(loop, _seg(main, st) + "\n" + _indent(main, loop) + _seg(main, loop)), (st, "pass")]), expect="check_url_schemes"))
        f = main.func("check_heading_slug_func")
        st = find_node(f, lambda n: isinstance(n, ast.Expr) and isinstance(n.value, ast.Call) and dotted(n.value.func) == "setattr")
        chk = find_node(f, lambda n: isinstance(n, ast.If) and "callable(" in unparse(n.test) and any(isinstance(x, ast.Raise) for x in n.body))
        if st is not None and chk is not None and st.lineno > chk.lineno and st in f.node.body and chk in f.node.body:
            # fix fe114c1 reverted; on its own unobservable since e0c7e68 (the handler restores), so the restore goes too
            out.append(Mutant("c13-F6-reverted-slug-func-store-before-callable-check+no-restore", "C13.R2", main.rel, with_restore_dropped([(chk, _seg(main, st) + "\n" + _indent(main, chk) + _seg(main, chk)), (st, "pass")]), expect="check_heading_slug_func"))
        else:
            out.append(("c13-F6-reverted-slug-func-store-before-callable-check+no-restore", "check_heading_slug_func no longer has the store-after-check shape"))

    # ---- R3 / R4 / R5 in merge_file_level
    mfl = main.func("merge_file_level")
    vcalls = [c for ff, c in _validate_field_calls(corpus) if ff.fq == mfl.fq]
    if vcalls:
        call = vcalls[0]
        obj, fieldvar, val = _vf_args(call)
        tr = next((a for a in ancestors(call) if isinstance(a, ast.Try)), None)
        loop = next((a for a in ancestors(call) if isinstance(a, ast.For)), None)
        raw_stores = [s for s in obj_stores(mfl, obj) if isinstance(s.value, ast.Name) and s.value.id == val and s.node.lineno > call.lineno and not get_cfg(mfl).guards(get_cfg(mfl).stmt_of(s.node))[0:0]]
        unguarded = [s for s in raw_stores if not any(_metadata_flag(t, fieldvar) for t, p in get_cfg(mfl).guards(get_cfg(mfl).stmt_of(s.node)))]
        if unguarded:
            s = unguarded[0]
            if isinstance(s.node, ast.Call) and dotted(s.node.func) == "setattr":
                out.append(Mutant("c13-raw-store-spelled-object-setattr", "C13.R3", main.rel, splice(main.src, s.node.func, "object.__setattr__"), expect="__setattr__"))
            out.append(("c13-F5-reverted-raw-store-after-validation", "F5 is not repaired on this tree (the rule fires on the tree itself)"))
        elif tr is not None and loop is not None and isinstance(loop.target, ast.Tuple) and isinstance(loop.target.elts[0], ast.Name):
            nm = loop.target.elts[0].id
            out.append(Mutant("c13-F5-reverted-raw-store-after-validation", "C13.R3", main.rel, splice(main.src, tr, _seg(main, tr) + "\n" + _indent(main, tr) + f"setattr({obj}, {nm}, {val})"), expect="setattr"))
        # R4
        out.append(Mutant("c13-validators-run-on-the-global-object", "C13.R4", main.rel, splice(main.src, call.args[0], mfl.params[0]), expect="validated object", canary=True))
        cp = find_node(mfl, lambda n: isinstance(n, ast.Assign) and isinstance(n.value, ast.Call) and isinstance(n.value.func, ast.Attribute) and n.value.func.attr == "copy" and unparse(n.value.func.value) == mfl.params[0])
        if cp is not None:
            out.append(Mutant("c13-copy-of-global-dropped", "C13.R4", main.rel, splice(main.src, cp.value, mfl.params[0]), expect="merge_file_level"))
        mg = find_node(mfl, lambda n: isinstance(n, ast.Dict) and len(n.keys) == 2 and all(k is None for k in n.keys))
        if mg is not None:
            out.append(Mutant("c13-merge-operands-swapped", "C13.R4", main.rel, splice(main.src, mg, "{**" + _seg(main, mg.values[1]) + ", **" + _seg(main, mg.values[0]) + "}"), expect="merge"))
            out.append(Mutant("c13-merge-in-place", "C13.R4", main.rel, splice(main.src, mg, f"({unparse(mg.values[0])}.update({unparse(mg.values[1])}) or {unparse(mg.values[0])})"), expect="merges in place"))
        # R5
        if tr is not None:
            h = tr.handlers[0]
            cont = next((s for s in h.body if isinstance(s, ast.Continue)), None)
            if cont is not None:
                out.append(Mutant("c13-handler-continue-dropped", "C13.R5", main.rel, splice(main.src, cont, "pass"), expect="except", canary=True))
            wst = next((s for s in h.body if isinstance(s, ast.Expr) and isinstance(s.value, ast.Call) and isinstance(s.value.func, ast.Name) and s.value.func.id == mfl.params[2]), None)
            if wst is not None:
                out.append(Mutant("c13-handler-warning-dropped", "C13.R5", main.rel, splice(main.src, wst, "pass"), expect="warning call"))
                out.append(Mutant("c13-handler-warning-twice", "C13.R5", main.rel, splice(main.src, wst, _seg(main, wst) + "\n" + _indent(main, wst) + _seg(main, wst)), expect="warning call"))
                if wst.value.args:
                    out.append(Mutant("c13-handler-warning-wrong-type", "C13.R5", main.rel, splice(main.src, wst.value.args[0], "MystWarnings.DEPRECATED"), expect="MD_TOPMATTER"))
            out.append(Mutant("c13-validation-try-dropped", "C13.R5", main.rel, unwrap_try(mfl, tr), expect="not inside a try"))
            if restore is not None:
                out.append(Mutant("c13-handler-restore-dropped", "C13.R5", main.rel, splice(main.src, restore, "pass"), expect="stays in effect"))
                if isinstance(restore, ast.Expr) and isinstance(restore.value, ast.Call) and len(restore.value.args) == 3:
                    out.append(Mutant("c13-handler-restores-the-rejected-value", "C13.R5", main.rel, splice(main.src, restore.value.args[2], val), expect="stores the rejected value"))
                out.append(Mutant("c13-handler-restore-on-one-path-only", "C13.R5", main.rel, splice(main.src, restore, "if isinstance(exc, TypeError):\n" + _indent(main, restore) + "    " + _seg(main, restore)), expect="stays in effect"))

    # ---- R4 elsewhere
    dm = corpus.mod("sphinx_ext.directives")
    f = dm.func("FigureMarkdown.run")
    tr = find_node(f, lambda n: isinstance(n, ast.Try) and n.finalbody)
    if tr is not None:
        out.append(Mutant("c13-figure-md-restore-dropped", "C13.R4", dm.rel, splice(dm.src, tr.finalbody[0], "pass"), expect="FigureMarkdown.run"))
    du = corpus.mod("parsers.docutils_")
    f = du.func("Parser.parse")
    iff = find_node(f, lambda n: isinstance(n, ast.If) and "attrs_image" in unparse(n.test))
    if iff is not None:
        out.append(Mutant("c13-parser-edits-config-in-place", "C13.R4", du.rel, splice(du.src, iff.body[0], 'config.enable_extensions.add("attrs_inline")\n' + _indent(du, iff.body[0]) + _seg(du, iff.body[0])), expect="Parser.parse"))
    bm = corpus.mod("mdit_to_docutils.base")
    f = bm.func("DocutilsRenderer.render_front_matter")
    out.append(Mutant("c13-renderer-stores-config-field", "C13.R4", bm.rel, splice(bm.src, f.node.body[-1], _seg(bm, f.node.body[-1]) + "\n" + _indent(bm, f.node.body[-1]) + "self.md_config.title_to_header = False"), expect="render_front_matter"))

    # ---- R6
    ci = corpus.cls(f"{MAIN}:{CONFIG_CLS}")
    pi = ci.methods.get("__post_init__")
    if pi is not None:
        out.append(Mutant("c13-post-init-validation-dropped", "C13.R6", main.rel, splice(main.src, pi.node.body[-1], "pass"), expect="__post_init__"))
    cp = ci.methods.get("copy")
    if cp is not None:
        r = find_node(cp, lambda n: isinstance(n, ast.Return))
        if r is not None:
            ind = _indent(main, r)
            out.append(Mutant("c13-copy-without-validation", "C13.R6", main.rel, splice(main.src, r, f"import copy as _copy\n{ind}new = _copy.copy(self)\n{ind}for k, v in kwargs.items():\n{ind}    setattr(new, k, v)\n{ind}return new"), expect="copy"))
    f = du.func("create_myst_config")
    flt = _omit_filters(f)
    if flt:
        out.append(Mutant("c13-docutils-omit-filter-mismatch", "C13.R6", du.rel, splice(du.src, flt[0][2].left, '"sphinx"'), expect="omit filter"))
    for f in du.functions.values():
        if f.is_lambda:
            continue
        tr = find_node(f, lambda n: isinstance(n, ast.Try) and any("create_myst_config(" in unparse(s) for s in n.body))
        if tr is not None:
            out.append(Mutant("c13-docutils-global-config-try-dropped", "C13.R6", du.rel, unwrap_try(f, tr), expect="outside any try"))
            h0 = tr.handlers[0]
            if h0.type is not None:
                out.append(Mutant("c13-docutils-global-config-handler-narrowed", "C13.R6", du.rel, splice(du.src, h0.type, "TypeError"), expect="does not cover"))
            break
    sm = corpus.mod("sphinx_ext.main")
    f = sm.func("create_myst_config")
    tr = find_node(f, lambda n: isinstance(n, ast.Try))
    if tr is not None and tr.handlers[0].type is not None:
        out.append(Mutant("c13-sphinx-handler-narrowed", "C13.R6", sm.rel, splice(sm.src, tr.handlers[0].type, "TypeError"), expect="does not cover"))
    flt = _omit_filters(f)
    if flt:
        n = flt[0][2]
        out.append(Mutant("c13-sphinx-omit-filter-polarity", "C13.R6", sm.rel, splice(sm.src, n, f"{_seg(sm, n.left)} in {_seg(sm, n.comparators[0])}"), expect="polarity"))
    f = main.func("check_heading_slug_func")
    h = find_node(f, lambda n: isinstance(n, ast.ExceptHandler) and n.type is not None and "AttributeError" in unparse(n.type))
    if h is not None:
        out.append(Mutant("c13-slug-func-getattr-handler-narrowed", "C13.R6", main.rel, splice(main.src, h.type, "ImportError"), expect="AttributeError"))
    else:
        out.append(("c13-slug-func-getattr-handler-narrowed", "the AttributeError of getattr(mod, name) is not handled on this tree (the rule fires on the tree itself)"))

    # ---- R7
    f = main.func("check_url_schemes")
    iff = find_node(f, lambda n: isinstance(n, ast.If) and any(isinstance(c, ast.Constant) and c.value == "classes" for c in ast.walk(n.test)) and any(isinstance(x, ast.Raise) for x in n.body))
    if iff is not None:
        t = iff.test
        conj = isinstance(t, ast.BoolOp) and isinstance(t.op, ast.And) and len(t.values) == 3
        if conj:
            isn = find_node(f, lambda n: isinstance(n, ast.Call) and dotted(n.func) == "isinstance" and "classes" in unparse(n.args[0]) and unparse(n.args[1]) == "list")
            if isn is not None:
                out.append(Mutant("c13-classes-test-still-conjunctive-with-tuple", "C13.R7", main.rel, splice(main.src, isn.args[1], "(list, tuple)"), expect="(list, tuple)"))
            out.append(("c13-F27-reverted-classes-test-conjunctive", "F27 is not repaired on this tree (the rule fires on the tree itself)"))
        else:
            out.append(Mutant("c13-F27-reverted-classes-test-conjunctive", "C13.R7", main.rel, splice(main.src, t, '"classes" in val and not isinstance(val["classes"], list) and not all(isinstance(c, str) for c in val["classes"])'), expect="classes"))
    f = main.func("check_inventories")
    iff = find_node(f, lambda n: isinstance(n, ast.If) and unparse(n.test).startswith("not isinstance(val[0]"))
    pre = find_node(f, lambda n: isinstance(n, ast.If) and isinstance(n.test, ast.BoolOp) and isinstance(n.test.op, ast.Or) and "len(val)" in unparse(n.test))
    if iff is not None and pre is not None:
        # the container test and the member test folded into one conjunctive condition
        out.append(Mutant("c13-inventories-container-and-member-test-conjoined", "C13.R7", main.rel, splice(main.src, pre.test, "not isinstance(val, list) and not isinstance(val[0], str)"), expect="check_inventories"))
    # ---- R8 truthiness standing in for a None / type test
    dv = corpus.mod(DCV)
    f = dv.func("optional._validator")
    t = find_node(f, lambda n: isinstance(n, ast.If) and isinstance(n.test, ast.Compare) and isinstance(n.test.ops[0], ast.Is) and unparse(n.test.comparators[0]) == "None")
    if t is not None:
        out.append(Mutant("c13-optional-returns-on-falsy", "C13.R8", dv.rel, splice(dv.src, t.test, f"not {unparse(t.test.left)}"), expect="optional._validator"))
    f = main.func("check_heading_slug_func")
    t = find_node(f, lambda n: isinstance(n, ast.If) and isinstance(n.test, ast.Compare) and isinstance(n.test.ops[0], ast.Is) and unparse(n.test.comparators[0]) == "None" and n.body and isinstance(n.body[0], ast.Return))
    if t is not None:
        out.append(Mutant("c13-slug-func-returns-on-falsy", "C13.R8", main.rel, splice(main.src, t.test, f"not {unparse(t.test.left)}"), expect="check_heading_slug_func"))
    f = main.func("check_url_schemes")
    t = find_node(f, lambda n: isinstance(n, ast.If) and isinstance(n.test, ast.Compare) and isinstance(n.test.ops[0], ast.Is) and unparse(n.test.comparators[0]) == "None" and isinstance(n.test.left, ast.Name))
    if t is not None:
        out.append(Mutant("c13-url-scheme-item-accepted-when-falsy", "C13.R8", main.rel, splice(main.src, t.test, f"not {unparse(t.test.left)}"), expect="check_url_schemes"))
    f = main.func("check_sub_delimiters")
    t = find_node(f, lambda n: isinstance(n, ast.If) and any(isinstance(x, ast.Raise) for x in n.body) and f.params[2] in _free_names(n.test))
    if t is not None:
        out.append(Mutant("c13-sub-delimiters-checked-only-when-truthy", "C13.R8", main.rel, splice(main.src, t.test, f"{f.params[2]} and ({_seg(main, t.test)})"), expect="check_sub_delimiters"))
    # ---- round 4 classes
    # (a) merge skipped under an extra condition (R3: last store for merge_topmatter fields)
    mfl = main.func("merge_file_level")
    vc = [c for ff, c in _validate_field_calls(corpus) if ff.fq == mfl.fq]
    if vc:
        obj, fieldvar, val = _vf_args(vc[0])
        mif = find_node(mfl, lambda n: isinstance(n, ast.If) and any(_metadata_flag(t, fieldvar) == "merge_topmatter" and p for t, p in flow_facts(n.test, True)))
        if mif is not None:
            out.append(Mutant("c13-merge-skipped-for-empty-front-matter-dict", "C13.R3", main.rel, splice(main.src, mif.test, f"{_seg(main, mif.test)} and {val}"), expect="merge_topmatter"))
            body0 = mif.body[0]
            ind = _indent(main, body0)
            out.append(Mutant("c13-merge-skipped-under-len-guard", "C13.R3", main.rel, splice(main.src, body0, f"if len({val}) > 0:\n{ind}    {_seg(main, body0)}"), expect="merge_topmatter"))
        # (b) the handler restores a value that is not the incoming configuration's
        tr = _enclosing_try(vc[0])
        if tr is not None:
            raw_, unk_ = taint(mfl, val)
            rst = next((st for st in _plain_obj_stores(mfl, obj) if st.value is not None and _expr_kind(st.value, raw_, unk_) == "clean" and any(st.node is x for hs in tr.handlers[0].body for x in ast.walk(hs))), None)
            if rst is not None:
                nm = unparse(rst.attr) if isinstance(rst.attr, ast.AST) else "name"
                out.append(Mutant("c13-handler-restores-a-fresh-default-config-value", "C13.R5", main.rel, splice(main.src, rst.value, f"getattr(MdParserConfig(), {nm})"), expect="neither from the incoming configuration"))
                out.append(Mutant("c13-handler-restores-the-field-default", "C13.R5", main.rel, splice(main.src, rst.value, f"{fieldvar}.default"), expect="neither from the incoming configuration"))
    # (c) the Sphinx builder-inited handler does not rebuild the config on every path
    sm = corpus.mod("sphinx_ext.main")
    f = sm.func("create_myst_config")
    tr = find_node(f, lambda n: isinstance(n, ast.Try))
    first = find_node(f, lambda n: isinstance(n, ast.Assign) and isinstance(n.targets[0], ast.Name) and n.targets[0].id == "values")
    if tr is not None and first is not None and first in f.node.body:
        ind = _indent(sm, first)
        out.append(Mutant("c13-sphinx-config-kept-when-already-present", "C13.R6", sm.rel, splice(sm.src, first, f'if getattr(app.env, "myst_config", None) is not None:\n{ind}    return\n{ind}{_seg(sm, first)}'), expect="every normal path binds"))
        lines = _seg(sm, tr).split("\n")
        out.append(Mutant("c13-sphinx-config-built-only-when-absent", "C13.R6", sm.rel, splice(sm.src, tr, 'if not hasattr(app.env, "myst_config"):\n' + "\n".join(ind + "    " + l.lstrip() if i == 0 else "    " + l for i, l in enumerate(lines))), expect="every normal path binds"))
    # (d) a field that is mutated in place does not get its own container on every validation
    f = main.func("check_extensions")
    st = find_node(f, lambda n: isinstance(n, ast.Expr) and isinstance(n.value, ast.Call) and dotted(n.value.func) == "setattr" and len(n.value.args) == 3)
    if st is not None and st in f.node.body:
        ind = _indent(main, st)
        v = f.params[2]
        out.append(Mutant("c13-extensions-stored-only-when-not-already-a-set", "C13.R4", main.rel, splice(main.src, st, f"if not isinstance({v}, set):\n{ind}    {_seg(main, st)}"), expect="own container per instance"))
        out.append(Mutant("c13-extensions-set-passed-through-unchanged", "C13.R4", main.rel, splice(main.src, st.value.args[2], f"{v} if isinstance({v}, set) else {_seg(main, st.value.args[2])}"), expect="own container per instance"))
    # ---- round 5: validate_fields skips a validator depending on the value
    dv = corpus.mod(DCV)
    f = dv.func("validate_fields")
    lp = find_node(f, lambda n: isinstance(n, ast.For))
    if lp is not None and len(lp.body) == 1 and isinstance(lp.body[0], ast.Expr) and isinstance(lp.body[0].value, ast.Call) and len(lp.body[0].value.args) == 3:
        st = lp.body[0]
        c = st.value
        ind = _indent(dv, st)
        fv = unparse(lp.target)
        cur = _seg(dv, c.args[2])
        callv = f"{unparse(c.func)}({_seg(dv, c.args[0])}, {_seg(dv, c.args[1])}, value)"
        out.append(Mutant("c13-validate-fields-skips-values-equal-to-default", "C13.R6", dv.rel, splice(dv.src, st, f"value = {cur}\n{ind}if {fv}.default is not dc.MISSING and value == {fv}.default:\n{ind}    continue\n{ind}{callv}"), expect="validate_fields"))
        out.append(Mutant("c13-validate-fields-skips-none", "C13.R6", dv.rel, splice(dv.src, st, f"value = {cur}\n{ind}if value is not None:\n{ind}    {callv}"), expect="validate_fields"))
        out.append(Mutant("c13-validate-fields-skips-falsy", "C13.R6", dv.rel, splice(dv.src, st, f"if {cur}:\n{ind}    {_seg(dv, st)}"), expect="validate_fields"))
    else:
        out.append(("c13-validate-fields-skips-values-equal-to-default", "validate_fields loop body is not a single validate_field call on this tree"))
    # ---- round 6: comma-delimited setting strings split without docutils' normalisation (R9)
    du = corpus.mod("parsers.docutils_")
    f = du.functions.get("_validate_comma_separated_set")
    if f is not None:
        c = find_node(f, lambda n: isinstance(n, ast.Call) and du.resolve(dotted(n.func) or "") == "docutils.frontend.validate_comma_separated_list")
        if c is not None and len(f.params) > 1:
            v = f.params[1]
            out.append(Mutant("c13-set-converter-own-split-keeps-empty-items", "C13.R9", du.rel, splice(du.src, c, f'[i.strip() for i in {v}.split(",")]'), expect="_validate_comma_separated_set"))
            out.append(Mutant("c13-set-converter-own-split-unstripped", "C13.R9", du.rel, splice(du.src, c, f'[i for i in {v}.split(",") if i]'), expect="_validate_comma_separated_set"))
    f = du.functions.get("_create_validate_tuple._validate")
    if f is not None:
        c = find_node(f, lambda n: isinstance(n, ast.Call) and du.resolve(dotted(n.func) or "") == "docutils.frontend.validate_comma_separated_list")
        if c is not None and len(f.params) > 1:
            out.append(Mutant("c13-tuple-converter-plain-split", "C13.R9", du.rel, splice(du.src, c, f'{f.params[1]}.split(",")'), expect="_create_validate_tuple._validate"))
    f = du.functions.get("_validate_url_schemes")
    if f is not None:
        for site in _comma_split_sites(f):
            comp = parent(site)
            while comp is not None and not isinstance(comp, (ast.DictComp, ast.ListComp, ast.SetComp, ast.GeneratorExp, ast.stmt)):
                comp = parent(comp)
            try:
                good = _split_site_verdict(f, site) == (True, True)
            except Unsupported:
                good = False
            if good and isinstance(comp, ast.DictComp):
                var = unparse(comp.generators[0].target)
                out.append(Mutant("c13-url-schemes-list-spelling-not-normalised", "C13.R9", du.rel, splice(du.src, comp, "{" + f"{var}: None for {var} in {_seg(du, site)}" + "}"), expect="_validate_url_schemes"))
    # ---- round 8 (a): a config field's own object used as a working container (R4)
    bm = corpus.mod("mdit_to_docutils.base")
    f = bm.func("DocutilsRenderer.render_substitution")
    dd = find_node(f, lambda n: isinstance(n, ast.Dict) and len(n.keys) == 1 and n.keys[0] is None and isinstance(n.values[0], ast.Attribute) and "md_config" in unparse(n.values[0]))
    if dd is not None:
        out.append(Mutant("c13-substitutions-dict-itself-used-as-template-context", "C13.R4", bm.rel, splice(bm.src, dd, _seg(bm, dd.values[0])), expect="render_substitution"))
    f = bm.func("DocutilsRenderer._render_initialise")
    st0 = f.node.body[0] if not (isinstance(f.node.body[0], ast.Expr) and isinstance(f.node.body[0].value, ast.Constant)) else f.node.body[1]
    ind = _indent(bm, st0)
    out.append(Mutant("c13-html-meta-alias-gets-a-default-key", "C13.R4", bm.rel, splice(bm.src, st0, f'meta = self.md_config.html_meta or {{}}\n{ind}meta.setdefault("generator", "myst")\n{ind}{_seg(bm, st0)}'), expect="_render_initialise"))
    # ---- round 8 (b): a plain string passes as a container of strings (R10 / R1)
    for fname, mid in (("check_sub_delimiters", "c13-sub-delimiters-accept-any-sequence"), ("check_inventories", "c13-inventory-item-accepts-any-sequence"), ("check_url_schemes", "c13-url-schemes-list-branch-accepts-any-iterable")):
        f = main.func(fname)
        t = find_node(f, lambda n: isinstance(n, ast.Call) and dotted(n.func) == "isinstance" and len(n.args) == 2 and isinstance(n.args[1], (ast.BinOp, ast.Tuple)) and {"list", "tuple"} <= set(_type_names(n.args[1])))
        if t is not None:
            out.append(Mutant(mid, "C13.R10", main.rel, splice(main.src, t.args[1], "Sequence" if "any-sequence" in mid else "Iterable"), expect=fname))
    f = main.func("check_fence_as_directive")
    c = find_node(f, lambda n: isinstance(n, ast.Call) and dotted(n.func) == "deep_iterable" and len(n.args) == 2)
    if c is not None:
        out.append(Mutant("c13-fence-as-directive-container-unchecked", "C13.R10", main.rel, splice(main.src, c, f"deep_iterable({_seg(main, c.args[0])})"), expect="check_fence_as_directive"))
    fld = fields.get("ref_domains")
    if fld is not None and fld.call is not None:
        k, v = meta_key_node(fld, "validator")
        inner = v.args[0] if isinstance(v, ast.Call) and dotted(v.func) == "optional" and v.args else v
        if isinstance(inner, ast.Call) and dotted(inner.func) == "deep_iterable" and len(inner.args) == 2:
            out.append(Mutant("c13-ref-domains-container-unchecked", "C13.R1", main.rel, splice(main.src, inner, f"deep_iterable({_seg(main, inner.args[0])})"), expect="ref_domains"))
    # ---- round 9: one entry point transforms the items of a comma-delimited setting (R9)
    du = corpus.mod("parsers.docutils_")
    f = du.functions.get("_validate_url_schemes")
    if f is not None:
        for site in _comma_split_sites(f):
            comp = parent(site)
            while comp is not None and not isinstance(comp, (ast.DictComp, ast.ListComp, ast.SetComp, ast.GeneratorExp, ast.stmt)):
                comp = parent(comp)
            if isinstance(comp, ast.DictComp) and not _item_transforms(f, site):
                out.append(Mutant("c13-url-schemes-list-spelling-lower-cased", "C13.R9", du.rel, splice(du.src, comp.key, f"{_seg(du, comp.key)}.lower()"), expect="items pass through unchanged"))
    f = du.functions.get("_validate_comma_separated_set")
    if f is not None:
        r = find_node(f, lambda n: isinstance(n, ast.Return) and isinstance(n.value, ast.Call) and dotted(n.value.func) == "set" and len(n.value.args) == 1)
        if r is not None:
            out.append(Mutant("c13-set-converter-casefolds-items", "C13.R9", du.rel, splice(du.src, r.value, "{v.casefold() for v in " + _seg(du, r.value.args[0]) + "}"), expect="items pass through unchanged"))
    f = du.functions.get("_create_validate_tuple._validate")
    if f is not None:
        r = find_node(f, lambda n: isinstance(n, ast.Return) and isinstance(n.value, ast.Call) and dotted(n.value.func) == "tuple" and len(n.value.args) == 1)
        if r is not None:
            out.append(Mutant("c13-tuple-converter-replaces-in-items", "C13.R9", du.rel, splice(du.src, r.value, "tuple(v.replace('_', '-') for v in " + _seg(du, r.value.args[0]) + ")"), expect="items pass through unchanged"))
    # ---- round 9: validate_field skips the validator depending on the value (R6)
    dv = corpus.mod(DCV)
    f = dv.func("validate_field")
    first = next((st for st in f.node.body if not (isinstance(st, ast.Expr) and isinstance(st.value, ast.Constant))), None)
    if first is not None:
        ind = _indent(dv, first)
        out.append(Mutant("c13-validate-field-skips-none-values", "C13.R6", dv.rel, splice(dv.src, first, f"if {f.params[2]} is None:\n{ind}    return\n{ind}{_seg(dv, first)}"), expect="validate_field"))
    # ---- round 10: revert mutants of the landed repairs + their classes
    # 8a4bc4b / 1d4c211: read_topmatter
    rt = main.func("read_topmatter")
    lp = find_node(rt, lambda n: isinstance(n, ast.For) and any(isinstance(x, ast.Break) for x in ast.walk(n)))
    if lp is not None and isinstance(lp.target, ast.Name):
        var = lp.target.id
        rs = find_node(rt, lambda n: isinstance(n, ast.Call) and isinstance(n.func, ast.Attribute) and n.func.attr == "rstrip" and unparse(n.func.value) == var and len(n.args) == 1)
        if rs is not None:
            out.append(Mutant("c13-8a4bc4b-reverted-topmatter-lines-rstripped", "C13.R12", main.rel, splice(main.src, rs, f"{var}.rstrip()"), expect="verbatim"))
            out.append(Mutant("c13-topmatter-lines-stripped-both-sides", "C13.R12", main.rel, splice(main.src, rs, f"{var}.strip()"), expect="verbatim"))
        br = find_node(rt, lambda n: isinstance(n, ast.If) and any(isinstance(x, ast.Break) for x in n.body) and var in _free_names(n.test))
        if br is not None:
            out.append(Mutant("c13-1d4c211-reverted-closing-marker-at-column-0-only", "C13.R12", main.rel, splice(main.src, br.test, f'{var}.startswith(("---", "..."))'), expect="block ends where"))
            out.append(Mutant("c13-closing-marker-after-any-indentation", "C13.R12", main.rel, splice(main.src, br.test, f'{var}.lstrip().startswith(("---", "..."))'), expect="block ends where"))
    # ca0fdd5: translated messages
    sp = corpus.mod("parsers.sphinx_")
    f = sp.func("MystParser.parse")
    rd = find_node(f, lambda n: isinstance(n, ast.Assign) and isinstance(n.value, ast.Call) and isinstance(n.value.func, ast.Attribute) and n.value.func.attr == "get" and "temp_data" in unparse(n.value.func.value))
    wr = find_node(f, lambda n: isinstance(n, ast.Assign) and isinstance(n.targets[0], ast.Subscript) and "temp_data" in unparse(n.targets[0]))
    if rd is not None:
        out.append(Mutant("c13-ca0fdd5-reverted-translated-messages-use-global-config", "C13.R13", sp.rel, splice(sp.src, rd, "pass"), expect="translated"))
    if wr is not None:
        out.append(Mutant("c13-file-level-config-never-stored-for-reparses", "C13.R13", sp.rel, splice(sp.src, wr, "pass"), expect="translated"))
    # d5e2ee9 / 72e3628: raw conf reads
    mr = corpus.mod("sphinx_ext.myst_refs")
    f = mr.func("MystReferenceResolver.run")
    rawr = next((nd for nd, nm in _raw_conf_reads(f) if nm == "ref_domains"), None)
    if rawr is not None:
        top = rawr
        while isinstance(parent(top), (ast.Call, ast.Attribute)) and not isinstance(parent(top), ast.stmt):
            top = parent(top)
        if top is not rawr:
            out.append(Mutant("c13-d5e2ee9-reverted-resolver-reads-conf-ref-domains-only", "C13.R11", mr.rel, splice(mr.src, top, _seg(mr, rawr)), expect="ref_domains"))
    mj = corpus.mod("sphinx_ext.mathjax")
    f = mj.func("override_mathjax")
    first = next((st for st in f.node.body if not (isinstance(st, ast.Expr) and isinstance(st.value, ast.Constant))), None)
    if first is not None:
        ind = _indent(mj, first)
        out.append(Mutant("c13-72e3628-reverted-mathjax-override-tied-to-conf-extensions", "C13.R11", mj.rel, splice(mj.src, first, f'if "dollarmath" not in app.config["myst_enable_extensions"]:\n{ind}    return\n{ind}{_seg(mj, first)}'), expect="enable_extensions"))
    bm = corpus.mod("mdit_to_docutils.base")
    f = bm.func("DocutilsRenderer._render_finalise")
    first = next((st for st in f.node.body if not (isinstance(st, ast.Expr) and isinstance(st.value, ast.Constant))), None)
    if first is not None:
        ind = _indent(bm, first)
        out.append(Mutant("c13-renderer-reads-conf-heading-anchors", "C13.R11", bm.rel, splice(bm.src, first, f'if self.sphinx_env is not None and self.sphinx_env.config.myst_heading_anchors == 0:\n{ind}    self._heading_slugs.clear()\n{ind}{_seg(bm, first)}'), expect="heading_anchors"))
    # R13: the file-level config is stored before the front matter is merged in
    sp = corpus.mod("parsers.sphinx_")
    f = sp.func("MystParser.parse")
    wr = find_node(f, lambda n: isinstance(n, ast.If) and any(isinstance(x, ast.Assign) and isinstance(x.targets[0], ast.Subscript) and "temp_data" in unparse(x.targets[0]) for x in n.body))
    tr = find_node(f, lambda n: isinstance(n, ast.Try) and "read_topmatter" in unparse(n))
    if wr is not None and tr is not None and wr in f.node.body and tr in f.node.body and wr.lineno > tr.lineno:
        out.append(Mutant("c13-file-level-config-stored-before-the-merge", "C13.R13", sp.rel, _splice_many(sp.src, [(tr, _seg(sp, wr) + "\n" + _indent(sp, tr) + _seg(sp, tr)), (wr, "pass")]), expect="before it is final"))
    # ---- round 12: an update dropped silently / a shallow copy of the global config
    mfl = main.func("merge_file_level")
    us_ = [x for x in update_sites(corpus) if x.U.fq == mfl.fq]
    if us_:
        us0 = us_[0]
        cfg_ = get_cfg(mfl)
        anchor = next((st for st in obj_stores(mfl, us0.obj) if st.value is not None and isinstance(st.value, ast.Name) and st.value.id == us0.val and st.node.lineno < us0.call.lineno), None)
        st0 = enclosing_stmt_of(anchor.node) if anchor is not None else None
        if st0 is not None:
            ind = _indent(main, st0)
            out.append(Mutant("c13-null-front-matter-values-skipped-silently", "C13.R5", main.rel, splice(main.src, st0, f"if {us0.val} is None:\n{ind}    continue\n{ind}{_seg(main, st0)}"), expect="validated or reported"))
            out.append(Mutant("c13-empty-front-matter-values-skipped-silently", "C13.R5", main.rel, splice(main.src, st0, f"if not {us0.val}:\n{ind}    continue\n{ind}{_seg(main, st0)}"), expect="validated or reported"))
        gl = find_node(mfl, lambda n: isinstance(n, ast.If) and any(_metadata_flag(t, us0.fieldvar) == "global_only" and p for t, p in flow_facts(n.test, True)))
        if gl is not None:
            wst = next((s_ for s_ in gl.body if isinstance(s_, ast.Expr) and isinstance(s_.value, ast.Call) and isinstance(s_.value.func, ast.Name) and s_.value.func.id == mfl.params[2]), None)
            if wst is not None:
                out.append(Mutant("c13-global-only-key-dropped-without-warning", "C13.R5", main.rel, splice(main.src, wst, "pass"), expect="validated or reported"))
    cp = find_node(mfl, lambda n: isinstance(n, ast.Assign) and _copy_kind(mfl, n.value, {mfl.params[0]}) == "validating")
    if cp is not None:
        out.append(Mutant("c13-per-document-config-is-a-shallow-copy", "C13.R4", main.rel, splice(main.src, cp, f"import copy as _copy_mod\n{_indent(main, cp)}{unparse(cp.targets[0])} = _copy_mod.copy({mfl.params[0]})"), expect="owns its mutable values"))
    # ---- round 13: the same R9 obligations in a two-stage pipeline (generator of stripped items, then a filter)
    du = corpus.mod("parsers.docutils_")
    f = du.functions.get("_validate_url_schemes")
    if f is not None:
        for site in _comma_split_sites(f):
            comp = parent(site)
            while comp is not None and not isinstance(comp, (ast.DictComp, ast.ListComp, ast.SetComp, ast.GeneratorExp, ast.stmt)):
                comp = parent(comp)
            if isinstance(comp, ast.DictComp) and isinstance(parent(comp), ast.Assign):
                st = parent(comp)
                ind = _indent(du, st)
                tgt = unparse(st.targets[0])
                seg = _seg(du, site)
                out.append(Mutant("c13-url-schemes-two-stage-split-keeps-empty-items", "C13.R9", du.rel, splice(du.src, st, f"_items = (i.strip() for i in {seg})\n{ind}{tgt} = dict.fromkeys(x for x in _items)"), expect="stripped and empty items dropped"))
                out.append(Mutant("c13-url-schemes-two-stage-split-lower-cases-in-second-stage", "C13.R9", du.rel, splice(du.src, st, f"_items = (i.strip() for i in {seg})\n{ind}{tgt} = dict.fromkeys(x.lower() for x in _items if x)"), expect="items pass through unchanged"))
    # ---- round 14: second bug hunt - reverts and partial weakenings of the repairs
    # 2cd823c read_topmatter closes the block like the markdown-it rule
    rt = main.func("read_topmatter")
    js = find_node(rt, lambda n: isinstance(n, ast.JoinedStr) and isinstance(parent(n), ast.Call) and dotted(parent(n).func) == "re.compile")
    if js is not None:
        seg = _seg(main, js)
        if "[ \\t]*$" in seg:
            out.append(Mutant("c13-2cd823c-reverted-closing-line-may-have-trailing-text", "C13.R12", main.rel, splice(main.src, js, seg.replace("[ \\t]*$", "")), expect="block ends where"))
        import re as _re_m

        m_ = _re_m.search(r"\{\{\{(\w+)\},\}\}", seg)
        if m_:
            out.append(Mutant("c13-closing-marker-shorter-than-the-opener-accepted", "C13.R12", main.rel, splice(main.src, js, seg.replace(m_.group(0), "{{3,}}")), expect="block ends where"))
    dots = find_node(rt, lambda n: isinstance(n, ast.Compare) and isinstance(n.comparators[0], ast.Constant) and n.comparators[0].value == "..." and isinstance(n.ops[0], ast.Eq))
    if dots is not None:
        out.append(Mutant("c13-line-starting-with-dots-closes-the-block", "C13.R12", main.rel, splice(main.src, dots, f'{_seg(main, dots.left)}.startswith("...")'), expect="block ends where"))
    # 8e31849 check_extensions
    f = main.func("check_extensions")
    tst = find_node(f, lambda n: isinstance(n, ast.If) and isinstance(n.test, ast.BoolOp) and isinstance(n.test.op, ast.Or) and any(isinstance(x, ast.Raise) for x in n.body) and "Iterable" in unparse(n.test))
    if tst is not None:
        excl = next((v for v in tst.test.values if isinstance(v, ast.Call) and dotted(v.func) == "isinstance"), None)
        rest = [v for v in tst.test.values if v is not excl]
        if excl is not None and rest:
            out.append(Mutant("c13-8e31849-reverted-extensions-only-tested-for-iterable", "C13.R10", main.rel, splice(main.src, tst.test, " or ".join(_seg(main, v) for v in rest)), expect="not iterated as the collection"))
            tn = sorted(_type_names(excl.args[1]) - {"dict"})
            if tn and "dict" in _type_names(excl.args[1]):
                out.append(Mutant("c13-extensions-mapping-no-longer-excluded", "C13.R10", main.rel, splice(main.src, excl.args[1], " | ".join(tn)), expect="not iterated as the collection"))
    mat = find_node(f, lambda n: isinstance(n, ast.Assign) and len(n.targets) == 1 and isinstance(n.targets[0], ast.Name) and n.targets[0].id == f.params[2] and isinstance(n.value, ast.Call) and dotted(n.value.func) == "set")
    uses = [n for n in f.local_nodes() if isinstance(n, ast.Name) and n.id == f.params[2] and isinstance(n.ctx, ast.Load) and mat is not None and n.lineno > mat.lineno and isinstance(parent(n), (ast.Attribute, ast.Call)) and not (isinstance(parent(n), ast.Call) and dotted(parent(n).func) in ("repr", "str"))]
    uses = [n for n in uses if not any(isinstance(a_, (ast.JoinedStr, ast.Raise)) for a_ in ancestors(n))]
    if mat is not None and uses:
        out.append(Mutant("c13-8e31849-reverted-extensions-iterable-read-twice", "C13.R10", main.rel, _splice_many(main.src, [(mat, "pass")] + [(u, f"set({u.id})") for u in uses]), expect="read once"))
    # 25b6484 / d5e2ee9 resolver
    mr = corpus.mod("sphinx_ext.myst_refs")
    f = mr.func("MystReferenceResolver.run")
    gr_ = next((nd for nd, nm in _global_config_reads(f) if nm == "ref_domains"), None)
    if gr_ is not None:
        base = _seg(mr, gr_.value.value)  # <x> of <x>.myst_config.ref_domains
        out.append(Mutant("c13-25b6484-reverted-resolver-falls-back-to-the-raw-conf-value", "C13.R11", mr.rel, splice(mr.src, gr_, f"{base}.config.myst_ref_domains"), expect="reads conf value"))
        top = gr_
        while isinstance(parent(top), (ast.Call, ast.Attribute)) and not isinstance(parent(top), ast.stmt):
            top = parent(top)
        if top is not gr_:
            out.append(Mutant("c13-d5e2ee9-reverted-resolver-reads-the-global-ref-domains-only", "C13.R11", mr.rel, splice(mr.src, top, _seg(mr, gr_)), expect="reads global config value"))
            out.append(Mutant("c13-resolver-prefers-the-global-ref-domains", "C13.R11", mr.rel, splice(mr.src, top, f"({_seg(mr, gr_)} or {_seg(mr, top)})"), expect="reads global config value"))
    mj = corpus.mod("sphinx_ext.mathjax")
    f = mj.func("override_mathjax")
    gu = next((nd for nd, nm in _global_config_reads(f) if nm == "update_mathjax"), None)
    if gu is not None:
        out.append(Mutant("c13-mathjax-opt-out-read-from-the-raw-conf-value", "C13.R11", mj.rel, splice(mj.src, gu, f"{_seg(mj, gu.value.value).rsplit('.', 1)[0]}.config.myst_update_mathjax"), expect="reads conf value"))
    # 45d3d4c deprecation notice on the document's config
    du = corpus.mod("parsers.docutils_")
    f = du.func("Parser.parse")
    note = find_node(f, lambda n: isinstance(n, ast.If) and _mentions_deprecated(n.body, corpus) and n in f.node.body)
    tr = find_node(f, lambda n: isinstance(n, ast.Try) and "read_topmatter" in unparse(n) and n in f.node.body)
    if note is not None and tr is not None and note.lineno > tr.lineno:
        out.append(Mutant("c13-45d3d4c-reverted-docutils-notice-decided-before-the-merge", "C13.R14", du.rel, _splice_many(du.src, [(tr, _seg(du, note) + "\n" + _indent(du, tr) + _seg(du, tr)), (note, "pass")]), expect="final config"))
    sp = corpus.mod("parsers.sphinx_")
    f = sp.func("MystParser.parse")
    note = find_node(f, lambda n: isinstance(n, ast.If) and _mentions_deprecated(n.body, corpus))
    if note is not None:
        out.append(Mutant("c13-45d3d4c-reverted-sphinx-has-no-per-document-notice", "C13.R14", sp.rel, splice(sp.src, note, "pass"), expect="final config"))
        pos = next((r for c, fl, r in _option_membership_tests(note.test) if isinstance(r, ast.Name)), None)
        if pos is not None:
            out.append(Mutant("c13-sphinx-notice-tests-the-global-config", "C13.R14", sp.rel, splice(sp.src, pos, "env.myst_config"), expect="final config"))
    # ---- round 16: the global value hoisted into a local and then used on its own (R11 b)
    mr = corpus.mod("sphinx_ext.myst_refs")
    f = mr.func("MystReferenceResolver.run")
    gr_ = next((nd for nd, nm in _global_config_reads(f) if nm == "ref_domains"), None)
    if gr_ is not None:
        top = gr_
        while isinstance(parent(top), (ast.Call, ast.Attribute)) and not isinstance(parent(top), ast.stmt):
            top = parent(top)
        st = enclosing_stmt_of(top)
        if top is not gr_ and isinstance(st, (ast.Assign, ast.AnnAssign)):
            ind = _indent(mr, st)
            out.append(Mutant("c13-resolver-uses-the-hoisted-global-ref-domains-only", "C13.R11", mr.rel, splice(mr.src, st, f"_global_domains = {_seg(mr, gr_)}\n{ind}{_seg(mr, st).replace(_seg(mr, top), '_global_domains')}"), expect="reads global config value"))
    # ---- R15: the front-matter handler narrowed below what the validators raise
    main = corpus.mod(MAIN)
    for us in update_sites(corpus):
        tr15 = _enclosing_try(us.call)
        if tr15 is None or us.U.module is not main or tr15.handlers[0].type is None:
            continue
        ht = tr15.handlers[0].type
        out.append(Mutant("c13-topmatter-handler-narrowed-to-valueerror", "C13.R15", main.rel, splice(main.src, ht, "ValueError"), expect="handler covers"))
        for f in custom_validators(corpus).values():
            vname = _value_param(f)
            if f.module is not main or vname is None:
                continue
            loop = find_node(f, lambda n: isinstance(n, ast.For) and isinstance(n.iter, ast.Call) and isinstance(n.iter.func, ast.Attribute) and isinstance(n.iter.func.value, ast.Name) and n.iter.func.value.id == vname and n in f.node.body)
            guards = [g for g in f.node.body if isinstance(g, ast.If) and loop is not None and g.lineno < loop.lineno and any(isinstance(c, ast.Call) and dotted(c.func) == "isinstance" for c in ast.walk(g.test))]
            if loop is not None and guards:
                out.append(Mutant("c13-topmatter-handler-narrowed+container-test-dropped", "C13.R15", main.rel, _splice_many(main.src, [(ht, "(TypeError, ValueError)")] + [(g, "pass") for g in guards]), expect="is reached before any type test"))
                break
        break
    # ---- R16: explicit falsy docutils settings
    du = corpus.mod("parsers.docutils_")
    f = du.func("create_myst_config")
    rd = find_node(f, lambda n: isinstance(n, ast.Call) and dotted(n.func) == "getattr" and len(n.args) == 3 and isinstance(n.args[0], ast.Name) and n.args[0].id == f.params[0])
    asg = parent(rd) if rd is not None else None
    if isinstance(asg, ast.Assign) and isinstance(asg.targets[0], ast.Name):
        vn = asg.targets[0].id
        cmp_ = find_node(f, lambda n: isinstance(n, ast.Compare) and isinstance(n.left, ast.Name) and n.left.id == vn and isinstance(parent(n), ast.If))
        if cmp_ is not None:
            truthy = vn if isinstance(cmp_.ops[0], (ast.IsNot, ast.NotEq)) else f"not {vn}"
            out.append(Mutant("c13-docutils-setting-tested-for-truthiness", "C13.R16", du.rel, splice(du.src, cmp_, truthy), expect="condition on the setting value"))
            out.append(Mutant("c13-docutils-setting-default-none+truthiness", "C13.R16", du.rel, _splice_many(du.src, [(rd.args[2], "None"), (cmp_, truthy)]), expect="condition on the setting value"))
            out.append(Mutant("c13-docutils-setting-sentinel-test-and-truthiness", "C13.R16", du.rel, splice(du.src, cmp_, f"{_seg(du, cmp_)} and bool({vn})"), expect="condition on the setting value"))
    return out
