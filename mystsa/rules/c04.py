"""C04 - nodes and warnings carry the true source line, at any nesting depth."""

from __future__ import annotations

import ast

from ..callgraph import get_callgraph
from ..corpus import (
    Corpus,
    FunctionInfo,
    ancestors,
    arg_or_kw,
    dotted,
    kwarg,
    parent,
    short,
    splice,
    unparse,
)
from ..flow import get_cfg
from ..mutant import Mutant
from ..report import Report
from .common import find_node, find_stmt, rule, unwrap_try

PROP = "C04"
READY = False
TECHNIQUE = (
    "stamping exhaustiveness over all block-node constructions (CFG paths), unit/base kinds of line arithmetic "
    "(L1 / preceding-count / offset / char-index) with a convention table for every nested-render call site, "
    "shift-once typestate of token.map, lossy join/splitlines lint, PATH-kind of .source stores, body-head/offset pairing"
)

META = {
    "explanation": (
        "R1 stamping: every construction of a block node class (paragraph, section, title, rubric, lists, list_item, block_quote, "
        "literal_block/node_cls, target, footnote, definition/field list parts, table, container, math_block) anywhere in the package is "
        "followed, on every CFG path through a use of the node to the normal exit, by a store of .line and of .source: directly, through a "
        "'stamper' (any package function that stores them on its parameter - found by fixpoint, so helpers are followed), through a "
        "`if p is not None` parameter every caller passes, or - for returned nodes - in every caller (2 levels). Constructor keywords "
        "line=/source= do not count (docutils stores them as attributes). Constructs inside a private helper with one caller are keyed "
        "under that caller. R2 kinds (L1 = 1-based line, P = lines preceding, N = count, OFF = docutils content offset, CH = character "
        "index; parameters resolved through package call sites, docutils-supplied ones tabled): (a) CH never meets a line value in +/-/+= "
        "or reaches a line sink; (b) every call site of nested_render_text / run_directive (forwarding helpers looked through) and the "
        "eval-rst newline padding is in a convention table (text starts AFTER the anchor line / ON it / at the START of a file) and its "
        "line argument, normalised to kinded terms + constant, has the constant the convention needs; AFTER sites inside a function that "
        "receives a content offset must add it; (c) a .line / get_source_and_line / line= sink never gets L1+OFF without +1; (d) in a "
        "function that receives a content offset, a line built from the directive line plus an index or constant includes that offset. "
        "R3 shift-once: token.map is written only by _render_tokens and nested_render_text or a private helper only they call; each "
        "shift moves both ends by the same amount (list, comprehension, any operand order), is guarded by the token's map only and its "
        "loop (or helper call) completes exactly once before the list is handed on; the TOTAL shift along each entry path, computed as a "
        "linear form with parameters substituted through the calls (keyword arguments and defaults included), is 1 from render() and "
        "lineno + 1 from nested_render_text() however the two passes are split or merged; the rendered list is freshly parsed, "
        "_render_tokens has exactly its two callers, and token content gets no extra leading lines. R4: no +/- of two line counts where one string went through "
        "'\\n'.join -> splitlines (body_offset and package-wide). R5 source path: every store to .source / ['source'] and every warning "
        "location (Sphinx location=(source, line), source= of system messages) is path-kind and reads the swappable document path (a copy "
        "cached on the renderer only if the include mock swaps it too; a docname is not a path); the include mock - in run() or in a "
        "@contextmanager used around the nested render - swaps document['source'], reporter.source and get_source_and_line to str(path read) "
        "and restores each in finally from a value saved before the try (tuple assignments split). R6: in the function building "
        "DirectiveParsingResult (and tuple-returning helpers) each removal of k leading body lines has `offset += k` in the same block and "
        "putting the directive-line text in front sets the offset to -1. R7: at START-convention sites every cut from the head of the text "
        "(lines slice, character prefix) is carried additively in the line argument and no plain re-assignment between a cut and the call "
        "forgets it; stripping leading blank lines from that text is an uncounted cut. R2 also checks, at every judged convention site, that "
        "the text argument keeps its head (no strip()/lstrip() of newlines, no front slice) while the line argument is unchanged. "
        "Character/partition cuts must count the whole cut prefix (text before the marker AND the marker). "
        "R9: the directive-line anchor attributes of the mock classes (those __init__ fills from an L1 parameter: _lineno, lineno) are "
        "written only in __init__, on an object constructed in the same function, or under a save-before-try / restore-in-finally pair - "
        "run_directive is re-entrant, so re-positioning a shared state object corrupts the enclosing directive's later lines. "
        "R9 also requires document.current_line (docutils' fallback line for nodes a directive leaves unstamped) to be set again after "
        "every call in the storing function that can re-enter it (nested directives), and every READ of it after such a call to come "
        "after that re-establishing store; R11 requires the fallback line stamped on a directive's output to be L1-kinded (the directive's "
        "own line) or that freshly re-established current_line. R10: the directive body / its offset, the option "
        "parser's remaining content and the included text are split with '\\n' semantics, not str.splitlines (which also splits on "
        "form feed, U+2028 ...), because markdown-it's token maps count '\\n' only. "
        "R2 further: (e) the content_offset keyword of a directive instantiation must be absolute (contain an L1/P anchor) - an "
        "OFF-only value is relative to the directive (known finding); a call site tabled SYNTHETIC (html_to_nodes) may hand "
        "run_directive made-up option lines, but not made-up lines glued to body text (known finding for html_admonition). "
        "R5 also rejects a tuple as Sphinx logging location (read as (docname, line): a path gets a second suffix, a docname ignores the "
        "include swap); the location must be a node whose .source store is judged. "
        "R11: the nodes returned by `directive_instance.run()` get .line and .source (if unset) on every normal path before run_directive "
        "returns them, and every nested rST parse on the shared reporter (a docutils RSTParser subclass's parse()) sits in a try whose "
        "finally deletes/restores reporter.get_source_and_line. "
        "R7 also requires a slice bound taken from an int option (start-line) to be normalised before it is used as the number of skipped "
        "lines: slice(start, stop).indices(len(lines))[0], or a `< 0` guard adding the number of lines. R11(b) in full: an existing "
        "reporter.get_source_and_line is set aside before the rST parse (docutils installs its own only when there is none), the rST one "
        "is removed unconditionally in finally and the saved one put back. R12: records with a raw, text-relative map that markdown-it "
        "leaves in the shared env (duplicate_refs) are reported inside nested_render_text at map + lineno + 1, only those added by this "
        "parse (slice from the length taken before it), and deleted right after; only then may the end-of-document report use map + 1. "
        "R1's class set includes comment nodes. "
        "R2 (f): a function that receives a block of lines with its content offset (table BLOCK_PARAMS: nested_parse, block_quote, "
        "parse_directive_block) hands (a slice of) that block on with an offset that still contains its own offset, plus the number of "
        "lines cut off the head of the block. R2 also checks inside nested_render_text that what markdown-it parses is the text "
        "parameter with its head intact (a trailing line break may be added). "
        "Shapes also understood: `start, stop, _ = slice(a, b).indices(n)` (read as start = <call>[0]); the cut in the definition of the "
        "lines local the text is joined from (the normalising length must then be that of the WHOLE file's lines); the rST set-aside "
        "bracket in a @contextmanager; a copy of the rest of a block whose head is popped before it is handed on (must be counted). "
        "R8: a value returned by a package function that was given a line (L1/P kind) is not stored in a mapping that outlives the call "
        "(module global, attribute, document/env) under a key that omits that line - a replay would carry the first occurrence's lines. "
        "R13 one offset contract: the content_offset every directive is instantiated with (constant offsets of whole included files aside) "
        "is either relative to the directive line or absolute (contains an L1/P anchor), all instantiations alike; in every mock-state "
        "callback that receives such an offset (EXTERNAL_PARAMS kind OFF: nested_parse, block_quote, parse_directive_block) each line "
        "built additively from the received offset (.line / get_source_and_line / line= / 1-based line arguments / the line argument of "
        "nested_render_text) adds the directive line exactly when the producer did not: anchors(producer) + anchors(consumer) == 1, so "
        "switching the contract in the producer and only some of the consumers is caught at the consumers left behind."
    ),
    "not_decided": (
        "the numeric truth of each line for all nestings (only unit/base/convention/pairing consistency); whether the token a node is "
        "stamped from carries a map and is the right one when several are in scope (e.g. td tokens have no map); line constants such as "
        "literal_block.line = 1 in the include mock; nodes created by third-party directives; front-matter pseudo nodes (outside the "
        "quantifier); third-party state such as a reporter.get_source_and_line left behind by an earlier rST parse beyond the three swapped "
        "locations; runtime values of option offsets; what third-party directives do with the offsets they are handed"
    ),
    "trusted_base": [
        "CPython ast",
        "mystsa call graph (receiver typing for self.* calls) and CFG",
        "tables in the module: BLOCK_CLASSES, NRT_CONVENTION (ON/AFTER/START per call site), EXTERNAL_PARAMS (docutils callback contract: lineno is the 1-based line the text is ON, content_offset counts from the line after the directive line), R1_OUT_OF_SCOPE, ATTACH_ONLY, EXTERNAL_STAMPERS",
        "docutils Element constructors store line=/source= keywords as attributes, not as node.line/node.source",
    ],
    "assumptions": [
        "markdown-it sets token.map = [first, last+1) 0-based on block tokens and returns fresh Token objects from parse()/parseInline()",
        "docutils Node.setup_child fills an unset node.line with document.current_line (so 'unstamped' means stale, not None)",
        "Sphinx maps a (docname, line) logging location to the path of the document being read, not to an included file",
        "flow-insensitive kinds: a local name is not reused for a character index and a line count",
    ],
}

R1, R2, R3, R4, R5, R6, R7, R8, R9, R10, R11, R12 = "C04.R1", "C04.R2", "C04.R3", "C04.R4", "C04.R5", "C04.R6", "C04.R7", "C04.R8", "C04.R9", "C04.R10", "C04.R11", "C04.R12"
R13 = "C04.R13"


# ---------------------------------------------------------------------------
# small shared helpers


def _funcs(corpus: Corpus) -> list[FunctionInfo]:
    return [f for f in corpus.all_functions() if not f.is_lambda and not f.module.name.endswith("._docs")]


def _real_callers(corpus: Corpus, target: FunctionInfo) -> list[tuple[FunctionInfo, ast.Call]]:
    """Call sites that name the target (special/dynamic edges of the call graph are left out)."""
    g = get_callgraph(corpus)
    out = []
    for fi, call in g.callers().get(target.fq, []):
        f = call.func
        nm = f.attr if isinstance(f, ast.Attribute) else (f.id if isinstance(f, ast.Name) else None)
        if nm == target.name or (target.name == "__init__" and target.cls is not None and nm == target.cls.name):
            out.append((fi, call))
    return out


def _key_owner(corpus: Corpus, fi: FunctionInfo) -> FunctionInfo:
    """Function a construct is keyed under: a private helper with a single calling function is keyed under
    that caller (transitively), so that extracting a block into ``_helper()`` keeps the construct's identity."""
    cur = fi
    for _ in range(3):
        if not cur.name.startswith("_") or cur.name.startswith("__"):
            break
        callers = {c.fq: c for c, _call in _real_callers(corpus, cur) if c.fq != cur.fq}
        if len(callers) != 1:
            break
        cur = next(iter(callers.values()))
    return cur


def _shift(target: FunctionInfo) -> int:
    return 1 if (target.cls is not None and target.params and target.params[0] in ("self", "cls")) else 0


def _arg_for(call: ast.Call, target: FunctionInfo, pname: str) -> ast.expr | None:
    for kw in call.keywords:
        if kw.arg == pname:
            return kw.value
    if pname not in target.params:
        return None
    idx = target.params.index(pname) - _shift(target)
    a = target.node.args
    kwonly = {x.arg for x in a.kwonlyargs}
    if pname in kwonly or idx < 0:
        return None
    if idx < len(call.args) and not any(isinstance(x, ast.Starred) for x in call.args[: idx + 1]):
        return call.args[idx]
    return None


def _param_default(fi: FunctionInfo, pname: str) -> ast.expr | None:
    a = fi.node.args
    pos = a.posonlyargs + a.args
    for i, x in enumerate(pos):
        if x.arg == pname:
            j = i - (len(pos) - len(a.defaults))
            return a.defaults[j] if j >= 0 else None
    for x, d in zip(a.kwonlyargs, a.kw_defaults):
        if x.arg == pname:
            return d
    return None


def _owner_of_param(fi: FunctionInfo, name: str) -> FunctionInfo | None:
    f = fi
    while f is not None:
        if name in f.params:
            return f
        f = f.parent_func
    return None


def _store_targets(n: ast.AST):
    """Attribute/Subscript store targets of an assignment statement (tuple targets flattened)."""
    tg: list[ast.expr] = []
    if isinstance(n, ast.Assign):
        tg = list(n.targets)
    elif isinstance(n, (ast.AugAssign, ast.AnnAssign)):
        tg = [n.target]
    while tg:
        t = tg.pop()
        if isinstance(t, (ast.Tuple, ast.List)):
            tg.extend(t.elts)
        elif isinstance(t, (ast.Attribute, ast.Subscript)):
            yield t


def _defs(fi: FunctionInfo, name: str) -> list[tuple[ast.stmt, ast.expr | None, str]]:
    """(stmt, value, how) for every binding of a local name; how = assign | aug | loop | other."""
    out = []
    for n in fi.local_nodes():
        if isinstance(n, ast.Assign):
            for t in n.targets:
                if isinstance(t, ast.Name) and t.id == name:
                    out.append((n, n.value, "assign"))
                elif isinstance(t, (ast.Tuple, ast.List)) and any(isinstance(e, ast.Name) and e.id == name for e in t.elts):
                    if isinstance(n.value, (ast.Tuple, ast.List)) and len(n.value.elts) == len(t.elts) and not any(isinstance(e, ast.Starred) for e in list(t.elts) + list(n.value.elts)):
                        for te, ve in zip(t.elts, n.value.elts):  # a, b = x, y
                            if isinstance(te, ast.Name) and te.id == name:
                                out.append((n, ve, "assign"))
                    elif isinstance(n.value, ast.Call) and isinstance(n.value.func, ast.Attribute) and n.value.func.attr == "indices" and not any(isinstance(e, ast.Starred) for e in t.elts):
                        for i_, te in enumerate(t.elts):  # start, stop, step = slice(a, b).indices(n)
                            if isinstance(te, ast.Name) and te.id == name:
                                sub_ = ast.copy_location(ast.Subscript(value=n.value, slice=ast.copy_location(ast.Constant(value=i_), n.value), ctx=ast.Load()), n.value)
                                out.append((n, sub_, "assign"))
                    else:
                        out.append((n, None, "other"))
        elif isinstance(n, ast.AnnAssign) and isinstance(n.target, ast.Name) and n.target.id == name and n.value is not None:
            out.append((n, n.value, "assign"))
        elif isinstance(n, ast.AugAssign) and isinstance(n.target, ast.Name) and n.target.id == name:
            out.append((n, n.value, "aug"))
        elif isinstance(n, (ast.For, ast.comprehension)):
            if any(isinstance(e, ast.Name) and e.id == name for e in ast.walk(n.target)):
                out.append((n if isinstance(n, ast.stmt) else None, None, "loop"))
        elif isinstance(n, ast.NamedExpr) and n.target.id == name:
            out.append((None, n.value, "assign"))
        elif isinstance(n, ast.withitem) and n.optional_vars is not None and any(isinstance(e, ast.Name) and e.id == name for e in ast.walk(n.optional_vars)):
            out.append((None, None, "other"))
    out.sort(key=lambda d: getattr(d[0], "lineno", 0) if d[0] is not None else 0)
    return out


# ---------------------------------------------------------------------------
# R1 stamping exhaustiveness

BLOCK_CLASSES = {
    "paragraph", "section", "title", "rubric", "bullet_list", "enumerated_list", "list_item", "block_quote",
    "literal_block", "target", "footnote", "definition_list", "definition_list_item", "term", "definition",
    "field_list", "field", "field_name", "field_body", "table", "container", "math_block", "comment",
}  # fmt: skip

# functions whose unstamped constructions are evidence only, with the reason; shape re-verified on every run
R1_OUT_OF_SCOPE = {
    "myst_parser.mdit_to_docutils.base:DocutilsRenderer.dict_to_fm_field_list": (
        "front-matter pseudo field list (consumed by docutils' DocInfo transform): outside the property's quantifier "
        "(nested body blocks); the YAML position of a key is not tracked"
    ),
}
# docutils methods that stamp their argument
EXTERNAL_STAMPERS = {"set_source_info": "docutils Directive.set_source_info: node.source, node.line = get_source_and_line(self.lineno)"}
# consumers that attach/register a node without touching line/source (docutils / builtin containers)
ATTACH_ONLY = {
    "append", "extend", "insert", "note_explicit_target", "note_implicit_target", "note_footnote", "note_autofootnote",
    "note_footnote_ref", "note_autofootnote_ref", "note_refname", "note_pending", "note_substitution_def", "set_id",
    "note_citation", "note_equation", "isinstance", "len", "clean_astext", "get_equation_number_for",
}  # fmt: skip
REPORTER_LEVELS = {"debug", "info", "warning", "error", "severe", "system_message"}


def _is_reporter_call(call: ast.AST) -> bool:
    return isinstance(call, ast.Call) and isinstance(call.func, ast.Attribute) and call.func.attr in REPORTER_LEVELS and "reporter" in unparse(call.func.value)


def _node_class(call: ast.Call, fi: FunctionInfo) -> str | None:
    """docutils node class name constructed by ``call`` (follows a ``node_cls=nodes.X`` parameter default)."""
    d = dotted(call.func)
    if d is None:
        return None
    full = fi.module.resolve(d)
    if full.startswith("docutils.nodes."):
        return full.rsplit(".", 1)[1]
    if isinstance(call.func, ast.Name):
        owner = _owner_of_param(fi, call.func.id)
        if owner is not None:
            dflt = _param_default(owner, call.func.id)
            dd = dotted(dflt) if dflt is not None else None
            if dd and owner.module.resolve(dd).startswith("docutils.nodes."):
                return owner.module.resolve(dd).rsplit(".", 1)[1]
    return None


def _stampers(corpus: Corpus) -> dict[str, dict[str, set[str]]]:
    """fq -> {param (or '*param' for 'every element of'): attrs of it the function stores among line/source}."""

    def build():
        g = get_callgraph(corpus)
        st: dict[str, dict[str, set[str]]] = {}
        loopvars: dict[str, dict[str, str]] = {}
        fs = _funcs(corpus)
        for f in fs:
            lv = {}
            for n in f.local_nodes():
                if isinstance(n, ast.For) and isinstance(n.target, ast.Name) and isinstance(n.iter, ast.Name) and n.iter.id in f.params:
                    lv[n.target.id] = n.iter.id
            loopvars[f.fq] = lv
            d: dict[str, set[str]] = {}
            for n in f.local_nodes():
                for t in _store_targets(n):
                    if isinstance(t, ast.Attribute) and t.attr in ("line", "source") and isinstance(t.value, ast.Name):
                        nm = t.value.id
                        if nm in f.params:
                            d.setdefault(nm, set()).add(t.attr)
                        elif nm in lv:
                            d.setdefault("*" + lv[nm], set()).add(t.attr)
            st[f.fq] = d
        changed = True
        rounds = 0
        while changed and rounds < 6:
            changed = False
            rounds += 1
            for f in fs:
                for call, targets in g.callees(f):
                    for t in targets:
                        if not isinstance(t, FunctionInfo):
                            continue
                        td = st.get(t.fq)
                        if not td:
                            continue
                        for pname, attrs in list(td.items()):
                            if pname.startswith("*"):
                                continue
                            arg = _arg_for(call, t, pname)
                            if not isinstance(arg, ast.Name):
                                continue
                            key = arg.id if arg.id in f.params else ("*" + loopvars[f.fq][arg.id] if arg.id in loopvars[f.fq] else None)
                            if key is None:
                                continue
                            cur = st[f.fq].setdefault(key, set())
                            if not attrs <= cur:
                                cur |= attrs
                                changed = True
        return st

    return corpus.cache("c04-stampers", build)


class _Binding:
    """How one variable holding a freshly constructed node is stamped inside one function."""

    def __init__(self, corpus: Corpus, fi: FunctionInfo, var: str):
        self.corpus, self.fi, self.var = corpus, fi, var
        self.cfg = get_cfg(fi)
        self.events: dict[str, set] = {"line": set(), "source": set()}
        self.param_guard: dict[str, set[str]] = {"line": set(), "source": set()}
        self.unknown_consumers: list[str] = []
        self.returned = False
        self.payload_only = True
        self._scan()

    def _add_event(self, attr: str, node: ast.AST, value: ast.expr | None = None) -> None:
        st = self.cfg.stmt_of(node)
        self.events[attr].add(st)
        # `if <param> is not None: node.attr = <param>`: the obligation moves to the callers
        p = parent(st)
        if isinstance(p, ast.If) and st in p.body and len(p.body) == 1 and not p.orelse and isinstance(value, ast.Name):
            t = p.test
            if (
                isinstance(t, ast.Compare)
                and len(t.ops) == 1
                and isinstance(t.ops[0], ast.IsNot)
                and isinstance(t.left, ast.Name)
                and t.left.id == value.id
                and isinstance(t.comparators[0], ast.Constant)
                and t.comparators[0].value is None
                and value.id in self.fi.params
            ):
                self.events[attr].add(("F", p))
                self.param_guard[attr].add(value.id)

    def _scan(self) -> None:
        fi, var = self.fi, self.var
        g = get_callgraph(self.corpus)
        st = _stampers(self.corpus)
        for n in fi.local_nodes():
            # direct stores
            if isinstance(n, (ast.Assign, ast.AugAssign, ast.AnnAssign)):
                for t in _store_targets(n):
                    if isinstance(t, ast.Attribute) and t.attr in ("line", "source") and isinstance(t.value, ast.Name) and t.value.id == var:
                        self._add_event(t.attr, n, getattr(n, "value", None))
            if isinstance(n, ast.Return) and n.value is not None:
                if any(isinstance(x, ast.Name) and x.id == var for x in ast.walk(n.value)):
                    self.returned = True
            if not isinstance(n, ast.Call):
                continue
            # var handed to a call
            hits = []
            for i, a in enumerate(n.args):
                if isinstance(a, ast.Name) and a.id == var:
                    hits.append((i, None, False))
                elif isinstance(a, (ast.List, ast.Tuple)) and any(isinstance(e, ast.Name) and e.id == var for e in a.elts):
                    hits.append((i, None, True))
            for kw in n.keywords:
                if isinstance(kw.value, ast.Name) and kw.value.id == var:
                    hits.append((None, kw.arg, False))
            if not hits:
                continue
            if not _is_reporter_call(n):
                self.payload_only = False
            targets = g.resolve_call(n, fi)
            fis = [t for t in targets if isinstance(t, FunctionInfo)]
            fname = n.func.attr if isinstance(n.func, ast.Attribute) else (n.func.id if isinstance(n.func, ast.Name) else "?")
            if fis:
                per_target = []
                for t in fis:
                    attrs: set[str] = set()
                    for idx, kwname, is_list in hits:
                        pname = kwname
                        if pname is None:
                            j = idx + _shift(t)
                            a_ = t.node.args
                            pos = [x.arg for x in a_.posonlyargs + a_.args]
                            pname = pos[j] if j < len(pos) else None
                        if pname is None:
                            continue
                        d = st.get(t.fq, {})
                        attrs |= d.get(("*" + pname) if is_list else pname, set())
                    per_target.append(attrs)
                common = set.intersection(*per_target) if per_target else set()
                for a in common:
                    self._add_event(a, n)
            elif fname in EXTERNAL_STAMPERS:
                for a in ("line", "source"):
                    self._add_event(a, n)
            elif fname not in ATTACH_ONLY and not _is_reporter_call(n) and not (self.fi.module.resolve(dotted(n.func) or "").startswith("docutils.nodes.")):
                if all(not isinstance(t, FunctionInfo) for t in targets) and any(type(t).__name__ == "Unresolved" for t in targets):
                    self.unknown_consumers.append(short(n, 60))
        # other loads of the variable that are not reporter payloads
        for n in fi.local_nodes():
            if isinstance(n, ast.Name) and n.id == var and isinstance(n.ctx, ast.Load):
                p = parent(n)
                if isinstance(p, ast.Call) and _is_reporter_call(p):
                    continue
                if isinstance(p, ast.AugAssign) and p.value is n and isinstance(p.target, ast.Name) and _is_sysmsg_var(fi, p.target.id):
                    continue
                self.payload_only = False

    def missing(self, ctor_stmt: ast.stmt) -> list[str]:
        """Attributes for which some path ctor -> (a use of the node) -> EXIT stores nothing."""
        out = []
        uses = set()
        for n in self.fi.local_nodes():
            if isinstance(n, ast.Name) and n.id == self.var and isinstance(n.ctx, ast.Load):
                uses.add(self.cfg.stmt_of(n))
        for a in ("line", "source"):
            ev = self.events[a]
            avoid = lambda n, ev=ev: n in ev  # noqa: E731
            for u in uses:
                if u in ev:
                    continue
                if (u is ctor_stmt or self.cfg.paths_avoiding(ctor_stmt, u, avoid)) and self.cfg.paths_avoiding(u, "EXIT", avoid):
                    out.append(a)
                    break
        return out


def _is_sysmsg_var(fi: FunctionInfo, name: str) -> bool:
    ds = [v for _, v, how in _defs(fi, name) if how == "assign"]
    return bool(ds) and all(_is_reporter_call(v) for v in ds)


def _check_bound(corpus: Corpus, fi: FunctionInfo, stmt: ast.stmt, var: str, need=("line", "source"), depth: int = 0) -> tuple[str, str, str]:
    """-> (verdict, detail, site) with verdict ok | violation | unknown | payload."""
    b = _Binding(corpus, fi, var)
    site = fi.module.site(stmt)
    notes = []
    guarded = {a for a in need if b.param_guard[a]}
    miss = [a for a in b.missing(stmt) if a in need]
    # `if <param> is not None: node.attr = <param>`: the callers must pass the parameter
    need_params = {p for a in guarded for p in b.param_guard[a]}
    if need_params and b.returned:
        callers = _real_callers(corpus, fi)
        for cfi, ccall in callers:
            for p in sorted(need_params):
                arg = _arg_for(ccall, fi, p)
                if arg is None or (isinstance(arg, ast.Constant) and arg.value is None):
                    return ("violation", f"{cfi.qualname} calls {fi.name}() without `{p}=`, so the returned node keeps no .{p}", cfi.module.site(ccall))
        notes.append(f"callers pass {sorted(need_params)} ({len(callers)} call site(s))")
    elif need_params:
        miss = sorted(set(miss) | guarded)
    if not miss:
        return ("ok", "; ".join(notes) or "line and source stored on every path to the exit", site)
    if b.payload_only:
        return ("payload", "only used as the quoted-source payload of a system message", site)
    what = " and ".join("." + a for a in miss)
    if b.returned and depth < 2:
        callers = _real_callers(corpus, fi)
        if callers:
            for cfi, ccall in callers:
                p = parent(ccall)
                if isinstance(p, ast.Assign) and len(p.targets) == 1 and isinstance(p.targets[0], ast.Name):
                    v, d, _s = _check_bound(corpus, cfi, get_cfg(cfi).stmt_of(ccall), p.targets[0].id, tuple(miss), depth + 1)
                    if v == "unknown":
                        return (v, d, site)
                    if v != "ok":
                        return ("violation", f"{what} never stored: not in {fi.qualname}, and not on the value it returns to {cfi.qualname} either", site)
                else:
                    return ("violation", f"{what} never stored in {fi.qualname}; the caller {cfi.qualname} does not keep the returned node in a variable to stamp it", site)
            return ("ok", f"{what} stored by every caller ({len(callers)})", site)
    if b.unknown_consumers:
        return ("unknown", f"`{var}` is handed to {b.unknown_consumers[0]} which the analysis cannot resolve", site)
    hint = ""
    twice = _stamped_twice(fi)
    if twice:
        hint = f" (`{twice}` is stamped twice in this function - copy/paste slip?)"
    return ("violation", f"{what} never stored on some path before {fi.qualname} returns{hint}", site)


def _stamped_twice(fi: FunctionInfo) -> str | None:
    seen: dict[str, int] = {}
    for n in fi.local_nodes():
        if isinstance(n, ast.Call) and isinstance(n.func, ast.Attribute) and n.func.attr.startswith("add_line_and_source_path") and n.args and isinstance(n.args[0], ast.Name):
            seen[n.args[0].id] = seen.get(n.args[0].id, 0) + 1
    for v, c in seen.items():
        ctors = [1 for _, val, how in _defs(fi, v) if how == "assign"]
        if c > max(1, len(ctors)):
            return v
    return None


@rule(R1)
def r1_stamping(corpus: Corpus, rep: Report, tier: str):
    rep.rule(R1, "every constructed block node (paragraph, title, list, quote, code block, target, field, table cell paragraph ...) gets .line and .source on every path")
    g = get_callgraph(corpus)
    st = _stampers(corpus)
    # the canonical stamper keeps its shape
    alsp = corpus.func("mdit_to_docutils.base:DocutilsRenderer.add_line_and_source_path")
    first = alsp.params[1] if len(alsp.params) > 1 else None
    got = st.get(alsp.fq, {}).get(first or "", set())
    k = f"{alsp.fq}|stores .line and .source on its node parameter"
    line_from_token = any(
        isinstance(n, ast.Assign) and any(isinstance(t, ast.Attribute) and t.attr == "line" for t in n.targets) and isinstance(n.value, ast.Call) and (dotted(n.value.func) or "").endswith("token_line") and len(alsp.params) > 2 and n.value.args and unparse(n.value.args[0]) == alsp.params[2]
        for n in alsp.local_nodes()
    )
    if got >= {"line", "source"} and line_from_token:
        rep.ok(R1, k, alsp.site(), "line = token_line(<token parameter>), source = document path")
    else:
        rep.violation(R1, k, alsp.site(), f"add_line_and_source_path no longer stores both .line (from token_line of its token) and .source on its node parameter (stores: {sorted(got)})")
    seen_keys: dict[str, int] = {}
    for fi in _funcs(corpus):
        ctor_calls = [n for n in fi.local_nodes() if isinstance(n, ast.Call)]
        ctor_calls.sort(key=lambda c: (c.lineno, c.col_offset))
        for call in ctor_calls:
            cls = _node_class(call, fi)
            if cls not in BLOCK_CLASSES:
                continue
            rep.saw_function(fi.fq)
            p = parent(call)
            top = call
            while isinstance(p, ast.IfExp) and top is not p.test:  # x = nodes.A() if c else nodes.B()
                top, p = p, parent(p)
            var = p.targets[0].id if isinstance(p, ast.Assign) and len(p.targets) == 1 and isinstance(p.targets[0], ast.Name) and p.value is top else None
            base = f"{_key_owner(corpus, fi).fq}|{var or 'inline'} = nodes.{cls}"
            seen_keys[base] = seen_keys.get(base, 0) + 1
            k = base if seen_keys[base] == 1 else f"{base}#{seen_keys[base]}"
            site = fi.module.site(call)
            oos = R1_OUT_OF_SCOPE.get(fi.fq)
            if var is not None:
                verdict, detail, vsite = _check_bound(corpus, fi, get_cfg(fi).stmt_of(call), var)
            else:
                verdict, detail, vsite = _check_inline(corpus, fi, call, st, g)
            if verdict == "ok":
                rep.ok(R1, k, site, detail)
            elif verdict == "payload":
                rep.listed(R1, k, site, detail)
            elif oos is not None:
                rep.listed(R1, k, site, f"not judged: {oos} ({detail})")
            elif verdict == "unknown":
                rep.error(R1, f"{site} {k}: {detail}")
            else:
                rep.violation(R1, k, vsite, f"nodes.{cls} built in {fi.qualname}: {detail}; an unstamped node inherits docutils' document.current_line (0 or the line of the last directive run)")
    # out-of-scope entries stay honest: the function must only be reachable from the front-matter handler
    for fq in R1_OUT_OF_SCOPE:
        f = corpus.func(fq.replace("myst_parser.", "", 1))
        callers = {c.qualname for c, _ in _real_callers(corpus, f)}
        if callers - {"DocutilsRenderer.render_front_matter"}:
            rep.error(R1, f"{fq} is tabled as front-matter only but is also called from {sorted(callers)}")
    rep.expect_min(R1, 30, "block-node constructions in base.py/sphinx_.py/mocking.py (41 judged on the pinned tree)")


def _check_inline(corpus: Corpus, fi: FunctionInfo, call: ast.Call, st, g) -> tuple[str, str, str]:
    p = parent(call)
    site = fi.module.site(call)
    if isinstance(p, ast.Call) and _is_reporter_call(p):
        return ("payload", "quoted-source payload of a system message", site)
    if isinstance(p, ast.AugAssign) and p.value is call and isinstance(p.target, ast.Name) and _is_sysmsg_var(fi, p.target.id):
        return ("payload", "quoted-source payload of a system message", site)
    if isinstance(p, ast.keyword):
        p = parent(p)
    if isinstance(p, ast.Call) and p is not call:
        targets = [t for t in g.resolve_call(p, fi) if isinstance(t, FunctionInfo)]
        if targets:
            ok = True
            for t in targets:
                pname = None
                for kw in p.keywords:
                    if kw.value is call:
                        pname = kw.arg
                if pname is None and call in p.args:
                    j = p.args.index(call) + _shift(t)
                    a_ = t.node.args
                    pos = [x.arg for x in a_.posonlyargs + a_.args]
                    pname = pos[j] if j < len(pos) else None
                if not (pname and st.get(t.fq, {}).get(pname, set()) >= {"line", "source"}):
                    ok = False
            if ok:
                return ("ok", f"handed straight to the stamper {targets[0].name}()", site)
    if isinstance(p, ast.Return):
        return ("unknown", "node is constructed in a return statement; callers are not followed for this idiom", site)
    return ("violation", "the node is used in place (never bound to a name), so nothing stores .line/.source on it", site)


# ---------------------------------------------------------------------------
# R2 unit/base kinds of line arithmetic

L1, PK, NK, OFF, CH = "L1", "P", "N", "OFF", "CH"
LINE = {L1, PK, NK, OFF}

# parameters whose value is supplied by docutils (callback contract), one reason each
EXTERNAL_PARAMS: dict[tuple[str, str], tuple[str, str]] = {
    ("myst_parser.mocking:MockInliner.parse", "lineno"): (L1, "docutils RSTState.inline_text(text, lineno): the 1-based line the text is ON"),
    ("myst_parser.mocking:MockState.inline_text", "lineno"): (L1, "docutils directives call state.inline_text(text, self.lineno): 1-based line the text is ON"),
    ("myst_parser.mocking:MockState.nested_parse", "input_offset"): (OFF, "directives pass self.content_offset: lines between the line after the directive line and the block"),
    ("myst_parser.mocking:MockState.block_quote", "line_offset"): (OFF, "directives pass self.content_offset"),
    ("myst_parser.mocking:MockState.parse_directive_block", "line_offset"): (OFF, "docutils passes a content offset"),
    ("myst_parser.mocking:MockState.parse_target", "lineno"): (L1, "docutils passes a 1-based line"),
    ("myst_parser.mocking:MockStateMachine.get_source_and_line", "lineno"): (L1, "docutils passes a 1-based line"),
}
# functions that receive a block of lines together with the content offset of its first line (docutils callback contract)
BLOCK_PARAMS: dict[str, tuple[str, str]] = {
    "myst_parser.mocking:MockState.nested_parse": ("block", "input_offset"),
    "myst_parser.mocking:MockState.block_quote": ("lines", "line_offset"),
    "myst_parser.mocking:MockState.parse_directive_block": ("content", "line_offset"),
}
LINE_OPTIONS = {"start-line": NK, "end-line": NK}  # include options: number of lines skipped / kept
ATTR_KINDS = {"line": L1, "lineno": L1, "body_offset": OFF, "content_offset": OFF}
STR_CALLS = {"join", "read_text", "render", "strip", "lstrip", "rstrip", "dedent", "lower", "upper", "replace", "format", "dumps"}


class _Unknown(Exception):
    pass


class Kinds:
    def __init__(self, corpus: Corpus):
        self.c = corpus
        self.g = get_callgraph(corpus)
        self._pmemo: dict[tuple[str, str], frozenset] = {}
        self._busy: set = set()
        self._cuts = 0  # recursion cuts so far: a result computed across a cut is not memoised

    # -- strings / line lists ---------------------------------------------------
    def is_str(self, e: ast.expr, fi: FunctionInfo, depth: int = 0) -> bool:
        if depth > 4:
            return False
        if isinstance(e, ast.Constant):
            return isinstance(e.value, str)
        if isinstance(e, ast.JoinedStr):
            return True
        if isinstance(e, ast.Call):
            if isinstance(e.func, ast.Attribute) and e.func.attr in STR_CALLS:
                return True
            return dotted(e.func) in ("str", "dedent", "repr")
        if isinstance(e, ast.Attribute):
            return e.attr in ("content", "info", "markup", "rawsource")
        if isinstance(e, ast.BinOp) and isinstance(e.op, ast.Add):
            return self.is_str(e.left, fi, depth + 1) or self.is_str(e.right, fi, depth + 1)
        if isinstance(e, ast.Subscript) and isinstance(e.slice, ast.Slice):
            return self.is_str(e.value, fi, depth + 1)
        if isinstance(e, ast.Name):
            owner = _owner_of_param(fi, e.id)
            if owner is not None:
                for a in owner.node.args.posonlyargs + owner.node.args.args + owner.node.args.kwonlyargs:
                    if a.arg == e.id and a.annotation is not None and unparse(a.annotation).strip("'\"") == "str":
                        return True
            ds = [v for _, v, how in _defs(fi, e.id) if how == "assign" and v is not None]
            if ds and any(self.is_str(v, fi, depth + 1) for v in ds if not (isinstance(v, ast.Name) and v.id == e.id)):
                return True
            # used as the needle/haystack of str.find
            for n in fi.local_nodes():
                if isinstance(n, ast.Call) and isinstance(n.func, ast.Attribute) and n.func.attr in ("find", "rfind", "startswith", "endswith"):
                    if any(isinstance(a, ast.Name) and a.id == e.id for a in n.args) or (isinstance(n.func.value, ast.Name) and n.func.value.id == e.id):
                        return True
        return False

    def is_lines(self, e: ast.expr, fi: FunctionInfo, depth: int = 0) -> bool:
        if depth > 4:
            return False
        if isinstance(e, ast.Call) and isinstance(e.func, ast.Attribute):
            if e.func.attr == "splitlines":
                return True
            if e.func.attr == "split" and e.args and isinstance(e.args[0], ast.Constant) and e.args[0].value == "\n":
                return True
        if isinstance(e, ast.Call) and self.line_splitter_arg(e, fi) is not None:
            return True
        if isinstance(e, ast.Subscript) and isinstance(e.slice, ast.Slice):
            return self.is_lines(e.value, fi, depth + 1)
        if isinstance(e, ast.Name):
            ds = [v for _, v, how in _defs(fi, e.id) if how == "assign" and v is not None]
            return bool(ds) and any(self.is_lines(v, fi, depth + 1) for v in ds)
        return False

    def line_splitter_arg(self, call: ast.Call, fi: FunctionInfo) -> ast.expr | None:
        """``split_lines(text)``: a one-argument package function that returns the lines of its argument -> that argument."""
        if len(call.args) != 1 or call.keywords or isinstance(call.func, ast.Attribute) and call.func.attr in ("splitlines", "split", "join"):
            return None
        for t in self.g.resolve_call(call, fi):
            if isinstance(t, FunctionInfo) and not t.is_lambda and len([p_ for p_ in t.params if p_ not in ("self", "cls")]) == 1:
                rets = [r.value for r in t.local_nodes() if isinstance(r, ast.Return) and r.value is not None]
                if rets and all(self.is_lines(r, t, 2) for r in rets):
                    return call.args[0]
        return None

    # -- kinds ---------------------------------------------------------------------
    def kind(self, e: ast.expr | None, fi: FunctionInfo, depth: int = 0) -> frozenset:
        """Set of kinds the expression may have; empty = unknown / not a line quantity."""
        if e is None:
            return frozenset()
        if depth > 24:
            self._cuts += 1
            return frozenset()
        if isinstance(e, ast.Constant):
            return frozenset()
        if isinstance(e, ast.Call):
            f = e.func
            d = dotted(f) or ""
            if d.split(".")[-1] == "token_line":
                return frozenset({L1})
            if isinstance(f, ast.Attribute):
                if f.attr in ("find", "rfind"):
                    return frozenset({CH})
                if f.attr in ("index", "rindex") and self.is_str(f.value, fi):
                    return frozenset({CH})
                if f.attr in ("start", "end") and len(e.args) <= 1 and isinstance(f.value, ast.Name) and self._is_match(f.value.id, fi):
                    return frozenset({CH})
                if f.attr == "count" and e.args and isinstance(e.args[0], ast.Constant) and e.args[0].value == "\n":
                    return frozenset({NK})
                if f.attr == "get" and e.args and isinstance(e.args[0], ast.Constant) and e.args[0].value in LINE_OPTIONS:
                    return frozenset({LINE_OPTIONS[e.args[0].value]})
            if d == "len" and len(e.args) == 1:
                if self.is_lines(e.args[0], fi):
                    return frozenset({NK})
                if self.is_str(e.args[0], fi):
                    return frozenset({CH})
                return frozenset()
            if d in ("max", "min"):
                out = frozenset()
                for a in e.args:
                    out |= self.kind(a, fi, depth + 1)
                return out
            return frozenset()
        if isinstance(e, ast.Name):
            return self.name_kinds(fi, e.id, depth + 1)
        if isinstance(e, ast.Attribute):
            if isinstance(e.value, ast.Name) and e.value.id == "self":
                k = self.self_attr_kinds(fi, e.attr, depth + 1)
                if k:
                    return k
            if e.attr in ATTR_KINDS:
                return frozenset({ATTR_KINDS[e.attr]})
            return frozenset()
        if isinstance(e, ast.Subscript):
            # <x>["map"][0] / <x>.map[0]: a raw markdown-it map entry (0-based)
            v = e.value
            if (isinstance(v, ast.Subscript) and isinstance(v.slice, ast.Constant) and v.slice.value == "map") or (isinstance(v, ast.Attribute) and v.attr == "map"):
                return frozenset({PK})
            if isinstance(e.slice, ast.Constant) and e.slice.value in LINE_OPTIONS:
                return frozenset({LINE_OPTIONS[e.slice.value]})
            return frozenset()
        if isinstance(e, ast.BinOp) and isinstance(e.op, (ast.Add, ast.Sub)):
            lk, rk = self.kind(e.left, fi, depth + 1), self.kind(e.right, fi, depth + 1)
            if self.mixes(lk, rk):
                return frozenset(k for k in (lk | rk) if k in LINE)  # reported where it happens; do not cascade
            if isinstance(e.right, ast.Constant) and isinstance(e.right.value, int) and lk:
                if lk == {L1} and isinstance(e.op, ast.Sub) and e.right.value == 1:
                    return frozenset({PK})
                if lk == {PK} and isinstance(e.op, ast.Add) and e.right.value == 1:
                    return frozenset({L1})
                return lk
            if L1 in lk and OFF in rk or (OFF in lk and L1 in rk):
                return frozenset({PK})
            if lk and rk and isinstance(e.op, ast.Sub) and lk == rk and lk <= {L1, PK}:
                return frozenset({NK})
            return lk or rk
        if isinstance(e, ast.BoolOp):
            out = frozenset()
            for v in e.values:
                out |= self.kind(v, fi, depth + 1)
            return out
        if isinstance(e, ast.IfExp):
            return self.kind(e.body, fi, depth + 1) | self.kind(e.orelse, fi, depth + 1)
        return frozenset()

    @staticmethod
    def mixes(a: frozenset, b: frozenset) -> bool:
        return (CH in a and bool(b & LINE)) or (CH in b and bool(a & LINE))

    def _is_match(self, name: str, fi: FunctionInfo) -> bool:
        for _, v, how in _defs(fi, name):
            if how == "assign" and isinstance(v, ast.Call) and isinstance(v.func, ast.Attribute) and v.func.attr in ("search", "match", "fullmatch"):
                return True
        return False

    def name_kinds(self, fi: FunctionInfo, name: str, depth: int = 0, skip: ast.stmt | None = None) -> frozenset:
        owner = _owner_of_param(fi, name)
        key = (fi.fq, name, id(skip))
        if key in self._busy or depth > 24:
            self._cuts += 1
            return frozenset()
        self._busy.add(key)
        try:
            out = frozenset()
            if owner is not None:
                out |= self.param_kinds(owner, name, depth + 1)
            ds = _defs(fi, name)
            base = frozenset()
            for st, v, how in ds:
                if how == "assign" and st is not skip:
                    base |= self.kind(v, fi, depth + 1)
            out |= base
            for st, v, how in ds:
                if how == "aug" and st is not skip:
                    vk = self.kind(v, fi, depth + 1)
                    if not self.mixes(out, vk):
                        out |= vk
            return out
        finally:
            self._busy.discard(key)

    def param_kinds(self, owner: FunctionInfo, name: str, depth: int = 0) -> frozenset:
        key = (owner.fq, name)
        if key in EXTERNAL_PARAMS:
            return frozenset({EXTERNAL_PARAMS[key][0]})
        if key in self._pmemo:
            return self._pmemo[key]
        if depth > 24 or ("p",) + key in self._busy:
            self._cuts += 1
            return frozenset()
        self._busy.add(("p",) + key)
        cuts0 = self._cuts
        try:
            out = frozenset()
            for cfi, call in _real_callers(self.c, owner):
                arg = _arg_for(call, owner, name)
                if arg is None:
                    arg = _param_default(owner, name)
                out |= self.kind(arg, cfi if arg is not _param_default(owner, name) else owner, depth + 1)
            if self._cuts == cuts0:
                self._pmemo[key] = out
            return out
        finally:
            self._busy.discard(("p",) + key)

    def self_attr_kinds(self, fi: FunctionInfo, attr: str, depth: int = 0) -> frozenset:
        f = fi
        while f is not None and f.cls is None:
            f = f.parent_func
        if f is None:
            return frozenset()
        out = frozenset()
        for c in self.c.mro(f.cls):
            init = c.methods.get("__init__")
            if init is None:
                continue
            for n in init.local_nodes():
                if isinstance(n, ast.Assign):
                    for t in n.targets:
                        if isinstance(t, ast.Attribute) and t.attr == attr and isinstance(t.value, ast.Name) and t.value.id == "self":
                            out |= self.kind(n.value, init, depth + 1)
            if out:
                break
        return out

    # -- normal form: sum of kinded terms + integer constant ---------------------------
    def linear(self, e: ast.expr, fi: FunctionInfo, sign: int = 1, depth: int = 0) -> tuple[list[tuple[int, str, str]], int]:
        if depth > 8:
            raise _Unknown(short(e, 40))
        if isinstance(e, ast.Constant) and isinstance(e.value, int) and not isinstance(e.value, bool):
            return [], sign * e.value
        if isinstance(e, ast.UnaryOp) and isinstance(e.op, ast.USub):
            return self.linear(e.operand, fi, -sign, depth + 1)
        if isinstance(e, ast.BinOp) and isinstance(e.op, (ast.Add, ast.Sub)):
            lt, lc = self.linear(e.left, fi, sign, depth + 1)
            rt, rc = self.linear(e.right, fi, sign if isinstance(e.op, ast.Add) else -sign, depth + 1)
            return lt + rt, lc + rc
        if isinstance(e, ast.BoolOp) and isinstance(e.op, ast.Or) and len(e.values) == 2 and isinstance(e.values[1], ast.Constant) and e.values[1].value == 0:
            return self.linear(e.values[0], fi, sign, depth + 1)
        if isinstance(e, ast.Name) and _owner_of_param(fi, e.id) is None:
            ds = _defs(fi, e.id)
            assigns = [(st, v) for st, v, how in ds if how == "assign" and v is not None and not (isinstance(v, ast.Constant) and v.value is None)]
            if len(assigns) == 1 and all(how == "assign" for _, _, how in ds):
                return self.linear(assigns[0][1], fi, sign, depth + 1)
        if isinstance(e, ast.Name):
            owner = _owner_of_param(fi, e.id)
            if owner is not None and (owner.fq, e.id) not in EXTERNAL_PARAMS and not _defs(fi, e.id):
                # a parameter every call site leaves at one integer default
                callers = _real_callers(self.c, owner)
                dflt = _param_default(owner, e.id)
                if callers and isinstance(dflt, ast.Constant) and isinstance(dflt.value, int) and all(_arg_for(c, owner, e.id) is None for _, c in callers):
                    return [], sign * dflt.value
        ks = self.kind(e, fi)
        if len(ks) == 1:
            return [(sign, next(iter(ks)), short(e, 40))], 0
        if not ks:
            return [(sign, "?", short(e, 40))], 0
        raise _Unknown(f"{short(e, 40)} may be any of {sorted(ks)}")


def _kinds(corpus: Corpus) -> Kinds:
    return corpus.cache("c04-kinds", lambda: Kinds(corpus))


# -- (b) convention table: where does the text handed on start, relative to the anchor of its line argument?
AFTER, ON, START, NOT_JUDGED, SYNTHETIC = "AFTER", "ON", "START", "NOT-JUDGED", "SYNTHETIC"
CONV_DOC = {
    AFTER: "the text starts on the line AFTER the anchor line (directive body, colon-fence content): lineno = L1(anchor) [+ offset], no constant",
    ON: "the text starts ON the anchor line: lineno = L1(anchor) - 1",
    START: "the text is a file (or its tail after N skipped lines): lineno = N, no constant",
}
# sink function -> (index of the line argument, keyword name)
LINE_SINKS = {
    "myst_parser.mdit_to_docutils.base:DocutilsRenderer.nested_render_text": (1, "lineno"),
    "myst_parser.mdit_to_docutils.base:DocutilsRenderer.run_directive": (3, "position"),
}
NRT_CONVENTION: dict[tuple[str, str], tuple[str, str]] = {
    ("nested_render_text", "myst_parser.mocking:MockState.nested_parse"): (AFTER, "block = directive content; self._lineno = directive line, input_offset = content_offset"),
    ("nested_render_text", "myst_parser.mdit_to_docutils.base:DocutilsRenderer.render_colon_fence"): (AFTER, "token.content begins on the line after the opening ::: line"),
    ("nested_render_text", "myst_parser.mdit_to_docutils.base:DocutilsRenderer.render_front_matter"): (START, "synthetic '# title' heading placed at the top of the document"),
    ("nested_render_text", "myst_parser.mdit_to_docutils.base:DocutilsRenderer.dict_to_fm_field_list"): (NOT_JUDGED, "front-matter value: its position inside the YAML block is not tracked"),
    ("nested_render_text", "myst_parser.mocking:MockIncludeDirective.run"): (START, "file_content = the included file after `startline` skipped lines"),
    ("nested_render_text", "myst_parser.mdit_to_docutils.base:DocutilsRenderer.render_substitution"): (ON, "the rendered substitution replaces {{...}} ON the token's line"),
    ("nested_render_text", "myst_parser.mocking:MockInliner.parse"): (ON, "docutils hands the 1-based line the text is ON (EXTERNAL_PARAMS)"),
    ("nested_render_text", "myst_parser.mdit_to_docutils.base:DocutilsRenderer.render_blockquote"): (NOT_JUDGED, "attribution text comes from an attribute block whose own line is not on the token"),
    ("run_directive", "myst_parser.mdit_to_docutils.base:DocutilsRenderer.render_directive"): (AFTER, "token.content begins on the line after the fence line"),
    ("run_directive", "myst_parser.mdit_to_docutils.html_to_nodes:html_to_nodes"): (SYNTHETIC, "directive text synthesised from HTML attributes: fine while it has no body to locate"),
}


def _judge_convention(conv: str, terms, const: int) -> str | None:
    n_l1 = sum(s for s, k, _ in terms if k == L1)
    n_p = sum(s for s, k, _ in terms if k == PK)
    bad_neg = [t for s, k, t in terms if s < 0]
    if bad_neg:
        raise _Unknown(f"subtracted term {bad_neg[0]}")
    if any(k == CH for _, k, _ in terms):
        return None  # part (a) reports it
    if conv == START:
        if n_l1 or n_p:
            return "a file-relative text is positioned with an absolute line of the including document"
        if const != 0:
            return f"lineno = N {const:+d}: every line of the text is reported {abs(const)} too {'high' if const > 0 else 'low'} (expected the bare count of skipped lines)"
        return None
    # anchored conventions: value as 'lines preceding the text' = L1 terms count 1 each
    if n_l1 + n_p != 1:
        raise _Unknown(f"{n_l1} L1 and {n_p} P anchors in the line argument")
    have = const + (0 if n_l1 else -1)  # constant relative to L1(anchor)
    want = 0 if conv == AFTER else -1
    if have != want:
        d = have - want
        return f"lineno = L1(anchor) {have:+d} but the convention needs L1(anchor) {want:+d}: every nested line is reported {abs(d)} too {'high' if d > 0 else 'low'}"
    return None


@rule(R2)
def r2_line_kinds(corpus: Corpus, rep: Report, tier: str):
    rep.rule(R2, "line arithmetic is unit/base consistent: no char index in line maths; each nested-render call site passes the line its convention (AFTER/ON/START) needs; no L1+OFF into a .line sink")
    K = _kinds(corpus)
    # ---- (a) CH never meets a line quantity
    used: dict[str, int] = {}

    def uniq(k: str) -> str:
        used[k] = used.get(k, 0) + 1
        return k if used[k] == 1 else f"{k}#{used[k]}"

    r2_funcs = [f for f in _funcs(corpus) if not f.module.name.endswith(".parsers.options")]  # tokenizer marks: C07's coordinates
    for fi in r2_funcs:
        for n in sorted((x for x in fi.local_nodes() if hasattr(x, "lineno") or isinstance(x, ast.keyword)), key=lambda x: (getattr(x, "lineno", 0) or getattr(getattr(x, "value", None), "lineno", 0), getattr(x, "col_offset", 0) or getattr(getattr(x, "value", None), "col_offset", 0))):
            if isinstance(n, ast.BinOp) and isinstance(n.op, (ast.Add, ast.Sub)):
                lk, rk = K.kind(n.left, fi), K.kind(n.right, fi)
                if not ((lk | rk) & LINE):
                    continue
                k = uniq(f"{_key_owner(corpus, fi).fq}|arith|{short(n, 70)}")
                if K.mixes(lk, rk):
                    chside = n.left if CH in lk else n.right
                    rep.violation(R2, k, fi.module.site(n), f"`{short(n, 60)}` adds the character index `{short(chside, 40)}` to a line quantity")
                else:
                    rep.ok(R2, k, fi.module.site(n), f"{sorted(lk) or '?'} {'+' if isinstance(n.op, ast.Add) else '-'} {sorted(rk) or '?'}")
            elif isinstance(n, ast.AugAssign) and isinstance(n.op, (ast.Add, ast.Sub)) and isinstance(n.target, ast.Name):
                tk = K.name_kinds(fi, n.target.id, skip=n)
                vk = K.kind(n.value, fi)
                if not ((tk | vk) & LINE):
                    continue
                k = uniq(f"{_key_owner(corpus, fi).fq}|arith|{short(n, 70)}")
                if K.mixes(tk, vk):
                    rep.violation(R2, k, fi.module.site(n), f"`{short(n, 60)}`: `{n.target.id}` counts lines ({sorted(tk & LINE)}) but `{short(n.value, 40)}` is a character index/length")
                else:
                    rep.ok(R2, k, fi.module.site(n), f"{sorted(tk)} {'+=' if isinstance(n.op, ast.Add) else '-='} {sorted(vk) or '?'}")
            elif isinstance(n, ast.keyword) and n.arg in ("line", "lineno", "content_offset", "input_offset") and CH in K.kind(n.value, fi):
                rep.violation(R2, uniq(f"{_key_owner(corpus, fi).fq}|sink|{n.arg}={short(n.value, 50)}"), fi.module.site(n.value), f"a character index reaches the line argument `{n.arg}=`")
            elif isinstance(n, ast.Assign):
                for t in _store_targets(n):
                    if isinstance(t, ast.Attribute) and t.attr == "line" and CH in K.kind(n.value, fi):
                        rep.violation(R2, uniq(f"{_key_owner(corpus, fi).fq}|sink|{short(n, 60)}"), fi.module.site(n), "a character index is stored as a node line")
    # ---- (b) call-site conventions
    seen_conv = set()
    for sink_fq, (idx, kwname) in LINE_SINKS.items():
        sink = corpus.func(sink_fq.replace("myst_parser.", "", 1))
        callers = _real_callers(corpus, sink)
        if not callers:
            rep.error(R2, f"no call site of {sink.name} found")
        nth: dict[str, int] = {}
        # a private helper that merely forwards its own parameter as the line argument is looked through:
        # the convention belongs to the helper's callers (up to two levels)
        sites: list[tuple[FunctionInfo, ast.Call, ast.expr | None]] = []
        work = [(cfi, call, arg_or_kw(call, idx, kwname), 0) for cfi, call in callers]
        while work:
            cfi, call, arg, lvl = work.pop()
            if (sink.name, _key_owner(corpus, cfi).fq) not in NRT_CONVENTION and lvl < 2 and isinstance(arg, ast.Name) and arg.id in cfi.params and not _defs(cfi, arg.id):
                ups = _real_callers(corpus, cfi)
                if ups:
                    for ufi, ucall in ups:
                        uarg = _arg_for(ucall, cfi, arg.id)
                        work.append((ufi, ucall, uarg if uarg is not None else _param_default(cfi, arg.id), lvl + 1))
                    continue
            sites.append((cfi, call, arg))
        for cfi, call, arg in sorted(sites, key=lambda x: (x[0].fq, x[1].lineno, x[1].col_offset)):
            # a private helper that the tabled function is the only caller of stands for that function (body moved, same construct)
            own = _key_owner(corpus, cfi).fq
            ck = (sink.name, cfi.fq) if (sink.name, cfi.fq) in NRT_CONVENTION else (sink.name, own)
            site = cfi.module.site(call)
            rep.saw_call(site)
            nth[own] = nth.get(own, 0) + 1
            nth[cfi.fq] = nth[own]
            k = f"{own}|{sink.name}|{kwname}={short(arg, 50) if arg is not None else '?'}" + (f"#{nth[own]}" if nth[own] > 1 else "")
            if ck not in NRT_CONVENTION:
                rep.error(R2, f"{site}: {cfi.qualname} calls {sink.name}() but has no entry in the convention table (does its text start ON, AFTER the anchor line, or at the START of a file?)")
                continue
            seen_conv.add(ck)
            conv, why = NRT_CONVENTION[ck]
            if conv == NOT_JUDGED:
                rep.listed(R2, k, site, why)
                continue
            if conv == SYNTHETIC:
                # option lines made up from attributes + (possibly) body text taken from the source: the body is then rendered at
                # position + (number of made-up lines), which has nothing to do with where it stands in the file
                tidx_, tname_ = (0, "text") if sink.name == "nested_render_text" else (2, "content")
                te = arg_or_kw(call, tidx_, tname_)
                for _hop in range(3):
                    if isinstance(te, ast.Name) and _owner_of_param(cfi, te.id) is None:
                        # the definition in force at the call: the last one before it inside a block that also holds the call
                        anc = {id(a_) for a_ in ancestors(call)}
                        ds_ = [(s_, v_) for s_, v_, h_ in _defs(cfi, te.id) if h_ == "assign" and v_ is not None and s_ is not None and s_.lineno < call.lineno and id(parent(s_)) in anc]
                        if ds_:
                            te = max(ds_, key=lambda d_: d_[0].lineno)[1]
                            continue
                    break
                parts = [t_ for t_ in (_sum_terms(te) if te is not None else []) if not isinstance(t_, ast.Constant) and not (isinstance(t_, ast.IfExp) and isinstance(t_.body, ast.Constant) and isinstance(t_.orelse, ast.Constant))]
                # identify the call by the directive it runs (stable when the calls are moved into helpers), else by its ordinal
                a0_ = call.args[0] if call.args else None
                sfx_ = f" ({a0_.value})" if isinstance(a0_, ast.Constant) and isinstance(a0_.value, str) else (f"#{nth[cfi.fq]}" if nth[cfi.fq] > 1 else "")
                ksyn = f"{own}|{sink.name}|synthetic directive text" + sfx_
                if len(parts) >= 2:
                    rep.violation(R2, f"{own}|{sink.name}|synthetic directive text with a body{sfx_}", site, f"{cfi.qualname} hands {sink.name}() a text glued together from made-up option lines and body text (`{short(te, 60)}`); the body is parsed at `{short(arg, 20)}` + the offset inside that made-up text, not at its place in the source (html_admonition: content on line 4 is reported at line 7)")
                else:
                    rep.ok(R2, ksyn, site, "made-up option lines only: nothing in them is located")
                continue
            if arg is None:
                rep.error(R2, f"{site}: no line argument in the call of {sink.name}")
                continue
            try:
                terms, const = K.linear(arg, cfi)
                verdict = _judge_convention(conv, terms, const)
            except _Unknown as e:
                rep.error(R2, f"{site}: line argument `{short(arg, 50)}` of {sink.name}() not understood ({e})")
                continue
            shape = " + ".join(f"{kk}({t})" for _, kk, t in terms) + (f" {const:+d}" if const or not terms else "")
            off_params = [pn for (fq_, pn), (kd, _r) in EXTERNAL_PARAMS.items() if fq_ == cfi.fq and kd == OFF]
            if verdict is None and conv == AFTER and off_params and not any(kk == OFF for _, kk, _t in terms):
                verdict = f"the block handed to {cfi.name}() starts `{off_params[0]}` lines after the line following the directive line, but `{off_params[0]}` is not added: every nested line is reported too low whenever the offset is not 0"
            if verdict is None:
                rep.ok(R2, k, site, f"{conv}: {shape} ({why})")
            else:
                rep.violation(R2, k, site, f"{cfi.qualname} -> {sink.name}(): {why}, i.e. {CONV_DOC[conv]}; the call passes {shape}: {verdict}")
    # the text handed to a judged site keeps its head: stripping leading blank lines / slicing the front moves every line up
    TEXT_ARG = {"nested_render_text": (0, "text"), "run_directive": (2, "content")}
    for sink_fq in LINE_SINKS:
        sink = corpus.func(sink_fq.replace("myst_parser.", "", 1))
        tidx, tname = TEXT_ARG[sink.name]
        for cfi, call in sorted(_real_callers(corpus, sink), key=lambda x: (x[0].fq, x[1].lineno)):
            conv = NRT_CONVENTION.get((sink.name, cfi.fq), NRT_CONVENTION.get((sink.name, _key_owner(corpus, cfi).fq), (None, "")))[0]
            if conv in (None, NOT_JUDGED):
                continue
            e = arg_or_kw(call, tidx, tname)
            chain = []
            for _hop in range(6):
                if e is None:
                    break
                if isinstance(e, ast.Name) and _owner_of_param(cfi, e.id) is None:
                    ds = [v for _s, v, how in _defs(cfi, e.id) if how == "assign" and v is not None]
                    if len(ds) != 1 or len(_defs(cfi, e.id)) != 1:
                        break
                    e = ds[0]
                elif isinstance(e, ast.Call) and isinstance(e.func, ast.Attribute) and e.func.attr in ("strip", "lstrip", "rstrip", "expandtabs", "replace"):
                    chars = e.args[0].value if e.args and isinstance(e.args[0], ast.Constant) and isinstance(e.args[0].value, str) else (None if not e.args else "?")
                    if e.func.attr in ("strip", "lstrip") and (chars is None or chars == "?" or "\n" in chars):
                        chain.append(e)
                    e = e.func.value
                elif isinstance(e, ast.Subscript) and isinstance(e.slice, ast.Slice) and e.slice.lower is not None and conv != START:
                    chain.append(e)
                    e = e.value
                else:
                    break
            k = f"{_key_owner(corpus, cfi).fq}|{sink.name}|text keeps its leading lines"
            site = cfi.module.site(call)
            if chain:
                op = chain[0]
                rep.violation(R2, uniq(k), cfi.module.site(op), f"the text passed to {sink.name}() is `{short(op, 50)}`: leading (blank) lines are removed from it while the line argument still names the place of the unstripped text, so every nested line is reported one too low per removed line")
            else:
                rep.ok(R2, uniq(k), site)
    # ... and inside nested_render_text itself: what markdown-it parses is the `text` parameter with its head intact (the maps are
    # then shifted by the unchanged line argument)
    nrt_ = corpus.func(NESTED_RENDER)
    n_parse = 0
    for pc in sorted((x for x in nrt_.local_nodes() if isinstance(x, ast.Call) and isinstance(x.func, ast.Attribute) and x.func.attr in ("parse", "parseInline") and "self.md" in unparse(x.func.value)), key=lambda c: (c.lineno, c.col_offset)):
        n_parse += 1
        e = pc.args[0] if pc.args else None
        drops = []
        for _hop in range(8):
            if e is None:
                break
            if isinstance(e, ast.BinOp) and isinstance(e.op, ast.Add):
                # text + "\n": a suffix; a prefix that contains a line break would add lines in front
                if isinstance(e.left, ast.Constant) and isinstance(e.left.value, str) and "\n" in e.left.value:
                    drops.append(e)
                e = e.left if not isinstance(e.left, ast.Constant) else e.right
            elif isinstance(e, ast.Name) and _owner_of_param(nrt_, e.id) is None:
                ds = [v for _s, v, how in _defs(nrt_, e.id) if how == "assign" and v is not None]
                if len(ds) != 1 or len(_defs(nrt_, e.id)) != 1:
                    break
                e = ds[0]
            elif isinstance(e, ast.Call) and isinstance(e.func, ast.Attribute) and e.func.attr in ("strip", "lstrip", "rstrip", "expandtabs", "replace"):
                chars = e.args[0].value if e.args and isinstance(e.args[0], ast.Constant) and isinstance(e.args[0].value, str) else (None if not e.args else "?")
                if e.func.attr in ("strip", "lstrip") and (chars is None or chars == "?" or "\n" in chars):
                    drops.append(e)
                e = e.func.value
            elif isinstance(e, ast.Subscript) and isinstance(e.slice, ast.Slice) and e.slice.lower is not None:
                drops.append(e)
                e = e.value
            else:
                break
        k = uniq(f"{nrt_.fq}|{short(pc.func, 30)} parses the text with its leading lines")
        if drops:
            rep.violation(R2, k, nrt_.module.site(drops[0]), f"nested_render_text parses `{short(pc.args[0], 50)}`: `{short(drops[0], 40)}` changes the number of lines in front of the text, but the token maps are still shifted by the unchanged `{LINE_SINKS[nrt_.fq][1]}` - every line of the text is reported too low by the number of lines dropped")
        elif isinstance(e, ast.Name) and e.id in nrt_.params:
            rep.ok(R2, k, nrt_.module.site(pc), f"`{e.id}` (+ a trailing line break)")
        else:
            rep.error(R2, f"{nrt_.module.site(pc)}: cannot relate the parsed text `{short(pc.args[0], 50) if pc.args else '?'}` to the text parameter")
    if n_parse == 0:
        rep.error(R2, "nested_render_text: no markdown-it parse call found")
    # ---- (f) a block handed on together with a content offset: cut k lines off its head -> offset + k; otherwise the same offset
    for fi in r2_funcs:
        pair = BLOCK_PARAMS.get(fi.fq)
        if pair is None:
            continue
        bparam, oparam = pair
        if bparam not in fi.params or oparam not in fi.params:
            rep.error(R2, f"{fi.fq}: block/offset parameters {pair} of the table not found")
            continue
        for n in sorted((x for x in fi.local_nodes() if isinstance(x, ast.Call)), key=lambda x: (x.lineno, x.col_offset)):
            for t in get_callgraph(corpus).resolve_call(n, fi):
                if not (isinstance(t, FunctionInfo) and t.fq in BLOCK_PARAMS):
                    continue
                tb, to = BLOCK_PARAMS[t.fq]
                ba, oa = _arg_for(n, t, tb), _arg_for(n, t, to)
                if ba is None or oa is None:
                    continue
                # the block argument: this function's block, or a slice of it (through a local with one shape)
                alts = [ba]
                if isinstance(ba, ast.Name) and ba.id != bparam and _owner_of_param(fi, ba.id) is None:
                    alts = [v for _s, v, how in _defs(fi, ba.id) if how == "assign" and v is not None] or [ba]
                cuts_ = []
                related = True
                local_copy = ba.id if isinstance(ba, ast.Name) and ba.id != bparam else None
                for a_ in alts:
                    if isinstance(a_, ast.Call) and dotted(a_.func) in ("list", "tuple") and len(a_.args) == 1:
                        a_ = a_.args[0]  # list(lines[k:]): a copy
                    if isinstance(a_, ast.Name) and a_.id == bparam:
                        continue
                    if isinstance(a_, ast.Subscript) and isinstance(a_.value, ast.Name) and a_.value.id == bparam and isinstance(a_.slice, ast.Slice):
                        if a_.slice.lower is not None:
                            cuts_.append(a_.slice.lower)
                        continue
                    related = False
                if not related:
                    continue  # some other text (e.g. a joined string): judged by the conventions of its own sink
                k = uniq(f"{_key_owner(corpus, fi).fq}|{t.name}({short(ba, 25)}, {short(oa, 30)}) carries the content offset")
                site = fi.module.site(n)
                onames = _names(oa)
                for nm_ in list(onames):
                    if _owner_of_param(fi, nm_) is None:
                        for _s, v_, h_ in _defs(fi, nm_):
                            if h_ == "assign" and v_ is not None and len(_defs(fi, nm_)) == 1:
                                onames |= _names(v_)
                missing_cut = [c_ for c_ in cuts_ if not (_names(c_) <= onames) or (isinstance(c_, ast.Constant) and unparse(c_) not in unparse(oa))]
                # lines taken off the head of a local copy afterwards (pop(0) / del [0] / [1:]) must be counted by something the offset uses
                uncounted = None
                if local_copy is not None:
                    for st_, kind_, _amt in _head_edits(fi, local_copy):
                        if kind_ in ("drop", "unknown"):
                            lk_, p_ = _stmt_list_of(st_)
                            sibs_ = getattr(p_, lk_[1], [])
                            if not any(isinstance(x_, ast.AugAssign) and isinstance(x_.target, ast.Name) and x_.target.id in onames for x_ in sibs_):
                                uncounted = st_
                if uncounted is not None:
                    rep.violation(R2, k, site, f"`{short(uncounted, 50)}` takes lines off the head of `{local_copy}` (a copy of part of `{bparam}`) before it is handed on, but nothing the offset `{short(oa, 30)}` uses is advanced with it: the skipped lines are not counted and everything parsed from `{local_copy}` is located too low")
                    continue
                if oparam not in onames:
                    rep.violation(R2, k, site, f"`{short(n, 70)}` hands on (part of) the block `{bparam}` with the offset `{short(oa, 30)}`, which no longer contains `{oparam}` - the content offset accumulated so far is dropped, so everything parsed from that part is located too low by `{oparam}` lines")
                elif missing_cut:
                    rep.violation(R2, k, site, f"`{short(n, 70)}` cuts `{short(missing_cut[0], 20)}` line(s) off the head of `{bparam}` but the offset `{short(oa, 30)}` does not grow by that number")
                elif not cuts_ and unparse(oa) != oparam and not (isinstance(oa, ast.Name) and oparam in onames):
                    rep.violation(R2, k, site, f"`{short(n, 70)}` hands on `{bparam}` from its first line but with the offset `{short(oa, 30)}` instead of `{oparam}`")
                else:
                    rep.ok(R2, k, site, "offset of the block" + (f" + {short(cuts_[0], 20)} line(s) cut off its head" if cuts_ else ""))
    for ck in NRT_CONVENTION:
        if ck not in seen_conv:
            rep.error(R2, f"convention table entry {ck} matches no call site any more")
    # eval-rst: newline padding in front of the content = number of lines preceding it (AFTER the fence line)
    rr = corpus.func("mdit_to_docutils.base:DocutilsRenderer.render_restructuredtext")
    pads = [n for n in rr.local_nodes() if isinstance(n, ast.BinOp) and isinstance(n.op, ast.Mult) and any(isinstance(x, ast.Constant) and x.value == "\n" for x in (n.left, n.right))]
    if len(pads) != 1:
        rep.error(R2, f"render_restructuredtext: expected one newline padding of the rST source, found {len(pads)}")
    else:
        cnt = pads[0].right if isinstance(pads[0].left, ast.Constant) else pads[0].left
        k = f"{rr.fq}|newline padding|{short(cnt, 50)}"
        try:
            terms, const = K.linear(cnt, rr)
            verdict = _judge_convention(AFTER, terms, const)
            if verdict is None:
                rep.ok(R2, k, rr.module.site(pads[0]), "AFTER: content begins on the line after the fence line")
            else:
                rep.violation(R2, k, rr.module.site(pads[0]), f"eval-rst pads the rST source with `{short(cnt, 40)}` newlines: {verdict}")
        except _Unknown as e:
            rep.error(R2, f"render_restructuredtext padding not understood ({e})")
    # ---- (c) .line sinks never take L1 + OFF without the +1
    for fi in r2_funcs:
        for n in sorted((x for x in fi.local_nodes() if isinstance(x, (ast.Assign, ast.Call))), key=lambda x: (x.lineno, x.col_offset)):
            exprs: list[tuple[ast.expr, str]] = []
            if isinstance(n, ast.Assign):
                tg = list(_store_targets(n))
                if any(isinstance(t, ast.Attribute) and t.attr == "line" for t in tg):
                    if isinstance(n.value, ast.Call) and isinstance(n.value.func, ast.Attribute) and n.value.func.attr in ("get_source_and_line",) and n.value.args:
                        exprs.append((n.value.args[0], short(n, 70)))
                    elif len(n.targets) == 1 and isinstance(n.targets[0], ast.Attribute):
                        exprs.append((n.value, short(n, 70)))
            elif isinstance(n, ast.Call):
                kwv = kwarg(n, "line")
                if kwv is not None:
                    exprs.append((kwv, f"{short(n.func, 40)}(line={short(kwv, 40)})"))
            for e, text in exprs:
                try:
                    terms, const = K.linear(e, fi)
                except _Unknown:
                    continue
                kinds = [kk for _, kk, _ in terms]
                if not (set(kinds) & LINE):
                    continue
                k = uniq(f"{_key_owner(corpus, fi).fq}|line-sink|{text}")
                if kinds.count(L1) == 1 and OFF in kinds and const != 1 and all(s > 0 for s, _, _ in terms):
                    rep.violation(R2, k, fi.module.site(e), f"`{short(e, 50)}` = L1(directive line) + content offset {const:+d} is the number of lines BEFORE the target line; as a node/warning line it is one too low (docutils: lineno = 1 + line_offset)")
                else:
                    rep.ok(R2, k, fi.module.site(e), " + ".join(kinds) + (f" {const:+d}" if const else ""))
    # ---- (d) in a function that receives a docutils content offset, a position inside the block (anchor + index / + 1) includes it
    g = get_callgraph(corpus)
    for fi in r2_funcs:
        off_params = [pn for (fq_, pn), (kd, _r) in EXTERNAL_PARAMS.items() if fq_ == fi.fq and kd == OFF]
        if not off_params:
            continue
        cands: list[ast.expr] = []
        for n in fi.local_nodes():
            if isinstance(n, ast.Assign) and any(isinstance(t, ast.Attribute) and t.attr == "line" for t in _store_targets(n)):
                if isinstance(n.value, ast.Call) and isinstance(n.value.func, ast.Attribute) and n.value.func.attr == "get_source_and_line" and n.value.args:
                    cands.append(n.value.args[0])
                elif len(n.targets) == 1 and isinstance(n.targets[0], ast.Attribute):
                    cands.append(n.value)
            elif isinstance(n, ast.Call):
                if kwarg(n, "line") is not None:
                    cands.append(kwarg(n, "line"))
                for t in g.resolve_call(n, fi):
                    if isinstance(t, FunctionInfo):
                        for pn in t.params:
                            ext = EXTERNAL_PARAMS.get((t.fq, pn))
                            if (ext and ext[0] == L1) or (t.fq in LINE_SINKS and LINE_SINKS[t.fq][1] == pn):
                                a = _arg_for(n, t, pn)
                                if a is not None and a not in cands:
                                    cands.append(a)
        done: set[str] = set()
        for e in cands:
            try:
                terms, const = K.linear(e, fi)
            except _Unknown:
                continue
            if not any(kk == L1 and s_ > 0 for s_, kk, _t in terms):
                continue
            others = [t for _s, kk, t in terms if kk not in (L1, OFF)]
            norm = " + ".join(sorted(f"{kk}({t})" for _s, kk, t in terms)) + f" {const:+d}"
            if norm in done:
                continue
            done.add(norm)
            k = uniq(f"{_key_owner(corpus, fi).fq}|content offset|{norm}")
            if any(kk == OFF for _s, kk, _t in terms):
                rep.ok(R2, k, fi.module.site(e), f"includes the content offset `{off_params[0]}`")
            elif others or const != 0:
                rep.violation(R2, k, fi.module.site(e), f"`{short(e, 50)}` = {norm} locates something inside the block {fi.name}() was given, but the block's content offset `{off_params[0]}` is not added: the line is too low whenever the body does not start right after the directive line (blank line / option block before it)")
    # ---- (e) the content_offset handed to a directive instance follows docutils' contract: the absolute 0-based line of the first content line
    for fi in r2_funcs:
        for n in sorted((x for x in fi.local_nodes() if isinstance(x, ast.Call)), key=lambda x: (x.lineno, x.col_offset)):
            co = kwarg(n, "content_offset")
            if co is None or kwarg(n, "lineno") is None or kwarg(n, "state") is None:
                continue
            k = uniq(f"{_key_owner(corpus, fi).fq}|directive content_offset={short(co, 40)}")
            site = fi.module.site(co)
            try:
                terms, const = K.linear(co, fi)
            except _Unknown:
                terms, const = [(1, "?", short(co, 30))], 0
            kinds = [kk for _s, kk, _t in terms]
            if OFF in kinds and L1 not in kinds and PK not in kinds:
                rep.violation(R2, k + " is relative to the directive", site, f"`content_offset={short(co, 40)}` counts from the line after the directive line, but docutils directives use content_offset (and the StringList offsets) as the ABSOLUTE 0-based line of the first content line: a directive that computes lines itself (parsed-literal, line-block, glossary, csv-table ...) reports them relative to the directive - `{{parsed-literal}}` on line 3 with one option line gives literal_block.line == 3, true 6; only MockState.nested_parse compensates by adding the directive line")
            elif not terms:
                rep.ok(R2, k, site, f"constant {const}: the content is a whole (included) file")
            elif L1 in kinds or PK in kinds:
                rep.ok(R2, k, site, "absolute")
            else:
                rep.error(R2, f"{site}: cannot tell whether content_offset `{short(co, 40)}` is absolute or relative")
    rep.expect_min(R2, 20, "line arithmetic, convention call sites and line sinks with a known kind")


# ---------------------------------------------------------------------------
# R3 token.map is shifted once, by two functions only; content and map stay in step

RENDER_TOKENS = "mdit_to_docutils.base:DocutilsRenderer._render_tokens"
NESTED_RENDER = "mdit_to_docutils.base:DocutilsRenderer.nested_render_text"
RENDER = "mdit_to_docutils.base:DocutilsRenderer.render"


def _map_stores(fi: FunctionInfo) -> list[tuple[ast.stmt, ast.expr]]:
    out = []
    for n in fi.local_nodes():
        if isinstance(n, (ast.Assign, ast.AugAssign, ast.AnnAssign)):
            for t in _store_targets(n):
                if isinstance(t, ast.Attribute) and t.attr == "map":
                    out.append((n, t))
                elif isinstance(t, ast.Subscript) and isinstance(t.value, ast.Attribute) and t.value.attr == "map":
                    out.append((n, t))
        elif isinstance(n, ast.Call) and isinstance(n.func, ast.Attribute) and n.func.attr in ("append", "extend", "insert", "pop", "clear", "reverse", "sort") and isinstance(n.func.value, ast.Attribute) and n.func.value.attr == "map":
            out.append((n, n.func.value))
        elif isinstance(n, ast.Call) and dotted(n.func) == "setattr" and len(n.args) >= 2 and isinstance(n.args[1], ast.Constant) and n.args[1].value == "map":
            out.append((n, n.args[0]))
    return out


def _sum_terms(e: ast.expr) -> list[ast.expr]:
    if isinstance(e, ast.BinOp) and isinstance(e.op, ast.Add):
        return _sum_terms(e.left) + _sum_terms(e.right)
    return [e]


def _amount_besides(e: ast.expr, base_text: str) -> str | None:
    """``base + a + b`` -> "a + b" ("0" for the bare base); None when base does not occur exactly once as a summand."""
    terms = _sum_terms(e)
    base = [t for t in terms if unparse(t) == base_text]
    if len(base) != 1:
        return None
    rest = [t for t in terms if t is not base[0]]
    if any(base_text in unparse(t) for t in rest):
        return None
    return " + ".join(unparse(t) for t in rest) if rest else "0"


def _shift_amount(value: ast.expr, tok: str) -> tuple[str, str] | None:
    """``[tok.map[0] + A, tok.map[1] + B]`` (or ``[m + A for m in tok.map]``) -> (A, B) as text."""
    comp = value
    if isinstance(comp, ast.Call) and dotted(comp.func) in ("list", "tuple") and len(comp.args) == 1 and isinstance(comp.args[0], ast.GeneratorExp):
        comp = comp.args[0]
    if isinstance(comp, (ast.ListComp, ast.GeneratorExp)) and len(comp.generators) == 1:
        gen = comp.generators[0]
        if unparse(gen.iter) == f"{tok}.map" and isinstance(gen.target, ast.Name) and not gen.ifs:
            a = _amount_besides(comp.elt, gen.target.id)
            if a is not None:
                return a, a
        return None
    if not (isinstance(value, (ast.List, ast.Tuple)) and len(value.elts) == 2):
        return None
    amt = []
    for i, e in enumerate(value.elts):
        a = _amount_besides(e, f"{tok}.map[{i}]")
        if a is None:
            return None
        amt.append(a)
    return amt[0], amt[1]


@rule(R3)
def r3_shift_once(corpus: Corpus, rep: Report, tier: str):
    rep.rule(R3, "token.map is written only by _render_tokens / nested_render_text (or their private helpers), both ends alike, once per list; the total shift is 1 from render() and lineno + 1 from nested_render_text(); token content gets no extra leading lines")
    rt = corpus.func(RENDER_TOKENS)
    nrt = corpus.func(NESTED_RENDER)
    allowed = {rt.fq, nrt.fq}
    g = get_callgraph(corpus)
    BUILTIN_VIEW = {"len", "list", "tuple", "enumerate", "iter", "reversed", "sorted", "bool", "any", "all", "isinstance"}

    extra_calls: dict[tuple[str, str], list[ast.Call]] = {}

    def shift_impl(fi: FunctionInfo, depth: int = 0):
        """Where the map stores of ``fi`` live: (body function, chain of (caller, call)) following private helpers."""
        if _map_stores(fi):
            return fi, []
        if depth >= 2:
            return None, []
        cands = []
        for call in [n for n in fi.local_nodes() if isinstance(n, ast.Call)]:
            for t in g.resolve_call(call, fi):
                if isinstance(t, FunctionInfo) and not t.is_lambda and t.fq not in (rt.fq, nrt.fq) and t.fq != fi.fq:
                    body, chain = shift_impl(t, depth + 1)
                    if body is not None and (t.fq, id(call)) not in {(c[0].fq, id(c[2])) for c in cands}:
                        cands.append((t, body, call, chain))
        if len({c[0].fq for c in cands}) != 1:
            return None, [("ambiguous" if cands else "none", len(cands))]
        t, body, call, chain = sorted(cands, key=lambda c: (c[2].lineno, c[2].col_offset))[0]
        extra_calls[(fi.fq, t.fq)] = [c[2] for c in cands]
        return body, [(fi, t, call)] + chain

    impls = {}
    for fi in (rt, nrt):
        body, chain = shift_impl(fi)
        impls[fi.fq] = (body, chain)
        if body is not None:
            for caller, helper, call in chain:
                others = {c.fq for c, _ in _real_callers(corpus, helper)} - {caller.fq}
                if others:
                    rep.violation(R3, f"{helper.fq}|map-shifting helper has other callers", helper.site(), f"{helper.qualname} shifts token maps for {caller.name} but is also called from {sorted(others)}: those callers shift maps a further time")
                else:
                    allowed.add(helper.fq)
    # (a) closed list of writers
    for fi in _funcs(corpus):
        for st, tgt in _map_stores(fi):
            if fi.fq in allowed:
                continue
            k = f"{fi.fq}|writes .map|{short(st, 70)}"
            rep.violation(R3, k, fi.module.site(st), f"{fi.qualname} rewrites a token map (`{short(st, 60)}`): only _render_tokens and nested_render_text may shift maps, each once; any further writer shifts the line of every node built from the token")
    # (b) shape of the two shifters (the stores may live in a private helper called from the shifter)
    amounts: dict[str, tuple | None] = {}  # shifter fq -> (amount text, function the store lives in, helper chain) | None = no shift
    undecided = False
    for top, desc in ((rt, "0-based -> 1-based"), (nrt, "absolute position of the nested text")):
        fi, chain = impls[top.fq]
        if fi is None:
            why = chain[0] if chain else ("none", 0)
            if why[0] == "none":
                amounts[top.fq] = None  # no shift of its own: the total over the call chain decides (see below)
                if top is nrt:
                    # the list handed to _render_tokens must still be freshly parsed
                    hcalls = [c for cf, c in _real_callers(corpus, rt) if cf.fq == nrt.fq]
                    a0_ = hcalls[0].args[0] if hcalls and hcalls[0].args else None
                    k = f"{top.fq}|the shifted list is the rendered list, freshly parsed"
                    if isinstance(a0_, ast.Name):
                        fresh = [v for _, v, how in _defs(top, a0_.id) if how == "assign"]
                        is_fresh = bool(fresh) and all(any(isinstance(c, ast.Call) and isinstance(c.func, ast.Attribute) and c.func.attr in ("parse", "parseInline") and "self.md" in unparse(c.func.value) for c in ast.walk(v)) for v in fresh)
                        if is_fresh:
                            rep.ok(R3, k, top.module.site(hcalls[0]), "tokens = self.md.parse*/parseInline(...)")
                        else:
                            rep.violation(R3, k, top.module.site(hcalls[0]), f"nested_render_text renders `{a0_.id}`, which is not freshly produced by self.md.parse*, so tokens may be shifted twice")
                    else:
                        rep.error(R3, "nested_render_text: cannot see which list is handed to _render_tokens")
            else:
                undecided = True
                rep.error(R3, f"{top.name}: {why[1]} helpers with map stores are called; cannot tell which one is the shift")
            continue
        stores = _map_stores(fi)
        shifting = []
        n_err = len(rep.errors)
        for st, tgt in stores:
            if not (isinstance(st, ast.Assign) and isinstance(tgt, ast.Attribute) and isinstance(tgt.value, ast.Name)):
                rep.error(R3, f"{fi.module.site(st)}: map store `{short(st, 60)}` in {fi.name} not understood")
                continue
            tok = tgt.value.id
            amt = _shift_amount(st.value, tok)
            if amt is None:
                # propagation to inline children: child.map = token.map inside a loop over token.children
                v = st.value
                loop = next((a for a in ancestors(st) if isinstance(a, ast.For) and isinstance(a.target, ast.Name) and a.target.id == tok), None)
                if top is rt and isinstance(v, ast.Attribute) and v.attr == "map" and isinstance(v.value, ast.Name) and loop is not None and unparse(loop.iter).startswith(f"{v.value.id}.children"):
                    rep.ok(R3, f"{top.fq}|inline children share the shifted map of their block token", fi.module.site(st))
                else:
                    rep.error(R3, f"{fi.module.site(st)}: `{short(st, 60)}` is neither the two-element shift `[t.map[0] + k, t.map[1] + k]` nor the propagation to inline children; idiom not understood")
                continue
            shifting.append((st, tok, amt))
        if len(rep.errors) > n_err:
            undecided = True
            continue  # an idiom was not understood: already an ANALYSIS-ERROR, never a violation
        if len(shifting) != 1:
            undecided = True
            rep.violation(R3, f"{top.fq}|number of map shifts", fi.site(), f"{fi.name} contains {len(shifting)} map-shifting stores, expected at most one ({desc})")
            continue
        st, tok, (a0, a1) = shifting[0]
        k = f"{top.fq}|shift both ends by the same amount"
        site = fi.module.site(st)
        if a0 != a1:
            undecided = True
            rep.violation(R3, k, site, f"`{short(st.value, 60)}` shifts the first line by {a0} and the end line by {a1}")
        else:
            amounts[top.fq] = (a0, fi, chain)
            rep.ok(R3, k, site, f"+{a0} on both ends" + (f" (in helper {fi.name})" if fi is not top else ""))
        # the loop walks the token list that is rendered afterwards, and the only guard is the map itself
        loop = next((a for a in ancestors(st) if isinstance(a, ast.For) and isinstance(a.target, ast.Name) and a.target.id == tok), None)
        cfg = get_cfg(fi)
        k = f"{top.fq}|shift guarded by the token's own map only"
        if loop is None:
            rep.error(R3, f"{site}: shift is not inside a loop over the tokens")
            continue

        def only_map(t: ast.expr) -> bool:
            names = {x.id for x in ast.walk(t) if isinstance(x, ast.Name)} - {"len", "bool"}
            attrs = {x.attr for x in ast.walk(t) if isinstance(x, ast.Attribute)}
            return names == {tok} and attrs == {"map"}

        foreign = [f"{'' if pol else 'not '}{unparse(t)}" for t, pol in cfg.guards(st) if not only_map(t)]
        if foreign:
            rep.violation(R3, k, site, f"the shift is skipped unless {' and '.join(foreign)}: tokens that fail the extra condition keep 0-based/unshifted maps")
        else:
            rep.ok(R3, k, site)
        # name of the token list in the top-level shifter
        if not isinstance(loop.iter, ast.Name):
            rep.error(R3, f"{fi.module.site(loop)}: the shift loop does not iterate over a plain name")
            continue
        list_name = loop.iter.id
        for caller, helper, call in reversed(chain):
            a = _arg_for(call, helper, list_name)
            if not isinstance(a, ast.Name):
                rep.error(R3, f"{caller.module.site(call)}: cannot see which list {helper.name} shifts")
                list_name = None
                break
            list_name = a.id
        if list_name is None:
            continue
        tcfg = get_cfg(top)
        helper_call_stmts = [tcfg.stmt_of(c) for c in extra_calls.get((top.fq, chain[0][1].fq), [])] if chain else []
        # hand-over points: the (shifted) list is passed on to something that reads the maps
        hand = []
        for n in top.local_nodes():
            if isinstance(n, ast.Call) and (chain == [] or n not in extra_calls.get((top.fq, chain[0][1].fq), [])) and (dotted(n.func) or "") not in BUILTIN_VIEW:
                if any(isinstance(a, ast.Name) and a.id == list_name for a in list(n.args) + [kw.value for kw in n.keywords]):
                    hand.append(n)
        if top is nrt:
            hand = [n for n in hand if any(isinstance(t, FunctionInfo) and t.fq == rt.fq for t in g.resolve_call(n, top))]
        if not hand and top is rt:
            hand = [n for n in top.local_nodes() if isinstance(n, ast.Call) and isinstance(n.func, ast.Subscript) and "self.rules" in unparse(n.func)]
        if not hand:
            rep.error(R3, f"{top.name}: cannot find where the shifted token list `{list_name}` is handed on for rendering")
            continue
        hand.sort(key=lambda c: (c.lineno, c.col_offset))
        rs = tcfg.stmt_of(hand[0])
        k = f"{top.fq}|shift loop completes exactly once before rendering"
        if chain:
            inner = cfg.counts("ENTRY", ["EXIT"], lambda n, loop=loop: 1 if n == ("F", loop) else 0).get("EXIT", set())
            for caller, helper, call in chain[1:]:
                ccfg = get_cfg(caller)
                css = [ccfg.stmt_of(c) for c in extra_calls.get((caller.fq, helper.fq), [call])]
                inner = inner if ccfg.counts("ENTRY", ["EXIT"], lambda n, css=css: sum(1 for h in css if n is h)).get("EXIT", set()) == {1} else {0, 2}
            outer = tcfg.counts("ENTRY", [rs], lambda n: sum(1 for h in helper_call_stmts if n is h)).get(rs, set())
            cnt = {1} if (inner == {1} and outer == {1}) else (outer if outer != {1} else inner)
        else:
            cnt = cfg.counts("ENTRY", [rs], lambda n, loop=loop: 1 if n == ("F", loop) else 0).get(rs, set())
        if cnt == {1}:
            rep.ok(R3, k, fi.module.site(loop))
        else:
            rep.violation(R3, k, fi.module.site(loop), f"on some path the map-shifting loop runs {sorted(cnt)} times before the tokens are rendered")
        # the list shifted is the list rendered
        if top is nrt:
            call = hand[0]
            k = f"{top.fq}|the shifted list is the rendered list, freshly parsed"
            fresh = [v for _, v, how in _defs(top, list_name) if how == "assign"]
            is_fresh = bool(fresh) and all(any(isinstance(c, ast.Call) and isinstance(c.func, ast.Attribute) and c.func.attr in ("parse", "parseInline") and "self.md" in unparse(c.func.value) for c in ast.walk(v)) for v in fresh)
            if is_fresh:
                rep.ok(R3, k, top.module.site(call), "tokens = self.md.parse*/parseInline(...)")
            else:
                rep.violation(R3, k, top.module.site(call), f"nested_render_text renders `{list_name}`, which is not freshly produced by self.md.parse*, so tokens may be shifted twice")
    # (b2) total shift along each entry path: render -> _render_tokens = 1;  nested_render_text(text, lineno) -> ... = lineno + 1
    def bind(callee: FunctionInfo, call: ast.Call, caller: FunctionInfo, caller_env: dict) -> dict:
        env = {}
        for pn in callee.params:
            if pn in ("self", "cls"):
                continue
            a = _arg_for(call, callee, pn)
            if a is not None:
                env[pn] = (a, caller, caller_env)
            else:
                d = _param_default(callee, pn)
                if d is not None:
                    env[pn] = (d, callee, {})
        return env

    def lin(e: ast.expr, ctx: FunctionInfo, env: dict, depth: int = 0):
        """Linear form {symbol: coefficient}, constant of an integer expression, parameters substituted through ``env``."""
        if depth > 12:
            return None
        if isinstance(e, ast.Constant) and isinstance(e.value, int) and not isinstance(e.value, bool):
            return {}, e.value
        if isinstance(e, ast.UnaryOp) and isinstance(e.op, ast.USub):
            r = lin(e.operand, ctx, env, depth + 1)
            return None if r is None else ({k_: -v_ for k_, v_ in r[0].items()}, -r[1])
        if isinstance(e, ast.BinOp) and isinstance(e.op, (ast.Add, ast.Sub)):
            l_, r_ = lin(e.left, ctx, env, depth + 1), lin(e.right, ctx, env, depth + 1)
            if l_ is None or r_ is None:
                return None
            sg = 1 if isinstance(e.op, ast.Add) else -1
            co = dict(l_[0])
            for k_, v_ in r_[0].items():
                co[k_] = co.get(k_, 0) + sg * v_
            return {k_: v_ for k_, v_ in co.items() if v_}, l_[1] + sg * r_[1]
        if isinstance(e, ast.Name):
            if e.id in ctx.params and not _defs(ctx, e.id):
                if e.id in env:
                    a, cf, cenv = env[e.id]
                    return lin(a, cf, cenv, depth + 1)
                return {e.id: 1}, 0
            ds = _defs(ctx, e.id)
            if len(ds) == 1 and ds[0][2] == "assign" and ds[0][1] is not None:
                return lin(ds[0][1], ctx, env, depth + 1)
        return None

    def amount_on_path(shifter: FunctionInfo, env_top: dict):
        am = amounts.get(shifter.fq)
        if am is None:
            return {}, 0
        text, body, chain_ = am
        env = env_top
        for caller, helper, call in chain_:
            env = bind(helper, call, caller, env)
        return lin(ast.parse(text, mode="eval").body, body, env)

    def add_lin(x, y):
        if x is None or y is None:
            return None
        co = dict(x[0])
        for k_, v_ in y[0].items():
            co[k_] = co.get(k_, 0) + v_
        return {k_: v_ for k_, v_ in co.items() if v_}, x[1] + y[1]

    def show(x) -> str:
        parts = [(f"{v_}*" if v_ != 1 else "") + k_ for k_, v_ in sorted(x[0].items())] + ([str(x[1])] if x[1] or not x[0] else [])
        return " + ".join(parts)

    if not undecided and rt.fq in amounts and nrt.fq in amounts:
        render = corpus.func(RENDER)
        line_param = LINE_SINKS[nrt.fq][1]
        if line_param not in nrt.params:
            rep.error(R3, f"nested_render_text has no parameter `{line_param}` (convention table)")
        for entry, want, label in ((render, ({}, 1), "1 (0-based -> 1-based)"), (nrt, ({line_param: 1}, 1), f"{line_param} + 1")):
            calls_rt = [c for cf, c in _real_callers(corpus, rt) if cf.fq == entry.fq]
            k = f"{entry.fq}|total map shift before rendering"
            if len(calls_rt) != 1:
                continue  # reported by the callers check below
            total = amount_on_path(rt, bind(rt, calls_rt[0], entry, {}))
            if entry is nrt:
                total = add_lin(amount_on_path(nrt, {}), total)
            if total is None:
                rep.error(R3, f"{entry.module.site(calls_rt[0])}: the map shift applied on the way from {entry.name} to the renderer is not a sum of parameters and constants; not understood")
            elif total == want:
                rep.ok(R3, k, entry.module.site(calls_rt[0]), f"token lines are shifted by {label} in total")
            else:
                rep.violation(R3, k, entry.module.site(calls_rt[0]), f"on the way from {entry.name}() to the render dispatch every token map is shifted by {show(total)} in total; it must be {label}, otherwise every node built from these tokens reports a wrong line")
    # (c) callers of _render_tokens
    callers = _real_callers(corpus, rt)
    names = sorted({c.fq for c, _ in callers})
    want_callers = sorted({corpus.func(RENDER).fq, nrt.fq})
    k = f"{rt.fq}|callers"
    if names == want_callers and len(callers) == 2:
        rep.ok(R3, k, rt.site(), "render (fresh token stream of the document) and nested_render_text")
    else:
        rep.violation(R3, k, rt.site(), f"_render_tokens (which adds 1 to every map) is called from {names} ({len(callers)} sites); expected one call each in render and nested_render_text - any other caller shifts maps a second time")
    # (d) token content and token map stay in step
    K = _kinds(corpus)
    for fi in _funcs(corpus):
        if not fi.module.name.endswith((".mdit_to_docutils.base", ".mdit_to_docutils.sphinx_", ".mocking", ".mdit_to_docutils.html_to_nodes")):
            continue
        for n in fi.local_nodes():
            if not isinstance(n, ast.Assign):
                continue
            for t in _store_targets(n):
                if not (isinstance(t, ast.Attribute) and t.attr == "content"):
                    continue
                v = n.value
                k = f"{fi.fq}|token content rewritten|{short(n, 70)}"
                site = fi.module.site(n)
                lead = v.left if isinstance(v, ast.BinOp) and isinstance(v.op, ast.Add) else None
                if isinstance(lead, ast.Constant) and isinstance(lead.value, str) and "\n" in lead.value and isinstance(v.right, ast.Attribute) and v.right.attr == "content":
                    nl = lead.value.count("\n")
                    compensated = any(
                        isinstance(x, ast.BinOp) and isinstance(x.op, ast.Sub) and (K.kind(x.left, fi) & LINE) for x in fi.local_nodes()
                    )
                    if compensated:
                        rep.error(R3, f"{site}: {fi.name} prepends {nl} line(s) to a token's content and also does line arithmetic; compensation idiom not understood")
                    else:
                        rep.violation(R3, k, site, f"`{short(n, 60)}` prepends {nl} line(s) to the token's content while its map (the anchor passed on as `position`) is unchanged: the directive body parser strips the blank line and counts it in body_offset, so every line nested in this directive is reported {nl} too high")
                else:
                    rep.error(R3, f"{site}: `{short(n, 60)}` rewrites a token's content; cannot tell whether the number of leading lines is preserved")
    rep.expect_min(R3, 6, "shape, guard, once-only, total-shift and caller obligations of the map shifters")


# ---------------------------------------------------------------------------
# R4 no line count across a lossy '\n'.join -> splitlines round trip


def _count_source(e: ast.expr, fi: FunctionInfo, K: Kinds) -> ast.expr | None:
    """For a line-count expression ``len(X)`` return the string (or line list) expression counted."""
    if not (isinstance(e, ast.Call) and dotted(e.func) == "len" and len(e.args) == 1):
        return None
    x = e.args[0]
    if K.is_lines(x, fi):
        return x
    return None


def _string_origins(e: ast.expr, fi: FunctionInfo, corpus: Corpus, depth: int = 0, seen=None) -> set[str]:
    """Tags describing where a string / line list comes from: 'join' (through '\\n'.join), 'param:<n>', 'other'."""
    seen = seen if seen is not None else set()
    if depth > 10 or id(e) in seen:
        return set()
    seen.add(id(e))
    out: set[str] = set()
    if isinstance(e, ast.Call):
        la = _kinds(corpus).line_splitter_arg(e, fi)
        if la is not None:
            return _string_origins(la, fi, corpus, depth + 1, seen)
    if isinstance(e, ast.Call) and isinstance(e.func, ast.Attribute):
        f = e.func
        if f.attr == "join" and isinstance(f.value, ast.Constant) and f.value.value == "\n":
            return {"join"}
        if f.attr in ("splitlines", "split", "strip", "lstrip", "rstrip"):
            return _string_origins(f.value, fi, corpus, depth + 1, seen)
        return {"other"}
    if isinstance(e, ast.Subscript):
        return _string_origins(e.value, fi, corpus, depth + 1, seen)
    if isinstance(e, ast.Name):
        if _owner_of_param(fi, e.id) is not None:
            out.add(f"param:{e.id}")
        for _, v, how in _defs(fi, e.id):
            if how == "assign" and v is not None:
                out |= _string_origins(v, fi, corpus, depth + 1, seen)
        return out or {"other"}
    if isinstance(e, ast.Attribute) and isinstance(e.value, ast.Name):
        # field of a result object returned by a package function: follow the constructor argument
        g = get_callgraph(corpus)
        for _, v, how in _defs(fi, e.value.id):
            if how == "assign" and isinstance(v, ast.Call):
                for t in g.resolve_call(v, fi):
                    if isinstance(t, FunctionInfo) and not t.is_lambda:
                        out |= _field_origins(t, e.attr, corpus, depth + 1, seen)
        return out or {"other"}
    if isinstance(e, ast.Constant):
        return {"const"}
    return {"other"}


def _field_origins(callee: FunctionInfo, field: str, corpus: Corpus, depth: int, seen) -> set[str]:
    out: set[str] = set()
    for n in callee.local_nodes():
        if isinstance(n, ast.Return) and isinstance(n.value, ast.Call):
            ctor = n.value
            ci = corpus.find_class(callee.module.resolve(dotted(ctor.func) or ""))
            if ci is None:
                continue
            fields = [s.target.id for s in ci.node.body if isinstance(s, ast.AnnAssign) and isinstance(s.target, ast.Name)]
            if field not in fields:
                continue
            arg = arg_or_kw(ctor, fields.index(field), field)
            if arg is not None:
                out |= _string_origins(arg, callee, corpus, depth + 1, seen)
    return out


@rule(R4)
def r4_lossy_round_trip(corpus: Corpus, rep: Report, tier: str):
    rep.rule(R4, "no difference/sum of two line counts where one string went through '\\n'.join(lines) (which drops a trailing empty line on splitlines)")
    K = _kinds(corpus)
    d = corpus.mod("parsers.directives")
    res = d.cls("DirectiveParsingResult")
    fields = [s.target.id for s in res.node.body if isinstance(s, ast.AnnAssign) and isinstance(s.target, ast.Name)]
    if "body_offset" not in fields:
        rep.error(R4, "DirectiveParsingResult has no body_offset field")
        return
    bo_idx = fields.index("body_offset")
    n_ctor = 0
    judged: set[int] = set()

    def judge(binop: ast.BinOp, fi: FunctionInfo, role: str) -> None:
        if id(binop) in judged:
            return
        a, b = _count_source(binop.left, fi, K), _count_source(binop.right, fi, K)
        if a is None or b is None:
            return
        judged.add(id(binop))
        oa, ob = _string_origins(a, fi, corpus), _string_origins(b, fi, corpus)
        k = f"{fi.fq}|{short(binop, 70)}"
        site = fi.module.site(binop)
        same = unparse(a) == unparse(b)
        if ("join" in oa or "join" in ob) and not same:
            which = a if "join" in oa else b
            rep.violation(R4, k, site, f"`{short(binop, 60)}`{role}: `{short(which, 30)}` was rebuilt with '\\n'.join(...) and split again, which loses a trailing empty line, so the difference is one too large whenever the text ends with a blank line (e.g. a blank line before the closing fence of a directive with options)")
        else:
            rep.ok(R4, k, site, f"origins {sorted(oa)} / {sorted(ob)}")

    for fi in _funcs(corpus):
        for call in [n for n in fi.local_nodes() if isinstance(n, ast.Call)]:
            if not fi.module.resolve(dotted(call.func) or "").endswith("parsers.directives.DirectiveParsingResult"):
                continue
            n_ctor += 1
            arg = arg_or_kw(call, bo_idx, "body_offset")
            if arg is None:
                rep.error(R4, f"{fi.module.site(call)}: DirectiveParsingResult built without body_offset")
                continue
            vals = [arg]
            if isinstance(arg, ast.Name):
                vals = [v for _, v, how in _defs(fi, arg.id) if v is not None]
            found = False
            for v in vals:
                for b in [x for x in ast.walk(v) if isinstance(x, ast.BinOp) and isinstance(x.op, (ast.Add, ast.Sub))]:
                    before = len(judged)
                    judge(b, fi, " feeds DirectiveParsingResult.body_offset")
                    found = found or len(judged) > before
            k = f"{fi.fq}|body_offset = {short(arg, 40)}"
            rep.ok(R4, k, fi.module.site(call), f"{len(vals)} definition(s) examined" + ("" if found else ", none is a difference of line counts"))
    if n_ctor == 0:
        rep.error(R4, "no construction of DirectiveParsingResult found")
    # sweep: any other +/- of two line counts in the package
    for fi in _funcs(corpus):
        for n in fi.local_nodes():
            if isinstance(n, ast.BinOp) and isinstance(n.op, (ast.Add, ast.Sub)):
                judge(n, fi, "")
    # every line count taken in the anchored modules is an instance (so the rule is not vacuous once F12 is repaired)
    for fi in _funcs(corpus):
        if not fi.module.name.endswith((".parsers.directives", ".mocking", ".mdit_to_docutils.base")):
            continue
        for n in fi.local_nodes():
            if isinstance(n, ast.Call) and _count_source(n, fi, K) is not None and not (isinstance(parent(n), ast.BinOp) and id(parent(n)) in judged):
                rep.ok(R4, f"{fi.fq}|count|{short(n, 60)}", fi.module.site(n), "line count not combined with another string's count")
    rep.expect_min(R4, 3, "body_offset definitions and line counts in directives.py/mocking.py/base.py")


# ---------------------------------------------------------------------------
# R5 .source is a path; the include mock swaps and restores it

INCLUDE_RUN = "mocking:MockIncludeDirective.run"


def _path_kind(e: ast.expr | None, fi: FunctionInfo, corpus: Corpus, depth: int = 0) -> str:
    """'path' | 'nonpath' | 'unknown'."""
    if e is None or depth > 8:
        return "unknown"
    if isinstance(e, ast.Subscript) and isinstance(e.slice, ast.Constant) and e.slice.value == "source":
        return "path"
    if isinstance(e, ast.Attribute):
        if e.attr in ("source", "current_source"):
            return "path"
        if e.attr in ("content", "rawsource", "info", "markup"):
            return "nonpath"
        if e.attr == "docname":
            return "nonpath"  # a Sphinx document name: resolved by Sphinx to the *including* document, never to an included file
        if isinstance(e.value, ast.Name) and e.value.id == "self":
            # an attribute of the object itself: judged by what its class stores there
            f = fi
            while f is not None and f.cls is None:
                f = f.parent_func
            kinds = set()
            if f is not None:
                for c in corpus.mro(f.cls) + corpus.subclasses(f.cls):
                    for m in c.methods.values():
                        for n in m.local_nodes():
                            for t, tv in _assign_pairs(n):
                                if isinstance(t, ast.Attribute) and t.attr == e.attr and isinstance(t.value, ast.Name) and t.value.id == "self":
                                    kinds.add(_path_kind(tv, m, corpus, depth + 1))
                            if isinstance(n, ast.AnnAssign) and n.value is not None and isinstance(n.target, ast.Attribute) and n.target.attr == e.attr and isinstance(n.target.value, ast.Name) and n.target.value.id == "self":
                                kinds.add(_path_kind(n.value, m, corpus, depth + 1))
            if kinds == {"path"}:
                return f"cached:{e.attr}"
            if kinds and kinds <= {"nonpath"}:
                return "nonpath"
        return "unknown"
    if isinstance(e, ast.Call):
        d = dotted(e.func) or ""
        if d == "str" and len(e.args) == 1:
            a = e.args[0]
            if isinstance(a, ast.Name) and _is_path_var(a.id, fi, corpus):
                return "path"
            return "nonpath" if _path_kind(a, fi, corpus, depth + 1) != "path" else "path"
        if isinstance(e.func, ast.Attribute) and e.func.attr in ("get_source_and_line", "get_source_line", "get_source"):
            return "path"
        if d == "getattr" and len(e.args) >= 2 and isinstance(e.args[1], ast.Constant) and e.args[1].value in ("get_source_and_line",):
            return "path"
        if d.endswith(("json.dumps", "dumps")) or (isinstance(e.func, ast.Attribute) and e.func.attr in STR_CALLS):
            return "nonpath"
        # a package helper / accessor: judged by what it returns
        targets = [t for t in get_callgraph(corpus).resolve_call(e, fi) if isinstance(t, FunctionInfo) and not t.is_lambda]
        if len(targets) == 1 and depth < 4:
            rk = {_path_kind(r.value, targets[0], corpus, depth + 1) for r in targets[0].local_nodes() if isinstance(r, ast.Return) and r.value is not None}
            if len(rk) == 1:
                return next(iter(rk))
        return "unknown"
    if isinstance(e, ast.Lambda):
        b = e.body
        if isinstance(b, ast.Tuple) and b.elts:
            return _path_kind(b.elts[0], fi, corpus, depth + 1)
        return "unknown"
    if isinstance(e, (ast.JoinedStr,)) or (isinstance(e, ast.Constant) and not (e.value is None)):
        return "nonpath"
    if isinstance(e, ast.Name):
        owner = _owner_of_param(fi, e.id)
        kinds = set()
        for _, v, how in _defs(fi, e.id):
            if how == "assign" and v is not None and not (isinstance(v, ast.Name) and v.id == e.id):
                kinds.add(_path_kind(v, fi, corpus, depth + 1))
            elif how in ("loop", "other"):
                st_ = _
                tup = st_.targets[0] if isinstance(st_, ast.Assign) and isinstance(st_.targets[0], (ast.Tuple, ast.List)) else None
                if (
                    tup is not None
                    and isinstance(st_.value, ast.Call)
                    and isinstance(st_.value.func, ast.Attribute)
                    and st_.value.func.attr in ("get_source_and_line", "get_source_line")
                    and tup.elts
                    and isinstance(tup.elts[0], ast.Name)
                    and tup.elts[0].id == e.id
                ):
                    kinds.add("path")  # (source, line) = get_source_line(node)
                else:
                    kinds.add("loopvar")
        if owner is not None:
            callers = _real_callers(corpus, owner)
            for cfi, call in callers:
                arg = _arg_for(call, owner, e.id)
                if arg is None:
                    dflt = _param_default(owner, e.id)
                    if isinstance(dflt, ast.Constant) and dflt.value is None:
                        continue
                    kinds.add("unknown")
                else:
                    kinds.add(_path_kind(arg, cfi, corpus, depth + 1))
            if not callers:
                kinds.add("unknown")
        if kinds == {"path"}:
            return "path"
        cached = {k_ for k_ in kinds if k_.startswith("cached:")}
        if len(cached) == 1 and kinds <= {"path"} | cached:
            return next(iter(cached))
        if "nonpath" in kinds and (kinds <= {"nonpath", "path"} | cached or ("path" not in kinds and not cached)):
            return "nonpath"  # at least one definition that reaches the use is not a path
        return "unknown"
    return "unknown"


def _assign_pairs(n: ast.AST):
    """(target, value) pairs of an assignment; ``a, b = x, y`` is split element-wise."""
    if not isinstance(n, ast.Assign):
        return
    for t in n.targets:
        if isinstance(t, (ast.Tuple, ast.List)) and isinstance(n.value, (ast.Tuple, ast.List)) and len(t.elts) == len(n.value.elts):
            yield from zip(t.elts, n.value.elts)
        else:
            yield t, n.value


def _include_region(corpus: Corpus) -> dict | None:
    """The try/finally that brackets the include mock's nested render: directly in run(), or in a
    @contextmanager method used as ``with self.cm(...):`` around the call (the ``yield`` is the render point)."""

    def build():
        run = corpus.func(INCLUDE_RUN)
        calls = [n for n in run.local_nodes() if isinstance(n, ast.Call) and isinstance(n.func, ast.Attribute) and n.func.attr == "nested_render_text"]
        if len(calls) != 1:
            return {"run": run, "calls": len(calls)}
        call = calls[0]
        readers = {n.func.value.id for n in run.local_nodes() if isinstance(n, ast.Call) and isinstance(n.func, ast.Attribute) and n.func.attr == "read_text" and isinstance(n.func.value, ast.Name)}
        g0 = get_callgraph(corpus)
        for n in run.local_nodes():  # path handed to a private helper that reads it: self._read_file(path)
            if isinstance(n, ast.Call):
                for t in g0.resolve_call(n, run):
                    if isinstance(t, FunctionInfo) and not t.is_lambda:
                        inner = {c.func.value.id for c in t.local_nodes() if isinstance(c, ast.Call) and isinstance(c.func, ast.Attribute) and c.func.attr == "read_text" and isinstance(c.func.value, ast.Name)}
                        for pn in inner & set(t.params):
                            a_ = _arg_for(n, t, pn)
                            if isinstance(a_, ast.Name):
                                readers.add(a_.id)
        out = {"run": run, "calls": 1, "call": call, "host": run, "tr": None, "render": call, "readers": readers}
        tr = next((a for a in ancestors(call) if isinstance(a, ast.Try) and a.finalbody and any(call in ast.walk(s_) for s_ in a.body)), None)
        if tr is not None:
            out["tr"] = tr
            return out
        g = get_callgraph(corpus)
        for a in ancestors(call):
            if not isinstance(a, ast.With):
                continue
            for item in a.items:
                ce = item.context_expr
                if not isinstance(ce, ast.Call):
                    continue
                for t in g.resolve_call(ce, run):
                    if isinstance(t, FunctionInfo) and any(d.split(".")[-1] == "contextmanager" for d in t.decorators()):
                        ys = [n for n in t.local_nodes() if isinstance(n, ast.Yield)]
                        trs = [n for n in t.local_nodes() if isinstance(n, ast.Try) and n.finalbody and any(y in ast.walk(s_) for s_ in n.body for y in ys)]
                        if len(ys) == 1 and len(trs) == 1:
                            mapped = {p_ for p_ in t.params if isinstance(_arg_for(ce, t, p_), ast.Name) and _arg_for(ce, t, p_).id in readers}
                            mapped |= {n.func.value.id for n in t.local_nodes() if isinstance(n, ast.Call) and isinstance(n.func, ast.Attribute) and n.func.attr == "read_text" and isinstance(n.func.value, ast.Name)}
                            out.update(host=t, tr=trs[0], render=ys[0], readers=mapped)
                            return out
        return out

    return corpus.cache("c04-include-region", build)


def _mock_swapped_renderer_attrs(corpus: Corpus) -> set[str]:
    """Attributes of the renderer the include mock assigns inside the try around its nested render."""
    reg = _include_region(corpus)
    out: set[str] = set()
    for tr in [reg["tr"]] if reg and reg.get("tr") is not None else []:
        for s_ in tr.body:
            for n in ast.walk(s_):
                for t, _tv in _assign_pairs(n):
                    if isinstance(t, ast.Attribute) and unparse(t.value).endswith("renderer"):
                        out.add(t.attr)
    return out


def _is_path_var(name: str, fi: FunctionInfo, corpus: Corpus | None = None, depth: int = 0) -> bool:
    owner = _owner_of_param(fi, name)
    if owner is not None and not _defs(fi, name):
        for a in owner.node.args.posonlyargs + owner.node.args.args + owner.node.args.kwonlyargs:
            if a.arg == name and a.annotation is not None and "Path" in unparse(a.annotation):
                return True
        if corpus is not None and depth < 3:
            callers = _real_callers(corpus, owner)
            if callers and all(isinstance(_arg_for(c, owner, name), ast.Name) and _is_path_var(_arg_for(c, owner, name).id, cf, corpus, depth + 1) for cf, c in callers):
                return True
    for n in fi.local_nodes():
        if isinstance(n, ast.Call) and isinstance(n.func, ast.Attribute) and n.func.attr in ("read_text", "read_bytes", "open") and isinstance(n.func.value, ast.Name) and n.func.value.id == name:
            return True
    for _, v, how in _defs(fi, name):
        if how == "assign" and isinstance(v, ast.Call):
            d = dotted(v.func) or ""
            if d.split(".")[-1] in ("Path", "joinpath", "absolute", "resolve"):
                return True
            if corpus is not None and depth < 3:
                for t in get_callgraph(corpus).resolve_call(v, fi):
                    if isinstance(t, FunctionInfo) and not t.is_lambda:
                        ann = getattr(t.node, "returns", None)
                        if ann is not None and "Path" in unparse(ann):
                            return True
                        rets = [r.value for r in t.local_nodes() if isinstance(r, ast.Return) and r.value is not None]
                        if rets and all(isinstance(r, ast.Name) and _is_path_var(r.id, t, corpus, depth + 1) for r in rets):
                            return True
    return False


@rule(R5)
def r5_source_path(corpus: Corpus, rep: Report, tier: str):
    rep.rule(R5, "every store to .source / ['source'] takes a path-kind value; the include mock points source at the included file and restores the saved values in finally")
    seen: dict[str, int] = {}
    for fi in _funcs(corpus):
        for n in fi.local_nodes():
            if not isinstance(n, ast.Assign):
                continue
            for t in _store_targets(n):
                is_attr = isinstance(t, ast.Attribute) and t.attr == "source"
                is_sub = isinstance(t, ast.Subscript) and isinstance(t.slice, ast.Constant) and t.slice.value == "source" and "options" not in unparse(t.value)
                if not (is_attr or is_sub):
                    continue
                v = n.value
                # tuple targets: pick the matching element
                for tt in n.targets:
                    if isinstance(tt, (ast.Tuple, ast.List)) and t in tt.elts:
                        if isinstance(v, (ast.Tuple, ast.List)) and len(v.elts) == len(tt.elts):
                            v = v.elts[tt.elts.index(t)]
                k0 = f"{fi.fq}|{unparse(t)} = {short(v, 50)}"
                seen[k0] = seen.get(k0, 0) + 1
                k = k0 if seen[k0] == 1 else f"{k0}#{seen[k0]}"
                site = fi.module.site(n)
                pk = _path_kind(v, fi, corpus)
                if pk.startswith("cached:"):
                    attr = pk.split(":", 1)[1]
                    owner = fi
                    while owner is not None and owner.cls is None:
                        owner = owner.parent_func
                    renderer = corpus.cls("mdit_to_docutils.base:DocutilsRenderer")
                    on_renderer = owner is not None and any(c.fq == renderer.fq for c in corpus.mro(owner.cls))
                    if not on_renderer:
                        rep.error(R5, f"{site}: `{short(v, 50)}` is a path cached on {owner.cls.name if owner else '?'}; cannot tell whether it follows the include mock's swap")
                    elif attr in _mock_swapped_renderer_attrs(corpus):
                        rep.ok(R5, k, site, f"cached copy self.{attr}, swapped by the include mock as well")
                    else:
                        rep.violation(R5, k, site, f"`{short(n, 70)}` stamps a copy of the document path that the renderer cached in self.{attr}; the include mock swaps document['source'] / reporter.source for the included file but not this copy, so every node of an included file carries the including file as its source")
                elif pk == "path":
                    rep.ok(R5, k, site)
                elif pk == "nonpath":
                    rep.violation(R5, k, site, f"`{short(n, 70)}` stores a value that is not a source path (it derives from document text) in a node's source: warnings located at this node name the text instead of the file")
                else:
                    rep.error(R5, f"{site}: cannot tell whether `{short(v, 50)}` stored into {unparse(t)} is a source path")
    # warning locations: Sphinx `location=(source, line)` tuples and `source=` of system messages read the swappable document path
    for fi in _funcs(corpus):
        for n in sorted((x for x in fi.local_nodes() if isinstance(x, ast.keyword) and x.arg in ("location", "source")), key=lambda x: (x.value.lineno, x.value.col_offset)):
            callee = parent(n)
            if not isinstance(callee, ast.Call):
                continue
            alts = [n.value]
            for _round in range(4):  # conditional expressions and locals with one definition are looked through
                nxt = []
                for a in alts:
                    if isinstance(a, ast.IfExp):
                        nxt += [a.body, a.orelse]
                    elif isinstance(a, ast.Name) and n.arg == "location" and _owner_of_param(fi, a.id) is None and len(_defs(fi, a.id)) >= 1 and all(h == "assign" and v_ is not None for _s, v_, h in _defs(fi, a.id)):
                        nxt += [v_ for _s, v_, _h in _defs(fi, a.id)]
                    else:
                        nxt.append(a)
                if len(nxt) == len(alts) and all(x is y for x, y in zip(nxt, alts)):
                    break
                alts = nxt
            if n.arg == "location":
                # a node object carries its own source (its .source store is judged above); a tuple is read by Sphinx as
                # (DOCNAME, line): a path in it gets a source suffix appended ("index.md.rst:3"), a docname ignores the include swap
                tuples = [a for a in alts if isinstance(a, ast.Tuple) and a.elts]
                k_loc = f"{fi.fq}|{short(callee.func, 30)}(location=<node>)"
                if tuples:
                    first = tuples[0].elts[0]
                    pk_ = _path_kind(first, fi, corpus)
                    rep.violation(R5, f"{fi.fq}|{short(callee.func, 30)}(location={short(first, 40)})", fi.module.site(tuples[0]), f"the Sphinx logging location is the tuple `{short(tuples[0], 50)}`: Sphinx reads a tuple as (docname, line) - " + ("a source path in that place is printed with a second suffix ('/src/index.md.rst:3', a file that does not exist)" if pk_ == "path" or pk_.startswith("cached:") else "a docname is mapped to the document being read, so a warning from an included file is attributed to the including document") + "; pass a node carrying .source/.line instead")
                elif alts:
                    rep.ok(R5, k_loc, fi.module.site(n.value), "located by a node (its .source/.line stores are judged as stores)")
                continue
            elif not (_is_reporter_call(callee) or fi.module.resolve(dotted(callee.func) or "").endswith("docutils.nodes.system_message")):
                continue
            for a in alts:
                k0 = f"{fi.fq}|{short(callee.func, 30)}({n.arg}={short(a, 40)})"
                seen[k0] = seen.get(k0, 0) + 1
                k = k0 if seen[k0] == 1 else f"{k0}#{seen[k0]}"
                site = fi.module.site(a)
                pk = _path_kind(a, fi, corpus)
                if pk == "path" or (pk.startswith("cached:") and pk.split(":", 1)[1] in _mock_swapped_renderer_attrs(corpus)):
                    rep.ok(R5, k, site, "warning located at the (swappable) document path")
                elif pk == "nonpath" or pk.startswith("cached:"):
                    rep.violation(R5, k, site, f"the warning is located with `{short(a, 40)}`, which is not the document's current source path (document['source']): inside an included file the warning is attributed to the including document (a docname is mapped by Sphinx to the document being read)")
                else:
                    rep.error(R5, f"{site}: cannot tell whether the warning location `{short(a, 40)}` is the document's source path")
    # include mock: swap and restore
    reg = _include_region(corpus)
    run = reg["run"]
    if reg["calls"] != 1:
        rep.error(R5, f"MockIncludeDirective.run: expected one nested_render_text call, found {reg['calls']}")
        return
    call, tr, host, render = reg["call"], reg["tr"], reg["host"], reg["render"]
    site = run.module.site(call)
    if tr is None:
        rep.violation(R5, f"{run.fq}|nested render inside try/finally", site, "the included text is rendered outside a try/finally: an exception leaves document['source'] pointing at the included file")
        return
    readers = sorted(reg["readers"])
    swapped: dict[str, tuple[ast.Assign, ast.expr]] = {}
    for s in tr.body:
        for n in ast.walk(s):
            if isinstance(n, ast.Assign):
                for t, tv in _assign_pairs(n):
                    ut = unparse(t)
                    cache_swap = isinstance(t, ast.Attribute) and unparse(t.value).endswith("renderer") and isinstance(tv, ast.Call) and dotted(tv.func) == "str"
                    if ut.endswith(("['source']", ".source", ".get_source_and_line")) or cache_swap:
                        swapped[ut] = (n, tv)
                        if n.lineno > render.lineno:
                            rep.violation(R5, f"{run.fq}|swap precedes render|{ut}", host.module.site(n), f"{ut} is swapped after the nested render")
    need = all(any(u.endswith(sfx) for u in swapped) for sfx in ("document['source']", "reporter.source", ".get_source_and_line"))
    if not need:
        rep.violation(R5, f"{run.fq}|swaps document source, reporter source and get_source_and_line", site, f"the include mock swaps only {sorted(swapped)}: nodes/warnings of the included file would carry the including file's path")
    for ut, (n, v) in swapped.items():
        k = f"{run.fq}|swap {ut}"
        if isinstance(v, ast.Lambda) and isinstance(v.body, ast.Tuple) and v.body.elts:
            v = v.body.elts[0]
        if isinstance(v, ast.Name):  # hoisted: inc = str(path)
            one = [d for _, d, how in _defs(host, v.id) if how == "assign" and d is not None]
            if len(one) == 1 and len(_defs(host, v.id)) == 1:
                v = one[0]
        is_inc = isinstance(v, ast.Call) and dotted(v.func) == "str" and len(v.args) == 1 and isinstance(v.args[0], ast.Name) and v.args[0].id in readers
        if is_inc:
            rep.ok(R5, k, run.module.site(n), "str(<path the text was read from>)")
        else:
            rep.violation(R5, k, run.module.site(n), f"during the nested render {ut} is set to `{short(v, 50)}`, which is not the path the included file was read from ({readers})")
        # restore in finally from a name saved before the try
        restored = rvalue = None
        for s in tr.finalbody:
            for m in ast.walk(s):
                for t, tv in _assign_pairs(m):
                    if unparse(t) == ut:
                        restored, rvalue = m, tv
        k = f"{run.fq}|restore {ut}"
        if restored is None or not isinstance(rvalue, ast.Name):
            rep.violation(R5, k, run.module.site(tr), f"{ut} is not restored in the finally block: everything after the include directive reports the included file as its source")
            continue
        saved = [(m, tv) for m in host.local_nodes() for t, tv in _assign_pairs(m) if isinstance(t, ast.Name) and t.id == rvalue.id]
        ok = len(saved) == 1 and saved[0][0].lineno < tr.lineno and (
            unparse(saved[0][1]) == ut or (isinstance(saved[0][1], ast.Call) and dotted(saved[0][1].func) == "getattr" and ut.endswith("." + str(getattr(saved[0][1].args[1], "value", ""))) and unparse(saved[0][1].args[0]) == ut.rsplit(".", 1)[0])
        )
        if ok:
            rep.ok(R5, k, run.module.site(restored), f"from `{rvalue.id}` saved before the try")
        else:
            rep.violation(R5, k, run.module.site(restored), f"{ut} is restored from `{rvalue.id}`, which is not the value of {ut} saved before the try")
    rep.expect_min(R5, 10, ".source stores and the include mock's swap/restore pairs")


# ---------------------------------------------------------------------------
# R6 body / body_offset pairing: the offset is the number of content lines before body[0]


def _stmt_list_of(st: ast.stmt):
    p = parent(st)
    for fld in ("body", "orelse", "finalbody"):
        lst = getattr(p, fld, None)
        if isinstance(lst, list) and st in lst:
            return (id(p), fld), p
    return (id(p), "?"), p


def _enclosing_stmt(n: ast.AST) -> ast.stmt:
    while not isinstance(n, ast.stmt):
        n = parent(n)
    return n


def _int_const(e: ast.expr) -> int | None:
    if isinstance(e, ast.Constant) and isinstance(e.value, int) and not isinstance(e.value, bool):
        return e.value
    if isinstance(e, ast.UnaryOp) and isinstance(e.op, ast.USub) and isinstance(e.operand, ast.Constant) and isinstance(e.operand.value, int):
        return -e.operand.value
    return None


def _head_edits(fi: FunctionInfo, B: str):
    """(stmt, kind, amount text) for every statement that changes the head of list ``B``; kind = drop | prepend | init | unknown."""
    out = []
    for n in fi.local_nodes():
        if isinstance(n, ast.Assign) and any(isinstance(t, ast.Name) and t.id == B for t in n.targets):
            v = n.value
            refs = any(isinstance(x, ast.Name) and x.id == B for x in ast.walk(v))
            if not refs:
                out.append((n, "init", ""))
            elif isinstance(v, ast.Subscript) and isinstance(v.value, ast.Name) and v.value.id == B and isinstance(v.slice, ast.Slice) and v.slice.lower is not None and v.slice.upper is None and v.slice.step is None:
                out.append((n, "drop", unparse(v.slice.lower)))
            elif isinstance(v, ast.Subscript) and isinstance(v.value, ast.Name) and v.value.id == B and isinstance(v.slice, ast.Slice) and v.slice.lower is None:
                pass  # tail trimmed only
            elif isinstance(v, ast.BinOp) and isinstance(v.op, ast.Add) and isinstance(v.right, ast.Name) and v.right.id == B and isinstance(v.left, ast.List) and not any(isinstance(e, ast.Starred) for e in v.left.elts):
                out.append((n, "prepend", str(len(v.left.elts))))
            elif isinstance(v, ast.BinOp) and isinstance(v.op, ast.Add) and isinstance(v.left, ast.Name) and v.left.id == B:
                pass  # appended at the tail
            elif isinstance(v, ast.List) and v.elts and isinstance(v.elts[-1], ast.Starred) and isinstance(v.elts[-1].value, ast.Name) and v.elts[-1].value.id == B and not any(isinstance(e, ast.Starred) for e in v.elts[:-1]):
                out.append((n, "prepend", str(len(v.elts) - 1)))
            else:
                out.append((n, "unknown", ""))
        elif isinstance(n, ast.Delete):
            for t in n.targets:
                if isinstance(t, ast.Subscript) and isinstance(t.value, ast.Name) and t.value.id == B:
                    if _int_const(t.slice) == 0:
                        out.append((n, "drop", "1"))
                    elif isinstance(t.slice, ast.Slice) and t.slice.lower is None and t.slice.upper is not None and t.slice.step is None:
                        out.append((n, "drop", unparse(t.slice.upper)))
                    elif _int_const(t.slice) == -1:
                        pass
                    else:
                        out.append((n, "unknown", ""))
        elif isinstance(n, ast.Call) and isinstance(n.func, ast.Attribute) and isinstance(n.func.value, ast.Name) and n.func.value.id == B:
            m = n.func.attr
            st = _enclosing_stmt(n)
            if m == "pop" and n.args and _int_const(n.args[0]) == 0:
                out.append((st, "drop", "1"))
            elif m == "insert" and n.args and _int_const(n.args[0]) == 0:
                out.append((st, "prepend", "1"))
            elif m in ("insert", "remove", "clear", "reverse", "sort") or (m == "pop" and n.args and _int_const(n.args[0]) != -1):
                out.append((st, "unknown", ""))
        elif isinstance(n, ast.AugAssign) and isinstance(n.target, ast.Name) and n.target.id == B and not isinstance(n.op, ast.Add):
            out.append((n, "unknown", ""))
    return out


def _offset_edits(fi: FunctionInfo, O: str):
    """(stmt, kind, amount) with kind = adv (relative, amount text) | set (absolute int) | init."""
    out = []
    for n in fi.local_nodes():
        if isinstance(n, ast.AugAssign) and isinstance(n.target, ast.Name) and n.target.id == O:
            if isinstance(n.op, ast.Add):
                out.append((n, "adv", unparse(n.value)))
            elif isinstance(n.op, ast.Sub):
                out.append((n, "adv", "-" + unparse(n.value) if _int_const(n.value) is None else str(-_int_const(n.value))))
            else:
                out.append((n, "unknown", ""))
        elif isinstance(n, ast.Assign) and any(isinstance(t, ast.Name) and t.id == O for t in n.targets):
            v = n.value
            c = _int_const(v)
            if c is not None:
                out.append((n, "set", c))
            elif isinstance(v, ast.BinOp) and isinstance(v.op, (ast.Add, ast.Sub)) and isinstance(v.left, ast.Name) and v.left.id == O:
                k = unparse(v.right)
                if isinstance(v.op, ast.Sub):
                    k = str(-_int_const(v.right)) if _int_const(v.right) is not None else "-" + k
                out.append((n, "adv", k))
            elif any(isinstance(x, ast.Name) and x.id == O for x in ast.walk(v)):
                out.append((n, "unknown", ""))
            else:
                out.append((n, "init", ""))
    return out


@rule(R6)
def r6_body_offset_pairing(corpus: Corpus, rep: Report, tier: str):
    rep.rule(R6, "wherever leading lines are removed from / put in front of the directive body, body_offset moves by the same number of lines in the same block")
    d = corpus.mod("parsers.directives")
    res = d.cls("DirectiveParsingResult")
    fields = [s.target.id for s in res.node.body if isinstance(s, ast.AnnAssign) and isinstance(s.target, ast.Name)]
    if "body" not in fields or "body_offset" not in fields:
        rep.error(R6, "DirectiveParsingResult has no body / body_offset field")
        return
    n_ctor = 0
    for fi in _funcs(corpus):
        for call in [n for n in fi.local_nodes() if isinstance(n, ast.Call)]:
            if not fi.module.resolve(dotted(call.func) or "").endswith("parsers.directives.DirectiveParsingResult"):
                continue
            n_ctor += 1
            b = arg_or_kw(call, fields.index("body"), "body")
            o = arg_or_kw(call, fields.index("body_offset"), "body_offset")
            if not (isinstance(b, ast.Name) and isinstance(o, ast.Name)):
                rep.error(R6, f"{fi.module.site(call)}: body / body_offset of DirectiveParsingResult are not plain local names; pairing not understood")
                continue
            _judge_pairing(corpus, rep, fi, b.id, o.id, 0)
    if n_ctor == 0:
        rep.error(R6, "no construction of DirectiveParsingResult found")
    rep.expect_min(R6, 2, "head edits of the directive body in parse_directive_text (blank-line strip, first-line insert)")


def _judge_pairing(corpus: Corpus, rep: Report, fi: FunctionInfo, B: str, O: str, depth: int) -> None:
    """Pair the head edits of list ``B`` with the moves of offset ``O`` inside ``fi`` (helpers that take and return both are followed)."""
    g = get_callgraph(corpus)
    ko = _key_owner(corpus, fi).fq
    if True:
        if True:
            # `B, O = helper(B, O, ...)`: the pairing is judged inside the helper
            for n in fi.local_nodes():
                if not (isinstance(n, ast.Assign) and len(n.targets) == 1 and isinstance(n.targets[0], (ast.Tuple, ast.List))):
                    continue
                names = [e.id if isinstance(e, ast.Name) else None for e in n.targets[0].elts]
                if B not in names and O not in names:
                    continue
                ok = False
                if B in names and O in names and isinstance(n.value, ast.Call) and depth < 2:
                    hs = [t for t in g.resolve_call(n.value, fi) if isinstance(t, FunctionInfo) and not t.is_lambda]
                    if len(hs) == 1:
                        h = hs[0]
                        pb = [p for p in h.params if isinstance(_arg_for(n.value, h, p), ast.Name) and _arg_for(n.value, h, p).id == B]
                        po = [p for p in h.params if isinstance(_arg_for(n.value, h, p), ast.Name) and _arg_for(n.value, h, p).id == O]
                        rets = [r for r in h.local_nodes() if isinstance(r, ast.Return)]
                        shape = bool(rets) and all(
                            isinstance(r.value, ast.Tuple) and len(r.value.elts) == len(names) and len(pb) == 1 and len(po) == 1
                            and unparse(r.value.elts[names.index(B)]) == pb[0] and unparse(r.value.elts[names.index(O)]) == po[0]
                            for r in rets
                        )
                        if shape:
                            _judge_pairing(corpus, rep, h, pb[0], po[0], depth + 1)
                            ok = True
                if not ok:
                    rep.error(R6, f"{fi.module.site(n)}: `{short(n, 60)}` rebinds the body and/or its offset from a call; pairing not understood")
            be, oe = _head_edits(fi, B), _offset_edits(fi, O)
            for st, kind, _ in be + oe:
                if kind == "unknown":
                    rep.error(R6, f"{fi.module.site(st)}: `{short(st, 60)}` changes `{B if (st, kind, _) in be else O}` in a way the pairing rule does not understand")
            if any(kind == "unknown" for _, kind, _ in be + oe):
                return
            by_list_o: dict = {}
            for st, kind, amt in oe:
                by_list_o.setdefault(_stmt_list_of(st)[0], []).append((st, kind, amt))
            by_list_b: dict = {}
            for st, kind, amt in be:
                by_list_b.setdefault(_stmt_list_of(st)[0], []).append((st, kind, amt))
            reported_o: set[int] = set()
            for st, kind, amt in be:
                lk, _p = _stmt_list_of(st)
                sibs = by_list_o.get(lk, [])
                site = fi.module.site(st)
                if kind == "init":
                    continue
                if kind == "drop":
                    advs = [(s2, a2) for s2, k2, a2 in sibs if k2 == "adv"]
                    k = f"{ko}|{short(st, 50)} ~ {short(advs[0][0], 40) if advs else 'no offset update in the same block'}"
                    if len(advs) == 1 and advs[0][1] == amt and not any(k2 == "set" for _, k2, _ in sibs):
                        rep.ok(R6, k, site, f"{amt} leading line(s) removed, offset advanced by {advs[0][1]}")
                        reported_o.add(id(advs[0][0]))
                    elif advs:
                        for s2, _a in advs:
                            reported_o.add(id(s2))
                        rep.violation(R6, k, site, f"`{short(st, 50)}` removes {amt} leading body line(s) but the offset moves by {', '.join(a for _, a in advs)} in the same block: every line of the body is reported {'' if len(advs) > 1 else 'off by the difference'}")
                    else:
                        # an update further out (the removal sits in a loop / branch of its own)?
                        outer = [(s2, a2) for s2, k2, a2 in oe if k2 == "adv" and any(a is s2 or (_stmt_list_of(s2)[0] == _stmt_list_of(a)[0]) for a in ancestors(st) if isinstance(a, ast.stmt))]
                        loops = [a for a in ancestors(st) if isinstance(a, (ast.While, ast.For))]
                        outer = [(s2, a2) for s2, a2 in outer if not any(s2 in ast.walk(lp) for lp in loops[:1])] if loops else outer
                        if outer:
                            for s2, _a in outer:
                                reported_o.add(id(s2))
                            how = "inside a loop (any number of lines)" if loops else "in a nested branch"
                            rep.violation(R6, f"{ko}|{short(st, 50)} ~ {short(outer[0][0], 40)} outside its block", site, f"`{short(st, 50)}` removes leading body lines {how} while `{short(outer[0][0], 40)}` runs once outside it: with more lines removed than counted, every nested line is reported too low")
                        else:
                            rep.violation(R6, k, site, f"`{short(st, 50)}` removes {amt} leading body line(s) and body_offset is not advanced: every nested line is reported {amt} too low")
                elif kind == "prepend":
                    sets = [(s2, a2) for s2, k2, a2 in sibs if k2 == "set"]
                    advs = [(s2, a2) for s2, k2, a2 in sibs if k2 == "adv"]
                    partner = (sets or advs or [(None, None)])[0]
                    k = f"{ko}|{short(st, 50)} ~ {short(partner[0], 40) if partner[0] is not None else 'no offset update in the same block'}"
                    for s2, _a in sets + advs:
                        reported_o.add(id(s2))
                    want = -int(amt)
                    if len(sets) == 1 and not advs and sets[0][1] == want:
                        rep.ok(R6, k, site, f"the line put in front is the directive line itself: offset {want}")
                    elif len(advs) == 1 and not sets and advs[0][1] == str(want):
                        rep.ok(R6, k, site, f"offset moved by {want}")
                    elif sets and not advs:
                        rep.violation(R6, k, site, f"`{short(st, 50)}` puts the text of the directive line in front of the body, so body[0] lies {amt} line(s) BEFORE the first content line and the offset must be {want}; `{short(sets[0][0], 40)}` makes the nested parse report the first-line text and everything after it {sets[0][1] - want} line(s) too high")
                    else:
                        rep.violation(R6, k, site, f"`{short(st, 50)}` puts {amt} line(s) in front of the body without moving body_offset back by {amt}")
            for st, kind, amt in oe:
                if id(st) in reported_o or kind == "init":
                    continue
                lk, _p = _stmt_list_of(st)
                sib_b = by_list_b.get(lk, [])
                if kind == "set" and any(k2 == "init" for _, k2, _ in sib_b):
                    continue  # initialisation next to the initial split of the content
                k = f"{ko}|{short(st, 50)} ~ no change of the body head in the same block"
                if kind == "adv":
                    rep.violation(R6, k, fi.module.site(st), f"`{short(st, 50)}` moves body_offset although no leading line is removed from `{B}` in the same block")
                else:
                    rep.error(R6, f"{fi.module.site(st)}: `{short(st, 50)}` resets body_offset outside an initialisation or a prepend; not understood")


# ---------------------------------------------------------------------------
# R7 START convention: every cut from the head of the included text is counted in the line argument


def _names(e: ast.AST | None) -> set[str]:
    return {x.id for x in ast.walk(e) if isinstance(x, ast.Name)} if e is not None else set()


def _head_cuts(value: ast.expr, T: str, K: "Kinds", fi: FunctionInfo, _depth: int = 0) -> list[tuple[str, ast.expr]]:
    """Head slices of text/lines ``T`` inside ``value``: [(kind 'lines'|'chars', lower bound)]."""
    out = []
    for n in ast.walk(value):
        if isinstance(n, ast.Subscript) and isinstance(n.slice, ast.Slice) and n.slice.lower is not None:
            base = n.value
            if isinstance(base, ast.Call) and isinstance(base.func, ast.Attribute) and base.func.attr in ("splitlines", "split") and isinstance(base.func.value, ast.Name) and base.func.value.id == T:
                out.append(("lines", n.slice.lower))
            elif isinstance(base, ast.Call) and isinstance(base.func, ast.Name) and len(base.args) == 1 and isinstance(base.args[0], ast.Name) and base.args[0].id == T and not base.keywords:
                out.append(("lines", n.slice.lower))  # a line-splitting helper: split_lines(T)[a:b]
            elif isinstance(base, ast.Name) and base.id == T:
                out.append(("lines" if K.is_lines(base, fi) and not K.is_str(base, fi) else "chars", n.slice.lower))
            elif isinstance(base, ast.Name) and _owner_of_param(fi, base.id) is None:
                # the lines of T kept in a local first:  lines = split_lines(T) ... lines[a:b]
                ds = [v for _s, v, how in _defs(fi, base.id) if how == "assign" and v is not None]
                if ds and len(ds) == len(_defs(fi, base.id)) and all(
                    isinstance(v, ast.Call)
                    and (
                        (isinstance(v.func, ast.Attribute) and v.func.attr in ("splitlines", "split") and isinstance(v.func.value, ast.Name) and v.func.value.id == T)
                        or (isinstance(v.func, ast.Name) and len(v.args) == 1 and not v.keywords and isinstance(v.args[0], ast.Name) and v.args[0].id == T)
                    )
                    for v in ds
                ):
                    out.append(("lines", n.slice.lower))
    if not out and _depth < 1:
        # T = "\n".join(L)  with  L = <lines of T>[a:b]
        for nm in sorted(_names(value) - {T}):
            if _owner_of_param(fi, nm) is None:
                ds = [v for _s, v, how in _defs(fi, nm) if how == "assign" and v is not None]
                if len(ds) == 1 and len(_defs(fi, nm)) == 1 and T in _names(ds[0]):
                    out += [c for c in _head_cuts(ds[0], T, K, fi, _depth + 1) if c[0] == "lines"]
    return out


@rule(R7)
def r7_start_accumulator(corpus: Corpus, rep: Report, tier: str):
    rep.rule(R7, "START convention: the count of lines cut from the head of the text (start-line slice, start-after cut) flows additively into the line argument; no later assignment forgets it")
    K = _kinds(corpus)
    n_sites = 0
    for (sink_name, caller_fq), (conv, _why) in NRT_CONVENTION.items():
        if conv != START:
            continue
        fi = corpus.func(caller_fq.replace("myst_parser.", "", 1))
        sink_fq = next(fq for fq in LINE_SINKS if fq.endswith("." + sink_name))
        idx, kwname = LINE_SINKS[sink_fq]
        for call in sorted((n for n in fi.local_nodes() if isinstance(n, ast.Call) and isinstance(n.func, ast.Attribute) and n.func.attr == sink_name), key=lambda c: c.lineno):
            n_sites += 1
            arg = arg_or_kw(call, idx, kwname)
            text = arg_or_kw(call, 0, "text" if sink_name == "nested_render_text" else "content")
            site = fi.module.site(call)
            base_k = f"{fi.fq}|{sink_name}|start count"
            vnames = _names(arg)
            if not vnames:
                rep.ok(R7, base_k, site, f"constant `{short(arg, 20) if arg is not None else '?'}`: nothing is cut from the text")
                continue
            if not (len(vnames) == 1 and isinstance(text, ast.Name)):
                rep.error(R7, f"{site}: the START call does not pass one text name and a line argument built from one name; accumulator not understood")
                continue
            V, T = next(iter(vnames)), text.id  # `startline`, also inside `startline + k` (the constant is R2's business)

            def judge(fi: FunctionInfo, V: str, T: str, sink_stmts: list, depth: int = 0) -> None:
                """Cuts of text ``T`` / definitions of accumulator ``V`` in ``fi``; `T, V = helper(...)` is followed into the helper."""
                for n_ in fi.local_nodes():
                    if isinstance(n_, ast.Assign) and len(n_.targets) == 1 and isinstance(n_.targets[0], (ast.Tuple, ast.List)):
                        nm_ = [e.id if isinstance(e, ast.Name) else None for e in n_.targets[0].elts]
                        if V not in nm_ and T not in nm_:
                            continue
                        if T not in nm_ and isinstance(n_.value, ast.Call) and isinstance(n_.value.func, ast.Attribute) and n_.value.func.attr == "indices":
                            continue  # start, stop, _ = slice(...).indices(n): read as V = <call>[0] by _defs
                        done_ = False
                        if V in nm_ and T in nm_ and isinstance(n_.value, ast.Call) and depth < 2:
                            hs = [t for t in get_callgraph(corpus).resolve_call(n_.value, fi) if isinstance(t, FunctionInfo) and not t.is_lambda]
                            if len(hs) == 1:
                                rets = [r for r in hs[0].local_nodes() if isinstance(r, ast.Return)]
                                if rets and all(isinstance(r.value, ast.Tuple) and len(r.value.elts) == len(nm_) and isinstance(r.value.elts[nm_.index(V)], ast.Name) and isinstance(r.value.elts[nm_.index(T)], ast.Name) for r in rets):
                                    pairs_ = {(r.value.elts[nm_.index(V)].id, r.value.elts[nm_.index(T)].id) for r in rets}
                                    if len(pairs_) == 1:
                                        hv, ht = next(iter(pairs_))
                                        judge(hs[0], hv, ht, [get_cfg(hs[0]).stmt_of(r) for r in rets], depth + 1)
                                        done_ = True
                        if not done_:
                            rep.error(R7, f"{fi.module.site(n_)}: `{short(n_, 60)}` rebinds the text and/or its skipped-lines count from a call; not understood")
                cfg = get_cfg(fi)
                defs_v = _defs(fi, V)
                cuts = []
                for st, v, how in _defs(fi, T):
                    if how == "assign" and v is not None and st is not None:
                        for kind, lower in _head_cuts(v, T, K, fi):
                            cuts.append((st, kind, lower))
                        # T = after, where  before, found, after = T.partition(sep)  /  before, after = T.split(sep, 1)
                        if isinstance(v, ast.Name):
                            for pa in fi.local_nodes():
                                if not (isinstance(pa, ast.Assign) and len(pa.targets) == 1 and isinstance(pa.targets[0], (ast.Tuple, ast.List)) and isinstance(pa.value, ast.Call) and isinstance(pa.value.func, ast.Attribute)):
                                    continue
                                el = pa.targets[0].elts
                                m_ = pa.value.func.attr
                                recv = pa.value.func.value
                                if not (isinstance(recv, ast.Name) and recv.id == T and all(isinstance(e_, ast.Name) for e_ in el)):
                                    continue
                                if m_ == "partition" and len(el) == 3 and el[2].id == v.id and pa.value.args:
                                    cuts.append((st, "partition", (el[0].id, el[1].id, pa.value.args[0])))
                                elif m_ == "split" and len(el) == 2 and el[1].id == v.id and len(pa.value.args) == 2:
                                    cuts.append((st, "partition", (el[0].id, None, pa.value.args[0])))
                        for c in ast.walk(v):
                            if isinstance(c, ast.Call) and isinstance(c.func, ast.Attribute) and c.func.attr in ("strip", "lstrip") and isinstance(c.func.value, ast.Name) and c.func.value.id == T:
                                chars = c.args[0].value if c.args and isinstance(c.args[0], ast.Constant) and isinstance(c.args[0].value, str) else None
                                if not c.args or chars is None or "\n" in chars:
                                    rep.violation(R7, f"{_key_owner(corpus, fi).fq}|{sink_name}|strips {short(st, 60)}", fi.module.site(st), f"`{short(st, 60)}` strips leading blank lines from the text; their number is not added to `{V}`, so the rest of the file is reported too low")
                reported: set[int] = set()
                for st, kind, lower in cuts:
                    ln = _names(lower) if kind != "partition" else set()
                    k = f"{_key_owner(corpus, fi).fq}|{sink_name}|cut {short(st, 60)}"
                    csite = fi.module.site(st)

                    def partners_of(st=st):
                        _lk, _p = _stmt_list_of(st)
                        feeders = {V} | {nm for _, v, _h in defs_v for nm in _names(v)}
                        out_ = []
                        for sib in getattr(_p, _lk[1], []):
                            tgt = sib.target if isinstance(sib, ast.AugAssign) else (sib.targets[0] if isinstance(sib, ast.Assign) and len(sib.targets) == 1 else None)
                            if sib is not st and isinstance(tgt, ast.Name) and tgt.id in feeders and tgt.id != T:
                                out_.append(sib)
                        return out_

                    def names_star(e_) -> set[str]:
                        nm_ = _names(e_)
                        for x_ in list(nm_):
                            if _owner_of_param(fi, x_) is None:
                                for _s, v_, h_ in _defs(fi, x_):
                                    if h_ == "assign" and v_ is not None:
                                        nm_ |= _names(v_)
                        return nm_

                    if kind == "partition":
                        b_, f_, sep_ = lower
                        ps = partners_of()
                        if not ps:
                            rep.violation(R7, k, csite, f"`{short(st, 60)}` keeps only the text after the marker but nothing in the same block adds the number of cut lines to `{V}`: the rest of the file is reported too low")
                        else:
                            ns = names_star(ps[0].value)
                            sep_names = _names(sep_) | ({f_} if f_ else set())
                            if (b_ in ns and (ns & sep_names)) or (T in ns and isinstance(st.value, ast.Name) and st.value.id in ns):
                                rep.ok(R7, k, csite, f"text before the marker and the marker itself are counted in `{short(ps[0], 50)}`")
                            elif b_ in ns:
                                rep.violation(R7, k, csite, f"`{short(st, 60)}` drops the text before the marker AND the marker `{short(sep_, 20)}` itself, but `{short(ps[0], 50)}` counts only the lines of the part before it: a marker that contains a line break makes every following line one too low")
                            else:
                                rep.error(R7, f"{csite}: cannot see which part of the partitioned text `{short(ps[0], 50)}` counts")
                    elif kind == "lines":
                        flows = V in ln or any(v is not None and (ln & _names(v)) for _, v, _h in defs_v)
                        if flows:
                            rep.ok(R7, k, csite, f"{short(lower, 30)} leading line(s) cut and carried in `{V}`")
                            # a slice bound taken from an int option can be negative (counts from the end of the file): the number
                            # of skipped lines is then the normalised index, not the raw value
                            from_option = any(
                                isinstance(c_, ast.Call) and isinstance(c_.func, ast.Attribute) and c_.func.attr == "get" and c_.args and isinstance(c_.args[0], ast.Constant) and c_.args[0].value in LINE_OPTIONS
                                for nm_ in ln
                                for _s, v_, _h in _defs(fi, nm_)
                                if v_ is not None
                                for c_ in ast.walk(v_)
                            )
                            if from_option:
                                kn = f"{_key_owner(corpus, fi).fq}|{sink_name}|negative {short(lower, 20)} normalised"
                                norm = None
                                live_defs = [(d_, v_, h_) for d_, v_, h_ in defs_v if d_ is None or not isinstance(d_, ast.stmt) or any(sk in cfg.reachable_from(d_) for sk in sink_stmts)]
                                for d_, v_, h_ in live_defs:
                                    if v_ is None or d_ is None:
                                        continue
                                    for c_ in ast.walk(v_):
                                        # slice(a, b).indices(len(lines))[0]
                                        if isinstance(c_, ast.Subscript) and isinstance(c_.value, ast.Call) and isinstance(c_.value.func, ast.Attribute) and c_.value.func.attr == "indices":
                                            ic = c_.value
                                            sl_ = ic.func.value
                                            good_len = bool(ic.args) and isinstance(ic.args[0], ast.Call) and dotted(ic.args[0].func) == "len" and ic.args[0].args and K.is_lines(ic.args[0].args[0], fi)
                                            if good_len and isinstance(ic.args[0].args[0], ast.Name):
                                                # ... of the whole file: the list measured is not one that was already sliced
                                                if any(isinstance(x_, ast.Subscript) and isinstance(x_.slice, ast.Slice) for _s2, v2_, _h2 in _defs(fi, ic.args[0].args[0].id) if v2_ is not None for x_ in ast.walk(v2_)):
                                                    good_len = False
                                            good_slice = isinstance(sl_, ast.Call) and dotted(sl_.func) == "slice" and sl_.args and (_names(sl_.args[0]) & ln) and len(sl_.args) >= 2
                                            idx0 = isinstance(c_.slice, ast.Constant) and c_.slice.value == 0
                                            norm = ("ok", d_) if (good_len and good_slice and idx0) else ("bad", d_, "the start index is `slice(start, stop).indices(number of lines of the file)[0]`" + ("" if idx0 else "; element [0], not " + unparse(c_.slice)) + ("" if good_len else "; the length must be the number of LINES of the WHOLE file (not of text / an already sliced list)") + ("" if good_slice else "; the slice must be built from the start-line option (and the end)"))
                                    # if V < 0: V = max(len(lines) + V, 0)
                                    gs = [unparse(t_) for t_, pol in get_cfg(fi).guards(d_) if pol] if isinstance(d_, ast.stmt) else []
                                    if norm is None and any(g_.replace(" ", "") in (f"{V}<0", *(f"{n_}<0" for n_ in ln)) for g_ in gs):
                                        has_len = any(isinstance(c_, ast.Call) and dotted(c_.func) == "len" and c_.args and K.is_lines(c_.args[0], fi) for c_ in ast.walk(v_))
                                        norm = ("ok", d_) if has_len and (V in _names(v_) or ln & _names(v_)) else ("bad", d_, "under the `< 0` guard the count must become number-of-lines + start-line")
                                if norm is None:
                                    plain = all(v_ is None or isinstance(v_, (ast.BoolOp, ast.IfExp, ast.Name)) or (isinstance(v_, ast.Call) and isinstance(v_.func, ast.Attribute) and v_.func.attr == "get") for _d, v_, _h in live_defs if _h == "assign")
                                    if plain:
                                        rep.violation(R7, kn, csite, f"`{short(st, 60)}` slices with Python semantics (a negative `{short(lower, 20)}` counts from the end of the file) but `{V}` keeps the raw option value as the number of skipped lines: ':start-line: -4' on a 10-line file stamps the included paragraphs with lines -2 and 0")
                                    else:
                                        rep.error(R7, f"{csite}: cannot tell whether `{V}` is normalised for a negative `{short(lower, 20)}`")
                                elif norm[0] == "ok":
                                    rep.ok(R7, kn, fi.module.site(norm[1]), "index of the first included line, also for a negative option")
                                else:
                                    rep.violation(R7, kn, fi.module.site(norm[1]), f"`{short(norm[1], 70)}` does not turn a negative `{short(lower, 20)}` into the number of skipped lines: {norm[2]}")
                        else:
                            rep.violation(R7, k, csite, f"`{short(st, 60)}` cuts {short(lower, 30)} leading line(s) from the text but `{V}` (the line argument) never receives that count: every line of the included text is reported too low")
                    else:
                        lk, _p = _stmt_list_of(st)
                        feeders = {V} | {nm for _, v, _h in defs_v for nm in _names(v)}
                        partners = []
                        for sib in getattr(_p, _stmt_list_of(st)[0][1], []):
                            tgt = sib.target if isinstance(sib, ast.AugAssign) else (sib.targets[0] if isinstance(sib, ast.Assign) and len(sib.targets) == 1 else None)
                            if sib is not st and isinstance(tgt, ast.Name) and tgt.id in feeders and tgt.id != T:
                                partners.append(sib)
                        short_count = None
                        for pr in partners:
                            for sl in ast.walk(pr.value):
                                if isinstance(sl, ast.Subscript) and isinstance(sl.value, ast.Name) and sl.value.id == T and isinstance(sl.slice, ast.Slice) and sl.slice.lower is None and sl.slice.upper is not None:
                                    def expand1(e_):
                                        if isinstance(e_, ast.Name) and _owner_of_param(fi, e_.id) is None:
                                            ds_ = [v_ for _s, v_, h_ in _defs(fi, e_.id) if h_ == "assign" and v_ is not None]
                                            if len(ds_) == 1 and len(_defs(fi, e_.id)) == 1:
                                                return ds_[0]
                                        return e_

                                    up_, lo_ = expand1(sl.slice.upper), expand1(lower)
                                    if unparse(up_) != unparse(lo_) and not (_names(up_) >= (_names(lo_) - {"len"})):
                                        short_count = (pr, sl)
                        if short_count is not None:
                            rep.violation(R7, k, csite, f"`{short(st, 60)}` cuts the text at `{short(lower, 40)}` but `{short(short_count[0], 50)}` counts the lines of the shorter prefix `{short(short_count[1], 40)}`: line breaks in the remainder of the cut part (the marker) are not counted")
                        elif partners:
                            rep.ok(R7, k, csite, f"character cut paired with `{short(partners[0], 50)}`")
                        else:
                            rep.violation(R7, k, csite, f"`{short(st, 60)}` cuts a prefix off the text but nothing in the same block adds the number of cut lines to `{V}`: the rest of the file is reported too low")
                    # a plain re-assignment of V between this cut and the sink forgets the lines counted so far
                    reach = cfg.reachable_from(st)
                    for d, v, how in defs_v:
                        if how != "assign" or d is None or v is None or id(d) in reported or d is st:
                            continue
                        nm = _names(v)
                        if V in nm or (kind == "lines" and (ln & nm)):
                            continue
                        if d in reach and any(sk in cfg.reachable_from(d) for sk in sink_stmts):
                            reported.add(id(d))
                            rep.violation(R7, f"{_key_owner(corpus, fi).fq}|{sink_name}|overwrites {short(d, 60)}", fi.module.site(d), f"`{short(d, 60)}` assigns `{V}` afresh after `{short(st, 50)}` already cut lines from the head of the text: the lines skipped before are forgotten (use `{V} += ...`), so the included text is reported too low when both cuts apply")
            judge(fi, V, T, [get_cfg(fi).stmt_of(call)])
    if n_sites == 0:
        rep.error(R7, "no START-convention call site found")
    rep.expect_min(R7, 3, "START call sites and head cuts of the included text (start-line slice, start-after cut)")


# ---------------------------------------------------------------------------
# R8 a result computed from a line is not replayed from a cache whose key omits that line


def _local_container(fi: FunctionInfo, e: ast.expr) -> bool:
    """Is the subscripted/looked-up container a fresh local of this function (so it cannot outlive the call)?"""
    if isinstance(e, ast.Name):
        ds = _defs(fi, e.id)
        return bool(ds) and _owner_of_param(fi, e.id) is None and all(
            how == "assign" and isinstance(v, (ast.Dict, ast.DictComp, ast.List, ast.Call)) and not (isinstance(v, ast.Call) and isinstance(v.func, ast.Attribute)) for _s, v, how in ds
        )
    return False


@rule(R8)
def r8_line_free_cache(corpus: Corpus, rep: Report, tier: str):
    rep.rule(R8, "a value computed from a source line (warnings, nodes, parse results) is never stored in a long-lived mapping under a key that omits that line")
    K = _kinds(corpus)
    g = get_callgraph(corpus)
    n = 0
    for fi in _funcs(corpus):
        stores: list[tuple[ast.AST, ast.expr, ast.expr, ast.expr]] = []  # (stmt, container, key, value)
        for x in fi.local_nodes():
            if isinstance(x, ast.Assign):
                for t, tv in _assign_pairs(x):
                    if isinstance(t, ast.Subscript) and not isinstance(t.slice, ast.Slice):
                        stores.append((x, t.value, t.slice, tv))
            elif isinstance(x, ast.Call) and isinstance(x.func, ast.Attribute) and x.func.attr == "setdefault" and len(x.args) == 2:
                stores.append((x, x.func.value, x.args[0], x.args[1]))
        for st, cont, key, val in stores:
            if _local_container(fi, cont):
                continue
            # the cached value: look through one local definition
            vals = [val]
            if isinstance(val, ast.Name) and _owner_of_param(fi, val.id) is None:
                vals = [v for _s, v, how in _defs(fi, val.id) if how == "assign" and v is not None] or [val]
            line_args: list[tuple[ast.Call, ast.expr]] = []
            for v in vals:
                for c in [c for c in ast.walk(v) if isinstance(c, ast.Call)]:
                    if not any(isinstance(t, FunctionInfo) for t in g.resolve_call(c, fi)):
                        continue  # only package functions: their line parameter ends up in warnings / nodes
                    for a in list(c.args) + [kw.value for kw in c.keywords]:
                        if K.kind(a, fi) & {L1, PK}:
                            line_args.append((c, a))
            if not line_args:
                continue
            n += 1
            knames = _names(key)
            for nm in list(knames):
                if _owner_of_param(fi, nm) is None:
                    for _s, v, how in _defs(fi, nm):
                        if how == "assign" and v is not None:
                            knames |= _names(v)
            call, la = line_args[0]
            k = f"{_key_owner(corpus, fi).fq}|{short(cont, 30)}[{short(key, 40)}] = {short(call.func, 40)}(...{short(la, 20)}...)"
            site = fi.module.site(st)
            if _names(la) & knames:
                rep.ok(R8, k, site, "the key contains the line")
            else:
                rep.violation(R8, k, site, f"`{short(st, 70)}` keeps the result of `{short(call.func, 40)}(...)`, which was computed for line `{short(la, 20)}`, in `{short(cont, 30)}` under the key `{short(key, 50)}` that does not contain that line: the same construct further down the document (or in another document) gets the first occurrence's warnings/lines replayed")
    rep.ok(R8, "package|long-lived caches of line-dependent results", "myst_parser", f"{n} cache store(s) of a line-dependent package call found and judged")


# ---------------------------------------------------------------------------
# R9 the line anchor of a mock state object is fixed for the directive run it was created for


def _line_anchor_attrs(corpus: Corpus, K: "Kinds") -> dict[str, set[str]]:
    """class fq -> attributes that __init__ fills from an L1-kinded parameter (the directive line the object is anchored at)."""
    out: dict[str, set[str]] = {}
    for ci in corpus.all_classes():
        if not ci.module.name.endswith(".mocking"):
            continue
        init = ci.methods.get("__init__")
        if init is None:
            continue
        for n in init.local_nodes():
            for t, tv in _assign_pairs(n):
                if isinstance(t, ast.Attribute) and isinstance(t.value, ast.Name) and t.value.id == "self" and isinstance(tv, ast.Name) and tv.id in init.params:
                    if K.param_kinds(init, tv.id) == frozenset({L1}):
                        out.setdefault(ci.fq, set()).add(t.attr)
    return out


@rule(R9)
def r9_anchor_fixed(corpus: Corpus, rep: Report, tier: str):
    rep.rule(R9, "the directive-line anchor (_lineno / lineno) of a mock state object is written only at construction, on a fresh object, or under a save/restore that brackets the directive run")
    K = _kinds(corpus)
    g = get_callgraph(corpus)
    anchors = _line_anchor_attrs(corpus, K)
    if not anchors:
        rep.error(R9, "no line-anchor attribute found in the mock classes")
        return
    attr_names = {a for s_ in anchors.values() for a in s_}
    cls_by_name = {corpus.cls(fq.replace("myst_parser.", "", 1)).name: fq for fq in anchors}
    for fq, attrs in sorted(anchors.items()):
        ci = corpus.cls(fq.replace("myst_parser.", "", 1))
        rep.ok(R9, f"{fq}|anchor {sorted(attrs)} set in __init__", ci.module.site(ci.methods["__init__"].node), "from the 1-based directive line")
    for fi in _funcs(corpus):
        for n in fi.local_nodes():
            if not isinstance(n, (ast.Assign, ast.AugAssign)):
                continue
            tgts = []
            if isinstance(n, ast.Assign):
                for t in n.targets:
                    tgts += list(t.elts) if isinstance(t, (ast.Tuple, ast.List)) else [t]
            else:
                tgts = [n.target]
            for t in tgts:
                if not (isinstance(t, ast.Attribute) and t.attr in attr_names):
                    continue
                recv = t.value
                if isinstance(recv, ast.Name) and recv.id == "self" and fi.name == "__init__":
                    continue
                # receiver typed as one of the anchored classes?
                rt_ = g.expr_type(recv, fi)
                cname = rt_[1].name if rt_ else None
                fresh = False
                if isinstance(recv, ast.Name) and _owner_of_param(fi, recv.id) is None:
                    ds = _defs(fi, recv.id)
                    ctor_defs = [v for _s, v, how in ds if how == "assign" and isinstance(v, ast.Call) and (dotted(v.func) or "").split(".")[-1] in cls_by_name]
                    if ds and len(ctor_defs) == len(ds):
                        fresh = True
                        cname = (dotted(ctor_defs[0].func) or "").split(".")[-1]
                    else:
                        inner = [c for _s, v, how in ds if v is not None for c in ast.walk(v) if isinstance(c, ast.Call) and (dotted(c.func) or "").split(".")[-1] in cls_by_name]
                        if inner:
                            cname = cname or (dotted(inner[0].func) or "").split(".")[-1]
                if cname is None and isinstance(recv, ast.Name) and recv.id == "self" and fi.cls is not None:
                    cname = fi.cls.name
                if cname not in cls_by_name or t.attr not in anchors[cls_by_name[cname]]:
                    if cname is None and t.attr.startswith("_lineno"):
                        rep.error(R9, f"{fi.module.site(n)}: `{short(n, 60)}` writes a `{t.attr}` attribute of an object of unknown class")
                    continue
                k = f"{_key_owner(corpus, fi).fq}|{unparse(t)} = {short(getattr(n, 'value', n), 30)}"
                site = fi.module.site(n)
                if fresh:
                    rep.ok(R9, k, site, "object constructed in this function: not yet shared")
                    continue
                # save/restore bracket: the store sits in (or right before) a try whose finally puts a saved value back
                restored = False
                for a in ancestors(n):
                    if isinstance(a, ast.Try) and a.finalbody:
                        for s_ in a.finalbody:
                            for m in ast.walk(s_):
                                for t2, tv2 in _assign_pairs(m):
                                    if unparse(t2) == unparse(t) and isinstance(tv2, ast.Name):
                                        saved = [(mm, v2) for mm in fi.local_nodes() for t3, v2 in _assign_pairs(mm) if isinstance(t3, ast.Name) and t3.id == tv2.id]
                                        if len(saved) == 1 and unparse(saved[0][1]) == unparse(t) and saved[0][0].lineno < a.lineno:
                                            restored = True
                if restored:
                    rep.ok(R9, k, site, "previous anchor saved before the try and restored in finally")
                else:
                    rep.violation(R9, k, site, f"`{short(n, 60)}` moves the line anchor of a {cname} that is not created here (it is shared with whoever else holds it): run_directive is re-entrant, so a directive nested in another one re-positions the state its enclosing directive is still using and nothing puts the old line back - everything the outer directive parses afterwards is located relative to the inner directive's line")
    # (b) docutils' fallback line for unstamped nodes (document.current_line) is re-established after a re-entrant call
    reach_cache: dict[str, set[str]] = {}
    for fi in _funcs(corpus):
        stores = [n for n in fi.local_nodes() if isinstance(n, ast.Assign) and any(isinstance(t, ast.Attribute) and t.attr == "current_line" for t in n.targets)]
        if not stores:
            continue
        cfg = get_cfg(fi)
        for st in stores:
            tgt = next(t for t in st.targets if isinstance(t, ast.Attribute) and t.attr == "current_line")
            reach = cfg.reachable_from(st)
            reent = []
            for call, targets in g.callees(fi):
                cs = cfg.stmt_of(call)
                if cs is st or cs not in reach:
                    continue
                for t in g.flat_targets(targets):
                    if t.fq not in reach_cache:
                        reach_cache[t.fq] = set(g.reachable([t]))
                    if fi.fq in reach_cache[t.fq]:
                        reent.append((call, cs))
                        break
            k = f"{_key_owner(corpus, fi).fq}|{unparse(tgt)} = {short(st.value, 30)} holds again after the nested run"
            site = fi.module.site(st)
            if not reent:
                rep.ok(R9, k, site, "no re-entrant call after the store")
                continue
            again = {cfg.stmt_of(n) for n in fi.local_nodes() if isinstance(n, ast.Assign) and n is not st and any(unparse(t) == unparse(tgt) for t in n.targets) and (unparse(n.value) == unparse(st.value) or isinstance(n.value, ast.Name))}
            # exceptional continuations (the directive failed: only a stamped system message is returned) are not judged
            bad = [c for c, cs in reent if cfg.paths_avoiding(cs, "EXIT", lambda n, again=again: n in again or (isinstance(n, tuple) and n[0] == "H"))]
            reads = [n for n in fi.local_nodes() if isinstance(n, ast.Attribute) and n.attr == "current_line" and isinstance(n.ctx, ast.Load)]
            for rd in sorted(reads, key=lambda n: (n.lineno, n.col_offset)):
                rs_ = cfg.stmt_of(rd)
                stale = [c for c, cs in reent if cs is not rs_ and cfg.paths_avoiding(cs, rs_, lambda n, again=again: n in again or (isinstance(n, tuple) and n[0] == "H"))]
                kr = f"{_key_owner(corpus, fi).fq}|{short(rs_, 50)} reads current_line after the nested run"
                if stale:
                    rep.violation(R9, kr, fi.module.site(rd), f"`{short(rs_, 60)}` uses document.current_line after `{short(stale[0], 40)}` may have run nested directives (each of which moves it) and before it is set back to this directive's line: the value is the line of the last directive nested in the body, not this directive's")
                else:
                    rep.ok(R9, kr, fi.module.site(rd), "read after the line was set back")
            if bad:
                rep.violation(R9, k, site, f"`{short(st, 60)}` sets the line docutils gives to nodes a directive leaves unstamped (container, topic, list-table ...), but `{short(bad[0], 40)}` can run nested directives, each of which overwrites it, and it is not set back before the outer directive's nodes are attached: they take the line of the last directive nested inside them")
            else:
                rep.ok(R9, k, site, "set again after every re-entrant call")
    rep.expect_min(R9, 2, "anchor attributes of MockState / MockStateMachine / MockIncludeDirective")


# ---------------------------------------------------------------------------
# R10 source text is split into lines the way markdown-it counts them ("\n" only)


def _splitlines_in_defs(fi: FunctionInfo, seeds: set[str]) -> list[ast.Call]:
    """``x.splitlines()`` calls inside the definitions of the tracked names (closed over the names those definitions read)."""
    def has_split(e_) -> bool:
        # a bare count `len(x.splitlines())` does not make the name a carrier of the split text
        return e_ is not None and any(
            isinstance(c, ast.Call) and isinstance(c.func, ast.Attribute) and c.func.attr == "splitlines" and not (isinstance(parent(c), ast.Call) and dotted(parent(c).func) == "len")
            for c in ast.walk(e_)
        )

    tracked = set(seeds)
    for _round in range(2):  # e.g. content <- content_lines <- content.splitlines()
        for nm in list(tracked):
            for _s, v, how in _defs(fi, nm):
                if v is not None and how in ("assign", "aug"):
                    tracked |= {x for x in _names(v) if x != nm and any(has_split(v2) for _s2, v2, _h2 in _defs(fi, x))}
    out = []
    for nm in sorted(tracked):
        for _s, v, how in _defs(fi, nm):
            if v is None:
                continue
            for c in ast.walk(v):
                if isinstance(c, ast.Call) and isinstance(c.func, ast.Attribute) and c.func.attr == "splitlines" and not c.args and c not in out:
                    out.append(c)
    return sorted(out, key=lambda c: (c.lineno, c.col_offset))


@rule(R10)
def r10_line_model(corpus: Corpus, rep: Report, tier: str):
    rep.rule(R10, "text whose lines are located with markdown-it's token maps (directive body, included file) is split on '\\n' only, not with str.splitlines (which also splits on form feed, U+2028, ...)")
    g = get_callgraph(corpus)
    targets: list[tuple[FunctionInfo, set[str], str]] = []
    d = corpus.mod("parsers.directives")
    res = d.cls("DirectiveParsingResult")
    fields = [s.target.id for s in res.node.body if isinstance(s, ast.AnnAssign) and isinstance(s.target, ast.Name)]
    for fi in _funcs(corpus):
        for call in [n for n in fi.local_nodes() if isinstance(n, ast.Call)]:
            if fi.module.resolve(dotted(call.func) or "").endswith("parsers.directives.DirectiveParsingResult") and "body" in fields and "body_offset" in fields:
                b, o = arg_or_kw(call, fields.index("body"), "body"), arg_or_kw(call, fields.index("body_offset"), "body_offset")
                seeds = {x.id for x in (b, o) if isinstance(x, ast.Name)}
                targets.append((fi, seeds, "the directive body and its offset"))
                # package callees whose result object feeds the body: the names their returned objects are built from
                for nm in list(seeds):
                    for _s, v, _h in _defs(fi, nm):
                        for a in ast.walk(v) if v is not None else []:
                            if isinstance(a, ast.Attribute) and isinstance(a.value, ast.Name):
                                for _s2, v2, _h2 in _defs(fi, a.value.id):
                                    if isinstance(v2, ast.Call):
                                        for t in g.resolve_call(v2, fi):
                                            if isinstance(t, FunctionInfo) and not t.is_lambda:
                                                rs = set()
                                                for r in t.local_nodes():
                                                    if isinstance(r, ast.Return) and isinstance(r.value, ast.Call):
                                                        ci = corpus.find_class(t.module.resolve(dotted(r.value.func) or ""))
                                                        fl = [s.target.id for s in ci.node.body if isinstance(s, ast.AnnAssign) and isinstance(s.target, ast.Name)] if ci else []
                                                        if a.attr in fl:
                                                            x = arg_or_kw(r.value, fl.index(a.attr), a.attr)
                                                            rs |= _names(x)
                                                if rs:
                                                    targets.append((t, rs, f"the `{a.attr}` it returns to {fi.name}"))
    for (sink_name, caller_fq), (conv, _why) in NRT_CONVENTION.items():
        if conv == START:
            fi = corpus.func(caller_fq.replace("myst_parser.", "", 1))
            for call in [n for n in fi.local_nodes() if isinstance(n, ast.Call) and isinstance(n.func, ast.Attribute) and n.func.attr == sink_name]:
                text = arg_or_kw(call, 0, "text")
                if isinstance(text, ast.Name):
                    hosts = [(fi, text.id)]
                    for n_ in fi.local_nodes():  # T, V = helper(...)
                        if isinstance(n_, ast.Assign) and len(n_.targets) == 1 and isinstance(n_.targets[0], (ast.Tuple, ast.List)) and isinstance(n_.value, ast.Call):
                            nm_ = [e.id if isinstance(e, ast.Name) else None for e in n_.targets[0].elts]
                            if text.id in nm_:
                                for t in g.resolve_call(n_.value, fi):
                                    if isinstance(t, FunctionInfo) and not t.is_lambda:
                                        for r in t.local_nodes():
                                            if isinstance(r, ast.Return) and isinstance(r.value, ast.Tuple) and len(r.value.elts) == len(nm_) and isinstance(r.value.elts[nm_.index(text.id)], ast.Name):
                                                hosts.append((t, r.value.elts[nm_.index(text.id)].id))
                    for hf, tn in hosts:
                        targets.append((hf, {tn}, "the included text"))
    by_key: dict[str, list] = {}
    for fi, seeds, what in targets:
        k = f"{_key_owner(corpus, fi).fq}|str.splitlines on source text located by markdown-it lines"
        ent = by_key.setdefault(k, [])
        if not any(e_[0].fq == fi.fq and e_[1] == seeds for e_ in ent):
            ent.append((fi, seeds, what, _splitlines_in_defs(fi, seeds)))
    for k, ent in by_key.items():
        bad = [(fi, what, hits) for fi, _sd, what, hits in ent if hits]
        if bad:
            fi, what, hits = bad[0]
            n_all = sum(len(h) for _f, _w, h in bad)
            rep.violation(R10, k, fi.module.site(hits[0]), f"{fi.qualname} splits {what} with `{short(hits[0], 40)}`" + (f" (and {n_all - 1} more in {', '.join(sorted({f.name for f, _w, _h in bad}))})" if n_all > 1 else "") + ": str.splitlines also breaks at form feed, vertical tab, U+0085, U+2028/2029 and the like, while markdown-it (whose token maps give the lines) breaks at '\\n' only - after such a character every line of the body / included file is reported too high")
        else:
            rep.ok(R10, k, ent[0][0].site(), "no str.splitlines where the text is cut into lines")
    rep.expect_min(R10, 2, "functions that split a directive body or an included file into lines")


# ---------------------------------------------------------------------------
# R11 what a directive run leaves behind: stamped output, no rST line function on the shared reporter


@rule(R11)
def r11_directive_boundaries(corpus: Corpus, rep: Report, tier: str):
    rep.rule(R11, "nodes returned by a directive run get a fallback line/source before they leave run_directive; a nested rST parse does not leave its get_source_and_line on the shared reporter")
    g = get_callgraph(corpus)
    # (a) the result of `directive_instance.run()` is stamped on every normal path to the return
    n_a = 0
    for fi in _funcs(corpus):
        for call, targets in g.callees(fi):
            if not any(type(t).__name__ == "Special" and getattr(t, "kind", "") == "directive-run" for t in targets):
                continue
            p = parent(call)
            if isinstance(p, ast.Return):
                rep.listed(R11, f"{fi.fq}|{short(call, 40)} returned as is", fi.module.site(call), "handed on unchanged: judged where the outer directive run returns")
                continue
            if not (isinstance(p, ast.Assign) and len(p.targets) == 1 and isinstance(p.targets[0], ast.Name)):
                rep.error(R11, f"{fi.module.site(call)}: the result of the directive run is not bound to a name")
                continue
            n_a += 1
            R = p.targets[0].id
            cfg = get_cfg(fi)
            stamps: dict[str, set] = {"line": set(), "source": set()}
            st_tab = _stampers(corpus)
            for n in fi.local_nodes():
                if isinstance(n, ast.For) and isinstance(n.iter, ast.Name) and n.iter.id == R and isinstance(n.target, ast.Name):
                    lv = n.target.id
                    for m in ast.walk(n):
                        for t, _tv in _assign_pairs(m):
                            if isinstance(t, ast.Attribute) and t.attr in stamps and isinstance(t.value, ast.Name) and t.value.id == lv:
                                stamps[t.attr].add(n)
                        if isinstance(m, ast.Call):
                            for t_ in g.resolve_call(m, fi):
                                if isinstance(t_, FunctionInfo):
                                    for pn, attrs in st_tab.get(t_.fq, {}).items():
                                        a_ = _arg_for(m, t_, pn.lstrip("*"))
                                        if isinstance(a_, ast.Name) and a_.id == lv:
                                            for at in attrs:
                                                stamps[at].add(n)
                elif isinstance(n, ast.Call):  # a list stamper: self.add_line_and_source_path_r(result, ...)
                    for t_ in g.resolve_call(n, fi):
                        if isinstance(t_, FunctionInfo):
                            for pn, attrs in st_tab.get(t_.fq, {}).items():
                                if pn.startswith("*"):
                                    a_ = _arg_for(n, t_, pn[1:])
                                    if isinstance(a_, ast.Name) and a_.id == R:
                                        for at in attrs:
                                            stamps[at].add(cfg.stmt_of(n))
            rets = [cfg.stmt_of(r) for r in fi.local_nodes() if isinstance(r, ast.Return) and r.value is not None and R in _names(r.value)]
            start = cfg.stmt_of(call)
            k = f"{_key_owner(corpus, fi).fq}|nodes returned by the directive run get line and source"
            missing = []
            for at in ("line", "source"):
                ev = stamps[at]
                avoid = lambda n, ev=ev: n in ev or (isinstance(n, tuple) and n[0] == "H")  # noqa: E731
                if any(cfg.paths_avoiding(start, r, avoid) for r in rets):
                    missing.append(at)
            if not rets:
                rep.error(R11, f"{fi.module.site(call)}: {fi.name} does not return the directive's nodes")
            else:
                K_ = _kinds(corpus)
                for n_ in fi.local_nodes():
                    if isinstance(n_, ast.For) and isinstance(n_.iter, ast.Name) and n_.iter.id == R and isinstance(n_.target, ast.Name):
                        for m_ in ast.walk(n_):
                            for t_, tv_ in _assign_pairs(m_):
                                if isinstance(t_, ast.Attribute) and t_.attr == "line" and isinstance(t_.value, ast.Name) and t_.value.id == n_.target.id:
                                    kv = f"{_key_owner(corpus, fi).fq}|fallback line of the directive's output = {short(tv_, 30)}"
                                    if isinstance(tv_, ast.Attribute) and tv_.attr == "current_line":
                                        rep.ok(R11, kv, fi.module.site(m_), "document.current_line (its freshness is R9's obligation)")
                                        continue
                                    kd = K_.kind(tv_, fi)
                                    if kd == frozenset({L1}):
                                        rep.ok(R11, kv, fi.module.site(m_), "the directive's own 1-based line")
                                    elif kd:
                                        rep.violation(R11, kv, fi.module.site(m_), f"the nodes a directive leaves unstamped are given `{short(tv_, 30)}` ({sorted(kd)}) as their line; it must be the 1-based line of the directive itself")
                                    else:
                                        rep.error(R11, f"{fi.module.site(m_)}: cannot tell what line `{short(tv_, 30)}` gives to the directive's output")
            if not rets:
                pass
            elif missing:
                rep.violation(R11, k, fi.module.site(call), f"the nodes a directive returns reach the caller without a fallback .{' / .'.join(missing)}: docutils' setup_child only fills them in when the parent is already attached to the document, which the node of an enclosing directive is not - a container/compound/rubric/list-table nested in another directive ends with line None and source None")
            else:
                rep.ok(R11, k, fi.module.site(call), "every element of the result gets .line/.source (if unset) before it is returned")
    if n_a == 0:
        rep.error(R11, "no directive run (`directive_instance.run()`) found")
    # (b) a nested rST parse on the shared reporter is bracketed by the removal of the line function it installs
    n_b = 0
    for fi in _funcs(corpus):
        for call in [n for n in fi.local_nodes() if isinstance(n, ast.Call) and isinstance(n.func, ast.Attribute) and n.func.attr == "parse"]:
            recv = call.func.value
            cname = (dotted(recv.func) or "").split(".")[-1] if isinstance(recv, ast.Call) else None
            ci = corpus.find_class(fi.module.resolve(cname)) if cname else None
            if ci is None or not any("docutils.parsers.rst" in b for b in corpus.external_bases(ci)):
                continue
            if fi.cls is not None and fi.cls.fq == ci.fq:
                continue
            n_b += 1
            k = f"{_key_owner(corpus, fi).fq}|{cname}().parse leaves no get_source_and_line on the reporter"
            site = fi.module.site(call)
            ATTR = "get_source_and_line"

            def removals(node_: ast.AST) -> list[ast.AST]:
                """Statements/calls under ``node_`` that take the line function off the reporter: del x.attr, delattr(x, attr), vars(x)/x.__dict__ .pop(attr, ...)."""
                out_ = []
                for m in ast.walk(node_):
                    if isinstance(m, ast.Delete) and any(isinstance(t, ast.Attribute) and t.attr == ATTR for t in m.targets):
                        out_.append(m)
                    elif isinstance(m, ast.Call) and dotted(m.func) == "delattr" and len(m.args) == 2 and isinstance(m.args[1], ast.Constant) and m.args[1].value == ATTR:
                        out_.append(m)
                    elif isinstance(m, ast.Call) and isinstance(m.func, ast.Attribute) and m.func.attr == "pop" and m.args and isinstance(m.args[0], ast.Constant) and m.args[0].value == ATTR:
                        out_.append(m)
                return out_

            host = fi
            tr_ = next((a for a in ancestors(call) if isinstance(a, ast.Try) and a.finalbody and any(call in ast.walk(s_) for s_ in a.body)), None)
            if tr_ is None:
                # the bracket may live in a @contextmanager used as `with self.cm():` around the parse (its `yield` is the parse)
                for a in ancestors(call):
                    if isinstance(a, ast.With):
                        for item in a.items:
                            if isinstance(item.context_expr, ast.Call):
                                for t_ in g.resolve_call(item.context_expr, fi):
                                    if isinstance(t_, FunctionInfo) and any(d_.split(".")[-1] == "contextmanager" for d_ in t_.decorators()):
                                        ys = [y for y in t_.local_nodes() if isinstance(y, ast.Yield)]
                                        trs = [x for x in t_.local_nodes() if isinstance(x, ast.Try) and x.finalbody and any(y in ast.walk(s_) for s_ in x.body for y in ys)]
                                        if len(ys) == 1 and len(trs) == 1 and tr_ is None:
                                            host, tr_ = t_, trs[0]
            if tr_ is None:
                rep.violation(R11, k, site, f"`{short(call, 50)}` runs docutils' rST state machine on the shared reporter outside a try/finally: the reporter.get_source_and_line it installs stays behind, so later warnings of the Markdown document are mapped through the finished block's input lines (wrong file and line after an rST `.. include::`)")
                continue
            cfg = get_cfg(host)
            # 1. set aside before the parse: docutils installs its own line function only when the reporter has none, and only
            #    that one knows the lines an rST `.. include::` splices in
            pre = [m for s_ in host.node.body for m in removals(s_) if m.lineno < tr_.lineno and cfg.dominates(cfg.stmt_of(m), tr_)]
            saved = None
            for m in pre:
                p_ = parent(m)
                if isinstance(p_, ast.Assign) and len(p_.targets) == 1 and isinstance(p_.targets[0], ast.Name):
                    saved = p_.targets[0].id
            # 2. after the parse: the rST function goes, the one set aside comes back
            post_rm = [m for s_ in tr_.finalbody for m in removals(s_)]
            unconditional_rm = [m for m in post_rm if parent(cfg.stmt_of(m)) is tr_ or cfg.stmt_of(m) in tr_.finalbody]
            restores = [m for s_ in tr_.finalbody for m in ast.walk(s_) for t, tv in _assign_pairs(m) if isinstance(t, ast.Attribute) and t.attr == ATTR and isinstance(tv, ast.Name)]
            problems = []
            if not pre:
                problems.append("an existing reporter.get_source_and_line (left by an earlier role/directive or set by an enclosing include) is not set aside before the parse, so docutils does not install its own and the lines an rST `.. include::` splices in are mapped to the wrong file/line")
            if not post_rm:
                problems.append("the line function the rST state machine installs is not removed in finally, so later warnings of the Markdown document are mapped through the finished block's input lines")
            elif pre and not unconditional_rm:
                problems.append("the rST line function is only removed under a condition in finally: when nothing had been set aside it stays behind")
            if pre and saved is not None and not any(isinstance(tv, ast.Name) and tv.id == saved for m in restores for t, tv in _assign_pairs(m)):
                problems.append(f"the line function set aside in `{saved}` (e.g. the one of an enclosing {{include}}) is not put back in finally: the rest of the included file reports the including file")
            if pre and saved is None:
                problems.append("the line function that was on the reporter before the parse is discarded instead of saved and restored")
            if problems:
                rep.violation(R11, k, site, f"`{short(call, 50)}` parses rST on the shared reporter: " + "; ".join(problems))
            else:
                rep.ok(R11, k, site, f"set aside in `{saved}` before the parse; rST function removed and `{saved}` restored in finally")
    if n_b == 0:
        rep.error(R11, "no nested rST parse found")
    rep.expect_min(R11, 2, "the directive run in run_directive and the eval-rst parse")


# ---------------------------------------------------------------------------
# R12 raw markdown-it map records kept in the shared env are reported at the start line of the text they were parsed from


def _raw_map_reads(e: ast.AST) -> list[ast.Subscript]:
    return [x for x in ast.walk(e) if isinstance(x, ast.Subscript) and isinstance(x.value, ast.Subscript) and isinstance(x.value.slice, ast.Constant) and x.value.slice.value == "map"]


@rule(R12)
def r12_env_map_records(corpus: Corpus, rep: Report, tier: str):
    rep.rule(R12, "records with a raw (text-relative) map that markdown-it leaves in the shared env are reported by the render that parsed the text, at map + start line + 1, and removed there; the end-of-document report only sees top-level ones")
    K = _kinds(corpus)
    nrt = corpus.func(NESTED_RENDER)
    line_param = LINE_SINKS[nrt.fq][1]
    sites = []  # (fi, loop, list name, env key, line expr)
    for fi in _funcs(corpus):
        for loop in [n for n in fi.local_nodes() if isinstance(n, ast.For) and isinstance(n.target, ast.Name)]:
            lv = loop.target.id
            for c in [c for c in ast.walk(loop) if isinstance(c, ast.Call)]:
                le = kwarg(c, "line")
                if le is None:
                    continue
                if any(isinstance(r.value.value, ast.Name) and r.value.value.id == lv for r in _raw_map_reads(le)):
                    it = loop.iter
                    base = it.value if isinstance(it, ast.Subscript) else it
                    envkey = None
                    src = base
                    if isinstance(base, ast.Name):
                        ds = [v for _s, v, how in _defs(fi, base.id) if how == "assign" and v is not None]
                        src = ds[0] if len(ds) == 1 else base
                    for x in ast.walk(src):
                        if isinstance(x, ast.Call) and isinstance(x.func, ast.Attribute) and x.func.attr == "get" and x.args and isinstance(x.args[0], ast.Constant) and "env" in unparse(x.func.value):
                            envkey = x.args[0].value
                        if isinstance(x, ast.Subscript) and isinstance(x.slice, ast.Constant) and isinstance(x.slice.value, str) and "env" in unparse(x.value):
                            envkey = x.slice.value
                    sites.append((fi, loop, base, envkey, le, c))
    if not sites:
        rep.error(R12, "no report of raw-map records (duplicate reference definitions) found")
        return
    nested_purges: set[str] = set()
    for fi, loop, base, envkey, le, c in sites:
        ko = _key_owner(corpus, fi).fq
        site = fi.module.site(c)
        flat = _sum_terms(le)
        if any(isinstance(t_, ast.BinOp) for t_ in flat):
            rep.error(R12, f"{site}: line of the {envkey} report `{short(le, 50)}` is not a plain sum; not understood")
            continue
        n_map = sum(1 for t_ in flat if _raw_map_reads(t_))
        const = sum(t_.value for t_ in flat if isinstance(t_, ast.Constant) and isinstance(t_.value, int))
        others = [unparse(t_) for t_ in flat if not _raw_map_reads(t_) and not (isinstance(t_, ast.Constant) and isinstance(t_.value, int))]
        if ko == nrt.fq or line_param in fi.params and fi.fq == nrt.fq:
            k = f"{ko}|{envkey} reported at map + {line_param} + 1"
            if n_map == 1 and others == [line_param] and const == 1:
                rep.ok(R12, k, site, "text-relative map + start of the text + 1")
            else:
                rep.violation(R12, k, site, f"`line={short(le, 50)}`: a record markdown-it made while parsing this nested text has a map relative to that text; its line is map + `{line_param}` + 1, the call passes {' + '.join(['map'] * n_map + others)} {const:+d} - the warning names a line inside the directive body / included file as if it were a line of the document")
            # only the records of this parse: slice from the length taken before the parse; and they are removed afterwards
            it = loop.iter
            lower = it.slice.lower if isinstance(it, ast.Subscript) and isinstance(it.slice, ast.Slice) else None
            parses = [x for x in fi.local_nodes() if isinstance(x, ast.Call) and isinstance(x.func, ast.Attribute) and x.func.attr in ("parse", "parseInline") and "self.md" in unparse(x.func.value)]
            k2 = f"{ko}|only the {envkey} records of this parse are reported"
            ok2 = False
            if isinstance(lower, ast.Name) and parses:
                ds = [(s_, v) for s_, v, how in _defs(fi, lower.id) if how == "assign" and v is not None and s_ is not None]
                ok2 = len(ds) == 1 and isinstance(ds[0][1], ast.Call) and dotted(ds[0][1].func) == "len" and (envkey is None or repr(envkey).strip("'\"") in unparse(ds[0][1])) and ds[0][0].lineno < min(p_.lineno for p_ in parses)
            if ok2:
                rep.ok(R12, k2, fi.module.site(loop), f"from `{lower.id}` = length before the parse")
            else:
                rep.violation(R12, k2, fi.module.site(loop), f"`for … in {short(it, 40)}`: the records that earlier (enclosing or sibling) texts left in the shared env are reported again, shifted by this text's start line; iterate from the length the list had before this parse")
            k3 = f"{ko}|reported {envkey} records are removed from the shared env"
            lst = _stmt_list_of(loop)
            sibs = getattr(lst[1], lst[0][1], [])
            after = sibs[sibs.index(loop) + 1 :] if loop in sibs else []
            purged = False
            for s_ in after:
                if isinstance(s_, ast.Delete) and isinstance(base, ast.Name):
                    for t in s_.targets:
                        if isinstance(t, ast.Subscript) and isinstance(t.value, ast.Name) and t.value.id == base.id and isinstance(t.slice, ast.Slice) and t.slice.upper is None and lower is not None and t.slice.lower is not None and unparse(t.slice.lower) == unparse(lower):
                            purged = True
                if isinstance(s_, ast.Assign) and isinstance(base, ast.Name) and any(isinstance(t, ast.Subscript) and isinstance(t.value, ast.Name) and t.value.id == base.id and isinstance(t.slice, ast.Slice) and lower is not None and t.slice.lower is not None and unparse(t.slice.lower) == unparse(lower) for t in s_.targets) and isinstance(s_.value, (ast.List, ast.Tuple)) and not s_.value.elts:
                    purged = True
            if purged:
                nested_purges.add(str(envkey))
                rep.ok(R12, k3, fi.module.site(loop), "deleted right after they are reported")
            else:
                rep.violation(R12, k3, fi.module.site(loop), f"the {envkey} records reported here stay in the shared env: the end-of-document report names them a second time, with the text-relative line and the outer document's path")
        else:
            k = f"{ko}|{envkey} reported at map + 1"
            if n_map == 1 and not others and const == 1:
                rep.ok(R12, k, site, "top-level records: 0-based map + 1")
            else:
                rep.violation(R12, k, site, f"`line={short(le, 50)}` is not the record's 0-based map line + 1")
    # cooperation: a report outside nested_render_text only sees top-level records if nested_render_text removes its own
    for fi, loop, base, envkey, le, c in sites:
        if _key_owner(corpus, fi).fq != nrt.fq:
            k = f"{_key_owner(corpus, fi).fq}|{envkey} of nested texts never reach the end-of-document report"
            if str(envkey) in nested_purges:
                rep.ok(R12, k, fi.module.site(loop), "nested_render_text reports and removes the records of nested texts")
            else:
                rep.violation(R12, k, fi.module.site(loop), f"{fi.name} reports every {envkey} record at map + 1 with the document's path, but nested_render_text does not report-and-remove the records of the texts it parses: a duplicate on lines 1/8 of a {{note}} body on line 3 is warned about as line 8 of the document (true 11), one inside an included file with the including file's path")
    rep.expect_min(R12, 3, "the nested and the end-of-document report of duplicate reference definitions")
    # bookkeeping (evidence only): a known finding of this property that no rule reports any more was either repaired or lost by a re-keying
    try:
        from ..report import load_known

        reported = {(v.rule, v.key) for v in rep.violations()}
        for kf in load_known().get("known", []):
            props = kf.get("property")
            if PROP in (props if isinstance(props, list) else [props]) and (kf.get("rule"), kf.get("key")) not in reported:
                rep.note(f"known finding no longer reported (repaired, or its key moved): {kf.get('rule')} {kf.get('key')}")
    except Exception:  # pragma: no cover - bookkeeping must never change a verdict
        pass


# ---------------------------------------------------------------------------
# R13 one content-offset contract: producer (directive instantiation) and every consumer (mock state callbacks) agree on who adds
# the directive line


def _line_exprs_of(corpus: Corpus, fi: FunctionInfo) -> list[ast.expr]:
    """Expressions of ``fi`` that end up as an absolute line: .line stores, get_source_and_line(x), line= keywords, and arguments
    bound to a 1-based line parameter (docutils callback table) or to the line parameter of nested_render_text / run_directive."""
    g = get_callgraph(corpus)
    out: list[ast.expr] = []

    def push(e: ast.expr | None):
        if e is not None and all(e is not o for o in out):
            out.append(e)

    for n in sorted((x for x in fi.local_nodes() if isinstance(x, (ast.Assign, ast.Call))), key=lambda x: (x.lineno, x.col_offset)):
        if isinstance(n, ast.Assign):
            if any(isinstance(t, ast.Attribute) and t.attr == "line" for t in _store_targets(n)) and len(n.targets) == 1 and isinstance(n.targets[0], ast.Attribute) and not isinstance(n.value, ast.Call):
                push(n.value)
            continue
        if isinstance(n.func, ast.Attribute) and n.func.attr == "get_source_and_line" and n.args:
            push(n.args[0])
            continue
        push(kwarg(n, "line"))
        for t in g.resolve_call(n, fi):
            if isinstance(t, FunctionInfo):
                for pn in t.params:
                    ext = EXTERNAL_PARAMS.get((t.fq, pn))
                    if (ext and ext[0] == L1) or (t.fq in LINE_SINKS and LINE_SINKS[t.fq][1] == pn):
                        push(_arg_for(n, t, pn))
    return out


@rule(R13)
def r13_offset_contract(corpus: Corpus, rep: Report, tier: str):
    rep.rule(R13, "the content offset a directive is instantiated with and every mock-state callback that turns a received offset into a line agree on who adds the directive line: it is added exactly once along producer -> consumer")
    K = _kinds(corpus)
    used: dict[str, int] = {}

    def uniq(k: str) -> str:
        used[k] = used.get(k, 0) + 1
        return k if used[k] == 1 else f"{k}#{used[k]}"

    # ---- producers: directive instantiations (content_offset=, lineno=, state=) whose offset is not a constant (whole included file)
    prod: list[tuple[int, str, str]] = []  # (anchors in the offset, site, text)
    for fi in _funcs(corpus):
        for n in sorted((x for x in fi.local_nodes() if isinstance(x, ast.Call)), key=lambda x: (x.lineno, x.col_offset)):
            co = kwarg(n, "content_offset")
            if co is None or kwarg(n, "lineno") is None or kwarg(n, "state") is None:
                continue
            site = fi.module.site(co)
            try:
                terms, _const = K.linear(co, fi)
            except _Unknown as e:
                rep.error(R13, f"{site}: content_offset `{short(co, 40)}` of the directive instantiation not understood ({e})")
                continue
            if not terms:
                continue  # constant: the content is a whole file, nothing relative to a directive line
            if not any(kk == OFF for _s, kk, _t in terms):
                rep.error(R13, f"{site}: content_offset `{short(co, 40)}` contains no content-offset term; cannot tell its contract")
                continue
            prod.append((sum(s for s, kk, _t in terms if kk in (L1, PK)), site, short(co, 40)))
    if not prod:
        rep.error(R13, "no directive instantiation with a computed content_offset= found (run_directive)")
        return
    if len({a for a, _s, _t in prod}) != 1:
        a0 = prod[0]
        other = next(p for p in prod if p[0] != a0[0])
        rep.violation(R13, "package|directive instantiations agree on the content_offset contract", other[1], f"`content_offset={other[2]}` ({'absolute' if other[0] else 'relative to the directive'}) and `content_offset={a0[2]}` at {a0[1]} ({'absolute' if a0[0] else 'relative to the directive'}) follow different contracts, but the same mock-state callbacks consume both")
        return
    p_anch, p_site, p_text = prod[0]
    contract = "absolute (contains the directive line)" if p_anch else "relative to the directive line"
    # ---- consumers: the callbacks docutils directives hand their content offset to
    n_judged = 0
    for (fq, oparam), (kd, _why) in EXTERNAL_PARAMS.items():
        if kd != OFF:
            continue
        fi = corpus.func(fq.replace("myst_parser.", "", 1))
        if oparam not in fi.params:
            rep.error(R13, f"{fq}: offset parameter `{oparam}` of the table not found")
            continue
        for e in _line_exprs_of(corpus, fi):
            names = _names(e)
            for nm in list(names):
                if _owner_of_param(fi, nm) is None and len(_defs(fi, nm)) == 1:
                    for _s, v_, h_ in _defs(fi, nm):
                        if h_ == "assign" and v_ is not None:
                            names |= _names(v_)
            if oparam not in names:
                continue
            site = fi.module.site(e)
            try:
                terms, const = K.linear(e, fi)
            except _Unknown as ex:
                rep.error(R13, f"{site}: line `{short(e, 50)}` built from the content offset `{oparam}` not understood ({ex})")
                continue
            if not any(kk == OFF and t == oparam for _s, kk, t in terms):
                continue  # the offset does not enter additively (index, helper call): not judged here
            c_anch = sum(s for s, kk, _t in terms if kk in (L1, PK))
            norm = " + ".join(sorted(f"{kk}({t})" for _s, kk, t in terms)) + (f" {const:+d}" if const else "")
            k = uniq(f"{_key_owner(corpus, fi).fq}|offset contract|{norm}")
            n_judged += 1
            total = p_anch + c_anch
            if total == 1:
                rep.ok(R13, k, site, f"content_offset={p_text} is {contract}; directive line added {'here' if c_anch else 'by the producer'}")
            elif total > 1:
                rep.violation(R13, k + " anchored twice", site, f"`{short(e, 50)}` adds the directive line to `{oparam}`, but the offset directives are instantiated with (`content_offset={p_text}` at {p_site}) is already {contract}: the directive line is counted twice, so the node/warning line is about twice the true line (block quote of an {{epigraph}} on line 6: reported 12+)")
            else:
                rep.violation(R13, k + " never anchored", site, f"`{short(e, 50)}` uses `{oparam}` as if it were absolute, but the offset directives are instantiated with (`content_offset={p_text}` at {p_site}) is {contract}: the directive line is never added and every line derived here is relative to the directive")
    rep.expect_min(R13, 1, "lines built from a received content offset in the mock-state callbacks")
    if n_judged == 0:
        rep.error(R13, "no line built additively from a received content offset found in nested_parse / block_quote / parse_directive_block")


RULES = [r1_stamping, r2_line_kinds, r3_shift_once, r4_lossy_round_trip, r5_source_path, r6_body_offset_pairing, r7_start_accumulator, r8_line_free_cache, r9_anchor_fixed, r10_line_model, r11_directive_boundaries, r12_env_map_records, r13_offset_contract]


# ---------------------------------------------------------------------------
# mutants of the current tree


def _stamp_stmt(fi: FunctionInfo, var: str) -> ast.stmt | None:
    return find_stmt(
        fi,
        lambda s: isinstance(s, ast.Expr) and isinstance(s.value, ast.Call) and isinstance(s.value.func, ast.Attribute) and s.value.func.attr == "add_line_and_source_path" and s.value.args and unparse(s.value.args[0]) == var,
    )


def _nrt_call(fi: FunctionInfo, nth: int = 0) -> ast.Call | None:
    cs = sorted((n for n in fi.local_nodes() if isinstance(n, ast.Call) and isinstance(n.func, ast.Attribute) and n.func.attr == "nested_render_text"), key=lambda c: c.lineno)
    return cs[nth] if len(cs) > nth else None


def mutants(corpus: Corpus):
    out: list = []
    base = corpus.mod("mdit_to_docutils.base")
    mk = corpus.mod("mocking")
    sx = corpus.mod("mdit_to_docutils.sphinx_")
    dm = corpus.mod("parsers.directives")
    h2n = corpus.mod("mdit_to_docutils.html_to_nodes")
    stale = "defect not repaired on this tree: the reverting edit equals the current code"

    def add(mid, rid, mod, node, text, expect, canary=False):
        if node is None:
            out.append((mid, "anchor construct not found"))
        else:
            out.append(Mutant(mid, rid, mod.rel, splice(mod.src, node, text), expect=expect, canary=canary))

    # ---- R1
    f = base.func("DocutilsRenderer.render_paragraph")
    add("c04-paragraph-stamp-dropped", R1, base, _stamp_stmt(f, "para"), "pass", "render_paragraph", canary=True)
    f = base.func("DocutilsRenderer.render_heading")
    st = _stamp_stmt(f, "title_node")
    add("c04-title-stamp-on-wrong-node", R1, base, st.value.args[0] if st else None, "new_section", "title_node")
    f = base.func("DocutilsRenderer.render_list_item")
    st = _stamp_stmt(f, "item_node")
    add("c04-list-item-stamp-conditional", R1, base, st, "if token.attrs:\n            self.add_line_and_source_path(item_node, token)", "render_list_item")
    f = sx.func("SphinxRenderer.render_math_block_label")
    add("c04-math-target-unstamped", R1, sx, _stamp_stmt(f, "target"), "pass", "add_math_target")
    f = base.func("DocutilsRenderer.render_fence")
    c = find_node(f, lambda n: isinstance(n, ast.Call) and isinstance(n.func, ast.Attribute) and n.func.attr == "create_highlighted_code_block")
    if c is not None and kwarg(c, "source") is not None:
        c2 = ast.parse(ast.unparse(c), mode="eval").body
        c2.keywords = [k for k in c2.keywords if k.arg != "source"]
        add("c04-fence-source-argument-dropped", R1, base, c, ast.unparse(c2), "render_fence")
    else:
        out.append(("c04-fence-source-argument-dropped", "render_fence no longer passes source="))
    f = base.func("DocutilsRenderer.add_line_and_source_path")
    st = find_stmt(f, lambda s: isinstance(s, ast.Assign) and any(isinstance(t, ast.Attribute) and t.attr == "source" for t in s.targets))
    add("c04-stamper-loses-source", R1, base, st, "pass", "add_line_and_source_path")
    # reverts of repairs (computable only once the defect is repaired)
    f = base.func("DocutilsRenderer.render_field_list")
    st = _stamp_stmt(f, "field_body")
    if st is not None:
        add("c04-revert-field-body-stamp", R1, base, st.value.args[0], "field_name", "field_body")
    else:
        out.append(("c04-revert-field-body-stamp", stale))
    f = base.func("DocutilsRenderer.render_table_row")
    st = _stamp_stmt(f, "para")
    if st is not None:
        add("c04-revert-table-cell-paragraph-stamp", R1, base, st, "pass", "render_table_row")
    # else: known finding F13b (unrepaired): nothing to revert
    f = mk.func("MockState.block_quote")
    st = find_stmt(f, lambda s: isinstance(s, ast.Assign) and any(isinstance(t, ast.Attribute) and t.attr in ("line", "source") and unparse(t.value) == "blockquote" for t in _store_targets(s)))
    if st is not None:
        add("c04-revert-mock-blockquote-stamp", R1, mk, st, "pass", "blockquote")
    else:
        out.append(("c04-revert-mock-blockquote-stamp", stale))
    f = mk.func("MockIncludeDirective.run")
    st = find_stmt(f, lambda s: isinstance(s, ast.Assign) and any(isinstance(t, ast.Attribute) and t.attr == "source" and unparse(t.value) == "literal_block" for t in _store_targets(s)))
    if st is not None:
        add("c04-revert-include-literal-source", R1, mk, st, "pass", "literal_block")
    else:
        out.append(("c04-revert-include-literal-source", stale))

    # ---- R2
    f = mk.func("MockState.nested_parse")
    c = _nrt_call(f)
    a = arg_or_kw(c, 1, "lineno") if c else None
    add("c04-nested-parse-one-too-many", R2, mk, a, f"{unparse(a)} + 1" if a is not None else "", "nested_parse", canary=True)
    f = base.func("DocutilsRenderer.render_colon_fence")
    c = _nrt_call(f)
    a = arg_or_kw(c, 1, "lineno") if c else None
    add("c04-colon-fence-body-on-fence-line", R2, base, a, f"{unparse(a)} - 1" if a is not None else "", "render_colon_fence")
    f = base.func("DocutilsRenderer.render_front_matter")
    c = _nrt_call(f)
    a = arg_or_kw(c, 1, "lineno") if c else None
    add("c04-front-matter-title-at-line-two", R2, base, a, "1", "render_front_matter")
    f = base.func("DocutilsRenderer.run_directive")
    kws = sorted((n for n in f.local_nodes() if isinstance(n, ast.keyword) and n.arg == "line" and unparse(n.value) == "position"), key=lambda k: k.value.lineno)
    add("c04-char-length-added-to-warning-line", R2, base, kws[0].value if kws else None, "position + len(content)", "arith")
    add("c04-offset-added-to-line-without-plus-one", R2, base, kws[-1].value if len(kws) > 1 else None, "position + parsed.body_offset", "line-sink")
    f = base.func("DocutilsRenderer.render_restructuredtext")
    c = find_node(f, lambda n: isinstance(n, ast.BinOp) and isinstance(n.op, ast.Mult) and isinstance(n.left, ast.Constant) and n.left.value == "\n")
    add("c04-eval-rst-padding-one-short", R2, base, c.right if c is not None else None, f"({unparse(c.right)} - 1)" if c is not None else "", "newline padding")
    # reverts
    f = mk.func("MockIncludeDirective.run")
    aug = find_stmt(f, lambda s: isinstance(s, (ast.AugAssign, ast.Assign)) and unparse(s.targets[0] if isinstance(s, ast.Assign) else s.target) == "startline" and any(isinstance(a_, ast.For) for a_ in ancestors(s)))
    if aug is not None and unparse(aug) != "startline += split_index + len(split_on)":
        add("c04-revert-start-after-char-index", R2, mk, aug, "startline += split_index + len(split_on)", "startline")
    else:
        out.append(("c04-revert-start-after-char-index", stale if aug is not None else "no startline update in the start-after loop"))
    c = _nrt_call(f)
    a = arg_or_kw(c, 1, "lineno") if c else None
    if a is not None and unparse(a) != "startline + 1":
        add("c04-revert-include-startline-plus-one", R2, mk, a, "startline + 1", "MockIncludeDirective.run")
    # else: known finding F11 (unrepaired): nothing to revert
    f = base.func("DocutilsRenderer.render_substitution")
    for i in (0, 1):
        c = _nrt_call(f, i)
        a = arg_or_kw(c, 1, "lineno") if c else None
        if a is not None and unparse(a) != "position":
            add(f"c04-revert-substitution-on-line-{i + 1}", R2, base, a, "position", "render_substitution")
        # else: known finding F11b (unrepaired): nothing to revert
    f = mk.func("MockInliner.parse")
    c = _nrt_call(f)
    a = arg_or_kw(c, 1, "lineno") if c else None
    if a is not None and unparse(a) != "lineno":
        add("c04-revert-inliner-on-line", R2, mk, a, "lineno", "MockInliner.parse")
    else:
        out.append(("c04-revert-inliner-on-line", stale))
    f = mk.func("MockState.block_quote")
    st = find_stmt(f, lambda s: isinstance(s, ast.Assign) and unparse(s.targets[0]) == "lineno")
    want = "self._lineno + line_offset + (attribution_line_offset or 0)"
    if st is not None and unparse(st.value) != want:
        add("c04-revert-attribution-line", R2, mk, st.value, want, "block_quote")
    else:
        out.append(("c04-revert-attribution-line", stale))

    # ---- R3
    f = base.func("DocutilsRenderer._render_tokens")
    c = find_node(f, lambda n: isinstance(n, ast.BinOp) and unparse(n) == "token.map[1] + 1")
    add("c04-map-end-not-shifted", R3, base, c, "token.map[1]", "_render_tokens", canary=True)
    stc = find_stmt(f, lambda s: isinstance(s, ast.Assign) and unparse(s.targets[0]) == "token.map" and isinstance(s.value, (ast.List, ast.Tuple)))
    if stc is not None and unparse(stc.value) == "[token.map[0] + 1, token.map[1] + 1]":
        add("c04-one-based-shift-doubled", R3, base, stc.value, "[token.map[0] + 2, token.map[1] + 2]", "total map shift")
    else:
        out.append(("c04-one-based-shift-doubled", "_render_tokens no longer shifts by the literal 1; covered by the nested-shift mutants"))
    iff = find_node(f, lambda n: isinstance(n, ast.If) and unparse(n.test) == "not token.map")
    add("c04-shift-skipped-for-hidden-tokens", R3, base, iff.test if iff is not None else None, "not token.map or token.hidden", "guarded")
    f = base.func("DocutilsRenderer.nested_render_text")
    st = find_stmt(f, lambda s: isinstance(s, ast.Assign) and unparse(s.targets[0]) == "token.map")
    add("c04-nested-shift-one-too-many", R3, base, st.value if st else None, "[token.map[0] + (lineno + 1), token.map[1] + (lineno + 1)]", "nested_render_text")
    f = base.func("DocutilsRenderer.render_colon_fence")
    st = find_stmt(f, lambda s: isinstance(s, ast.Assign) and unparse(s.targets[0]) == "token.token")
    if st is not None:
        add("c04-third-map-writer", R3, base, st, "linear_token.map = [linear_token.map[0] - 1, linear_token.map[1]]\n                " + ast.get_source_segment(base.src, st), "writes .map")
    else:
        f2 = base.func("DocutilsRenderer.render_list_item")
        add("c04-third-map-writer", R3, base, f2.node.body[0], "token.token.map = [token.map[0] - 1, token.map[1]]\n        " + ast.get_source_segment(base.src, f2.node.body[0]), "writes .map")
    f = base.func("DocutilsRenderer.render_inline")
    st = find_stmt(f, lambda s: isinstance(s, ast.Expr) and "render_children" in unparse(s))
    add("c04-render-tokens-third-caller", R3, base, st, "self._render_tokens(token.to_tokens())", "callers")
    f = base.func("DocutilsRenderer.render_colon_fence")
    st = find_stmt(f, lambda s: isinstance(s, ast.Assign) and any(isinstance(t, ast.Attribute) and t.attr == "content" for t in s.targets))
    if st is None:
        ret = find_stmt(f, lambda s: isinstance(s, ast.Return) and isinstance(s.value, ast.Call) and unparse(s.value.func) == "self.render_directive")
        ind = " " * (ret.col_offset if ret is not None else 0)
        add(
            "c04-revert-colon-fence-newline-prefix",
            R3,
            base,
            ret,
            f'if token.content.startswith(":::"):\n{ind}    linear_token = token.token.copy()\n{ind}    linear_token.content = "\\n" + linear_token.content\n{ind}    token.token = linear_token\n{ind}' + (ast.get_source_segment(base.src, ret) if ret is not None else ""),
            "token content rewritten",
        )
    else:
        out.append(("c04-revert-colon-fence-newline-prefix", stale))

    # ---- R4
    f = dm.func("parse_directive_text")
    zs = sorted((s for s in f.local_nodes() if isinstance(s, ast.Assign) and unparse(s.targets[0]) == "content_offset" and isinstance(s.value, ast.Constant) and s.value.value == 0), key=lambda s: s.lineno)
    add("c04-offset-across-join-roundtrip", R4, dm, zs[0].value if zs else None, 'len(content.splitlines()) - len("\\n".join(body_lines).splitlines())', "parse_directive_text")
    # revert of 2629f06 (F12): the lossless re-join `"".join(ln + "\n" for ln in X)` back to "\n".join(X), once per branch
    fo = dm.func("_parse_directive_options")
    rejoin = sorted(
        (
            n
            for n in fo.local_nodes()
            if isinstance(n, ast.Call) and isinstance(n.func, ast.Attribute) and n.func.attr == "join" and isinstance(n.func.value, ast.Constant) and n.func.value.value == "" and n.args and isinstance(n.args[0], ast.GeneratorExp)
            and isinstance(parent(n), ast.Assign) and unparse(parent(n).targets[0]) == "content"  # the re-joined remaining content (not the option block)
        ),
        key=lambda c: c.lineno,
    )
    for i, c in enumerate(rejoin[:2]):
        add(f"c04-revert-lossless-rejoin-{i + 1}", R4, dm, c, f'"\\n".join({unparse(c.args[0].generators[0].iter)})', "parse_directive_text")
    if not rejoin:
        st = find_stmt(f, lambda s: isinstance(s, ast.Assign) and unparse(s.targets[0]) == "content_offset" and not isinstance(s.value, (ast.Constant, ast.UnaryOp)))
        want = "len(content.splitlines()) - len(body_lines)"
        if st is not None and unparse(st.value) != want:
            add("c04-revert-body-offset-by-difference", R4, dm, st.value, want, "parse_directive_text")
        else:
            out.append(("c04-revert-lossless-rejoin", "neither the lossless re-join nor a structural offset found in the options parser"))

    # ---- R6
    strip_if = find_node(f, lambda n: isinstance(n, ast.If) and any(isinstance(s, ast.Assign) and unparse(s) == "body_lines = body_lines[1:]" for s in n.body))
    drop = next((s for s in (strip_if.body if strip_if is not None else []) if isinstance(s, ast.Assign)), None)
    adv = next((s for s in (strip_if.body if strip_if is not None else []) if isinstance(s, ast.AugAssign)), None)
    ind = " " * (drop.col_offset if drop is not None else 0)
    add("c04-all-leading-blank-lines-stripped-offset-once", R6, dm, drop, f"while body_lines and not body_lines[0].strip():\n{ind}    body_lines = body_lines[1:]", "outside its block", canary=True)
    add("c04-blank-line-stripped-offset-not-advanced", R6, dm, adv, "pass", "no offset update")
    if strip_if is not None and adv is not None and drop is not None:
        ind0 = " " * strip_if.col_offset
        add("c04-offset-advanced-unconditionally", R6, dm, strip_if, f"content_offset += 1\n{ind0}if {unparse(strip_if.test)}:\n{ind0}    body_lines = body_lines[1:]", "parse_directive_text")
    else:
        out.append(("c04-offset-advanced-unconditionally", "blank-line strip block not found"))
    ins = find_stmt(f, lambda s: isinstance(s, ast.Expr) and unparse(s).startswith("body_lines.insert(0,"))
    if ins is not None:
        lst = getattr(parent(ins), "body", [])
        setst = next((s for s in lst if isinstance(s, ast.Assign) and unparse(s.targets[0]) == "content_offset"), None)
        if setst is not None and unparse(setst.value) != "0":
            add("c04-revert-first-line-body-offset", R6, dm, setst.value, "0", "insert(0")
        # else: unrepaired (reported as a violation / known finding): nothing to revert

    # ---- R5
    f = mk.func("MockIncludeDirective.run")
    tr = find_node(f, lambda n: isinstance(n, ast.Try) and n.finalbody and "nested_render_text" in unparse(n))
    rs = next((s for s in (tr.finalbody if tr else []) if isinstance(s, ast.Assign) and unparse(s.targets[0]).endswith("document['source']")), None)
    add("c04-include-source-not-restored", R5, mk, rs, "pass", "restore", canary=True)
    sw = next((s for s in (tr.body if tr else []) if isinstance(s, ast.Assign) and unparse(s.targets[0]).endswith("document['source']")), None)
    add("c04-include-source-is-directory", R5, mk, sw.value if sw else None, "str(source_dir)", "swap")
    f = h2n.func("default_html")
    st = find_stmt(f, lambda s: isinstance(s, ast.Assign) and unparse(s.targets[0]).endswith(".source"))
    add("c04-raw-html-source-is-text", R5, h2n, st.value if st else None, "text", "default_html")
    # a copy of the document path cached at setup time is not seen by the include mock's swap
    sr = base.func("DocutilsRenderer.setup_render")
    anchor = find_stmt(sr, lambda s: isinstance(s, (ast.Assign, ast.AnnAssign)) and unparse(s.targets[0] if isinstance(s, ast.Assign) else s.target) == "self.reporter")
    al = base.func("DocutilsRenderer.add_line_and_source_path")
    src_store = find_stmt(al, lambda s: isinstance(s, ast.Assign) and any(isinstance(t, ast.Attribute) and t.attr == "source" for t in s.targets))
    fence = base.func("DocutilsRenderer.render_fence")
    fkw = find_node(fence, lambda n: isinstance(n, ast.keyword) and n.arg == "source")
    for mid, node_, exp in (("c04-stamper-reads-cached-source", src_store.value if src_store else None, "add_line_and_source_path"), ("c04-code-block-source-from-cache", fkw.value if fkw is not None else None, "create_highlighted_code_block")):
        if anchor is None or node_ is None or node_.lineno < anchor.lineno:
            out.append((mid, "setup_render / stamping construct not found"))
            continue
        src2 = splice(base.src, node_, "self._source_path")  # later position first, offsets of the earlier node stay valid
        ind_ = " " * anchor.col_offset
        src2 = splice(src2, anchor, ast.get_source_segment(base.src, anchor) + f'\n{ind_}self._source_path = self.document["source"]')
        out.append(Mutant(mid, R5, base.rel, src2, expect=exp))

    # warning locations must be the swappable document path
    wm = corpus.mod("warnings_")
    cw = wm.func("create_warning")
    loc = find_node(cw, lambda n: isinstance(n, ast.keyword) and n.arg == "location")
    tup = next((x for x in ast.walk(loc.value) if isinstance(x, ast.Tuple)), None) if loc is not None else None
    if tup is not None and tup.elts:
        add("c04-sphinx-location-by-docname", R5, wm, tup.elts[0], "document.settings.env.docname", "location=")
    else:
        # the location is a node now: its .source must still be the swappable document path
        lst = find_stmt(cw, lambda s: isinstance(s, ast.Assign) and any(isinstance(t, ast.Attribute) and t.attr == "source" and unparse(t.value) == "location" for t in _store_targets(s)))
        lv = lst.value.elts[0] if lst is not None and isinstance(lst.value, ast.Tuple) else (lst.value if lst is not None else None)
        add("c04-sphinx-location-by-docname", R5, wm, lv, "document.settings.env.docname", "location.source")
        # revert of 8521cf6: back to a (path, line) tuple, which Sphinx reads as (docname, line)
        if loc is not None:
            add("c04-revert-sphinx-location-node", R5, wm, loc.value, 'node if node is not None else (document["source"], line)', "location=")
    st = find_stmt(cw, lambda s: isinstance(s, ast.Assign) and isinstance(s.targets[0], ast.Tuple) and isinstance(s.value, ast.Tuple) and unparse(s.targets[0].elts[0]) == "_source")
    add("c04-warning-node-source-by-docname", R5, wm, st.value.elts[0] if st is not None else None, "document.settings.env.docname", "source=")

    # ---- R11: reverts of 3cad852 (stamp the directive's output) and a1935f5 (remove the rST line function)
    f = base.func("DocutilsRenderer.run_directive")
    loop = find_stmt(f, lambda s: isinstance(s, ast.For) and unparse(s.iter) == "result" and any(isinstance(t, ast.Attribute) and t.attr == "line" for m_ in ast.walk(s) for t, _v in _assign_pairs(m_)))
    add("c04-revert-directive-output-stamped", R11, base, loop, "pass", "nodes returned by the directive run", canary=True)
    if loop is not None:
        src_st = next((m_ for m_ in ast.walk(loop) if isinstance(m_, ast.If) and "source is None" in unparse(m_.test)), None)
        add("c04-directive-output-source-not-stamped", R11, base, src_st, "pass", "nodes returned by the directive run")
    # the fallback line is this directive's line: a stale document.current_line / a 0-based value is not
    if loop is not None:
        asg = next((m_ for m_ in ast.walk(loop) if isinstance(m_, ast.Assign) and any(isinstance(t, ast.Attribute) and t.attr == "line" for t in m_.targets)), None)
        reset = find_stmt(f, lambda s: isinstance(s, ast.Assign) and any(isinstance(t, ast.Attribute) and t.attr == "current_line" for t in s.targets) and s.lineno < loop.lineno and s.lineno > min((x.lineno for x in f.local_nodes() if isinstance(x, ast.Assign) and any(isinstance(t, ast.Attribute) and t.attr == 'current_line' for t in x.targets)), default=0))
        if asg is not None and reset is not None and unparse(asg.value) != "self.document.current_line":
            seg_loop = ast.get_source_segment(base.src, loop)
            seg_asg = ast.get_source_segment(base.src, asg)
            seg_reset = ast.get_source_segment(base.src, reset)
            new_loop = seg_loop.replace(seg_asg, seg_asg.replace(ast.get_source_segment(base.src, asg.value), "self.document.current_line"), 1) + "\n" + " " * loop.col_offset + seg_reset
            src2 = splice(base.src, loop, new_loop)
            src2 = splice(src2, reset, "pass")
            out.append(Mutant("c04-output-stamped-from-stale-current-line", R9, base.rel, src2, expect="reads current_line after the nested run", canary=True))
            add("c04-output-stamped-with-zero-based-line", R11, base, asg.value, f"{unparse(asg.value)} - 1", "fallback line")
        else:
            out.append(("c04-output-stamped-from-stale-current-line", "stamping loop / current_line reset in run_directive changed shape"))
    f = base.func("DocutilsRenderer.render_restructuredtext")
    tr_ = find_stmt(f, lambda s: isinstance(s, ast.Try) and s.finalbody and "parse(" in unparse(s.body[0]))
    if tr_ is not None:
        out.append(Mutant("c04-revert-rst-line-function-removed", R11, base.rel, unwrap_try(f, tr_), expect="get_source_and_line"))
    else:
        out.append(("c04-revert-rst-line-function-removed", "try/finally around the eval-rst parse not found"))

    # ---- R2 (e) / synthetic text: classes of the two known findings, on other constructs
    f = base.func("DocutilsRenderer.run_directive")
    cb = find_node(f, lambda n: isinstance(n, ast.Call) and kwarg(n, "content_offset") is not None and kwarg(n, "state") is not None)
    co_ = kwarg(cb, "content_offset") if cb is not None else None
    add("c04-directive-offset-shifted-but-still-relative", R2, base, co_, f"{unparse(co_)} + 1" if co_ is not None else "", "is relative to the directive")
    h2 = corpus.mod("mdit_to_docutils.html_to_nodes")
    img = sorted((n for f_ in h2.functions.values() if not f_.is_lambda for n in f_.local_nodes() if isinstance(n, ast.Call) and isinstance(n.func, ast.Attribute) and n.func.attr == "run_directive"), key=lambda c: c.lineno)
    if img:
        a2 = arg_or_kw(img[0], 2, "content")
        add("c04-html-image-text-gets-a-body", R2, h2, a2, f'{unparse(a2)} + "\\n\\n" + child.render()' if a2 is not None else "", "synthetic directive text with a body")
    else:
        out.append(("c04-html-image-text-gets-a-body", "run_directive call in html_to_nodes not found"))

    # ---- R2 (d): positions inside a block include its content offset
    f = mk.func("MockState.block_quote")
    st = find_stmt(f, lambda s: isinstance(s, ast.Assign) and unparse(s.targets[0]) == "lineno")
    if st is not None and " + line_offset" in unparse(st.value):
        add("c04-attribution-line-drops-content-offset", R2, mk, st.value, unparse(st.value).replace(" + line_offset", "", 1), "content offset", canary=True)
    else:
        out.append(("c04-attribution-line-drops-content-offset", "attribution line no longer written as a sum with line_offset"))
    c = find_node(f, lambda n: isinstance(n, ast.Call) and isinstance(n.func, ast.Attribute) and n.func.attr == "get_source_and_line" and n.args and " + line_offset" in unparse(n.args[0]))
    add("c04-blockquote-line-drops-content-offset", R2, mk, c.args[0] if c is not None else None, unparse(c.args[0]).replace(" + line_offset", "", 1) if c is not None else "", "content offset")
    f = mk.func("MockState.nested_parse")
    c = _nrt_call(f)
    a = arg_or_kw(c, 1, "lineno") if c else None
    add("c04-nested-parse-drops-input-offset", R2, mk, a, "self._lineno", "nested_parse")

    # ---- R2: the text handed on keeps its leading lines
    f = mk.func("MockState.nested_parse")
    c = _nrt_call(f)
    t0 = arg_or_kw(c, 0, "text") if c else None
    add("c04-nested-parse-strips-blank-lines", R2, mk, t0, f'{unparse(t0)}.strip("\\n")' if t0 is not None else "", "text keeps its leading lines", canary=True)
    f = base.func("DocutilsRenderer.render_colon_fence")
    c = _nrt_call(f)
    t0 = arg_or_kw(c, 0, "text") if c else None
    add("c04-colon-fence-content-lstripped", R2, base, t0, f"{unparse(t0)}.lstrip()" if t0 is not None else "", "text keeps its leading lines")
    f = base.func("DocutilsRenderer.render_directive")
    c = find_node(f, lambda n: isinstance(n, ast.Call) and isinstance(n.func, ast.Attribute) and n.func.attr == "run_directive")
    t0 = arg_or_kw(c, 2, "content") if c is not None else None
    add("c04-directive-content-head-sliced", R2, base, t0, f"{unparse(t0)}[1:]" if t0 is not None else "", "text keeps its leading lines")

    # ---- R2 (f): a block handed on keeps / advances its content offset;  nested_render_text parses the text as given
    f = mk.func("MockState.block_quote")
    rec = find_node(f, lambda n: isinstance(n, ast.Call) and isinstance(n.func, ast.Attribute) and n.func.attr == "block_quote" and len(n.args) == 2)
    if rec is not None and isinstance(rec.args[1], ast.BinOp):
        add("c04-block-quote-rest-loses-content-offset", R2, mk, rec.args[1], unparse(rec.args[1].right), "carries the content offset", canary=True)
        add("c04-block-quote-rest-offset-not-advanced", R2, mk, rec.args[1], unparse(rec.args[1].left), "carries the content offset")
    else:
        out.append(("c04-block-quote-rest-loses-content-offset", "recursive block_quote call with offset + index not found"))
    # blank lines dropped from a copy of the rest instead of advancing the index the offset uses
    if rec is not None and isinstance(rec.args[0], ast.Subscript):
        ifst = next((a_ for a_ in ancestors(rec) if isinstance(a_, ast.If)), None)
        if ifst is not None:
            ind_ = " " * ifst.col_offset
            add(
                "c04-block-quote-rest-blank-lines-popped-uncounted",
                R2,
                mk,
                ifst,
                f"remaining = list({unparse(rec.args[0])})\n{ind_}while remaining and not remaining[0].strip():\n{ind_}    remaining.pop(0)\n{ind_}if remaining:\n{ind_}    elements += self.block_quote(remaining, {unparse(rec.args[1])})",
                "carries the content offset",
            )
    np_ = find_node(f, lambda n: isinstance(n, ast.Call) and isinstance(n.func, ast.Attribute) and n.func.attr == "nested_parse" and len(n.args) >= 2)
    add("c04-block-quote-body-parsed-at-offset-zero", R2, mk, np_.args[1] if np_ is not None else None, "0", "carries the content offset")
    f = base.func("DocutilsRenderer.nested_render_text")
    pcs = sorted((n for n in f.local_nodes() if isinstance(n, ast.Call) and isinstance(n.func, ast.Attribute) and n.func.attr == "parse" and "self.md" in unparse(n.func.value) and n.args), key=lambda c: c.lineno)
    if pcs:
        a0 = pcs[0].args[0]
        tn_ = next((x for x in ast.walk(a0) if isinstance(x, ast.Name) and x.id in f.params), None)
        add("c04-nested-text-leading-blank-lines-dropped-before-parse", R2, base, tn_, f'{tn_.id}.lstrip("\\n")' if tn_ is not None else "", "parses the text with its leading lines")
        if len(pcs) > 1:
            a1 = pcs[-1].args[0]
            tn1 = next((x for x in ast.walk(a1) if isinstance(x, ast.Name) and x.id in f.params), None)
            add("c04-nested-text-stripped-before-parse", R2, base, tn1, f"{tn1.id}.strip()" if tn1 is not None else "", "parses the text with its leading lines")
    else:
        out.append(("c04-nested-text-leading-blank-lines-dropped-before-parse", "markdown-it parse call in nested_render_text not found"))

    # ---- R8: line-dependent results cached under a line-free key
    f = dm.func("parse_directive_text")
    st = find_stmt(f, lambda s: isinstance(s, ast.Assign) and isinstance(s.value, ast.Call) and unparse(s.value.func) == "_parse_directive_options")
    if st is not None:
        ind_ = " " * st.col_offset
        seg = ast.get_source_segment(dm.src, st.value)
        src2 = splice(dm.src, st, f"key = (directive_class, content, validate_options, str(additional_options))\n{ind_}result = _OPTIONS_CACHE.get(key) or {seg}\n{ind_}_OPTIONS_CACHE[key] = result")
        src2 = src2.replace("@dataclass\nclass ParseWarnings:", "_OPTIONS_CACHE: dict = {}\n\n\n@dataclass\nclass ParseWarnings:", 1)
        out.append(Mutant("c04-option-block-cache-key-without-line", R8, dm.rel, src2, expect="_OPTIONS_CACHE", canary=True))
    else:
        out.append(("c04-option-block-cache-key-without-line", "call of _parse_directive_options not found"))
    f = base.func("DocutilsRenderer.run_directive")
    st = find_stmt(f, lambda s: isinstance(s, ast.Assign) and isinstance(s.value, ast.Call) and unparse(s.value.func) == "parse_directive_text")
    if st is not None:
        seg = ast.get_source_segment(base.src, st.value)
        add("c04-parsed-directive-cached-per-text", R8, base, st.value, f"self.document.settings.__dict__.setdefault('_myst_parsed', {{}}).setdefault((name, first_line, content), {seg})", "parse_directive_text")
    else:
        out.append(("c04-parsed-directive-cached-per-text", "call of parse_directive_text not found"))

    # ---- R9: the anchor of a shared mock state is not moved
    f = base.func("DocutilsRenderer.run_directive")
    st = find_stmt(f, lambda s: isinstance(s, ast.Assign) and isinstance(s.value, ast.Call) and unparse(s.value.func) == "MockState")
    if st is not None:
        ind_ = " " * st.col_offset
        tn = unparse(st.targets[0])
        add("c04-mock-state-shared-and-repositioned", R9, base, st, f"{tn} = getattr(self, '_shared_state', None) or {unparse(st.value)}\n{ind_}self._shared_state = {tn}\n{ind_}{tn}._lineno = position", "_lineno", canary=True)
    else:
        out.append(("c04-mock-state-shared-and-repositioned", "MockState construction in run_directive not found"))
    f = mk.func("MockState.nested_parse")
    c = _nrt_call(f)
    a = arg_or_kw(c, 1, "lineno") if c else None
    stc_ = get_cfg(f).stmt_of(c) if c is not None else None
    if stc_ is not None and a is not None and "input_offset" in unparse(a):
        src2 = splice(mk.src, a, "self._lineno")
        wst = next((x for x in ancestors(c) if isinstance(x, ast.With)), None)
        if wst is not None:
            src2 = splice(src2, wst.items[0].context_expr, ast.get_source_segment(mk.src, wst.items[0].context_expr))  # no-op keeps offsets simple
        first = f.node.body[1] if isinstance(f.node.body[0], ast.Expr) and isinstance(getattr(f.node.body[0], "value", None), ast.Constant) else f.node.body[0]
        src2 = splice(src2, first, "self._lineno += input_offset\n" + " " * first.col_offset + ast.get_source_segment(mk.src, first))
        out.append(Mutant("c04-state-anchor-advanced-in-place", R9, mk.rel, src2, expect="_lineno"))
    else:
        out.append(("c04-state-anchor-advanced-in-place", "nested_parse call shape changed"))

    # ---- R9 (b) / R10: reverts, computable once the two baseline deviations are repaired (until then the rules fire on the tree itself)
    f = base.func("DocutilsRenderer.run_directive")
    cl = sorted((s for s in f.local_nodes() if isinstance(s, ast.Assign) and any(isinstance(t, ast.Attribute) and t.attr == "current_line" for t in s.targets)), key=lambda s: s.lineno)
    if len(cl) > 1:
        add("c04-revert-current-line-set-again-after-run", R9, base, cl[-1], "pass", "current_line")
    f = dm.func("parse_directive_text")
    bl = [s for s in f.local_nodes() if isinstance(s, ast.Assign) and unparse(s.targets[0]) == "body_lines" and isinstance(s.value, ast.Call) and isinstance(s.value.func, ast.Name) and len(s.value.args) == 1]
    if bl:
        st0 = sorted(bl, key=lambda s: s.lineno)[0]
        add("c04-revert-body-split-on-newline-only", R10, dm, st0.value, f"{unparse(st0.value.args[0])}.splitlines()", "splitlines")
    f = mk.func("MockIncludeDirective.run")
    cutst = find_stmt(f, lambda s: isinstance(s, ast.Assign) and unparse(s.targets[0]) == "file_content" and "startline:endline" in unparse(s.value).replace(" ", "") and ".splitlines()" not in unparse(s.value))
    if cutst is not None:
        inner = next((c for c in ast.walk(cutst.value) if isinstance(c, ast.Call) and isinstance(c.func, ast.Name) and len(c.args) == 1 and unparse(c.args[0]) == "file_content"), None)
        if inner is not None:
            add("c04-revert-included-text-split-on-newline-only", R10, mk, inner, "file_content.splitlines()", "splitlines")

    # ---- R12: 2c7edff (duplicate reference definitions of nested texts)
    f = base.func("DocutilsRenderer.nested_render_text")
    dloop = find_stmt(f, lambda s: isinstance(s, ast.For) and any(_raw_map_reads(kw.value) for c in ast.walk(s) if isinstance(c, ast.Call) for kw in c.keywords if kw.arg == "line"))
    if dloop is not None:
        sibs_ = getattr(parent(dloop), "body", [])
        dstmt = next((x for x in sibs_[sibs_.index(dloop) + 1 :] if isinstance(x, ast.Delete)), None) if dloop in sibs_ else None
        lkw = next(kw for c in ast.walk(dloop) if isinstance(c, ast.Call) for kw in c.keywords if kw.arg == "line")
        if dstmt is not None:
            src2 = splice(base.src, dstmt, "pass")
            src2 = splice(src2, dloop, "pass")
            out.append(Mutant("c04-revert-nested-duplicate-refs-reported-in-place", R12, base.rel, src2, expect="never reach the end-of-document report"))
            add("c04-nested-duplicate-refs-not-removed", R12, base, dstmt, "pass", "are removed from the shared env")
        else:
            out.append(("c04-revert-nested-duplicate-refs-reported-in-place", "removal of the reported records not found"))
        terms_ = [t_ for t_ in _sum_terms(lkw.value) if isinstance(t_, ast.Name)]
        add("c04-nested-duplicate-refs-line-without-start", R12, base, lkw.value, " + ".join(unparse(t_) for t_ in _sum_terms(lkw.value) if not isinstance(t_, ast.Name)), "reported at map +", canary=True)
        if isinstance(dloop.iter, ast.Subscript):
            add("c04-nested-duplicate-refs-reported-from-the-start", R12, base, dloop.iter, unparse(dloop.iter.value), "records of this parse")
    else:
        out.append(("c04-revert-nested-duplicate-refs-reported-in-place", "report loop not found in nested_render_text"))
    # ---- R11 (b): 78a9223 (line function set aside before the rST parse, restored after)
    f = base.func("DocutilsRenderer.render_restructuredtext")
    popst = find_stmt(f, lambda s: isinstance(s, ast.Assign) and isinstance(s.value, ast.Call) and isinstance(s.value.func, ast.Attribute) and s.value.func.attr == "pop" and "get_source_and_line" in unparse(s.value))
    trr = find_stmt(f, lambda s: isinstance(s, ast.Try) and s.finalbody and "parse(" in unparse(s.body[0]))
    if popst is not None and trr is not None:
        add("c04-revert-line-function-set-aside-before-rst-parse", R11, base, popst.value, 'getattr(self.reporter, "get_source_and_line", None)', "get_source_and_line")
        rest_ = next((x for x in trr.finalbody if isinstance(x, ast.If)), None)
        add("c04-line-function-not-restored-after-rst-parse", R11, base, rest_, "pass", "get_source_and_line")
        rm_ = next((x for x in trr.finalbody if isinstance(x, ast.Expr) and "pop(" in unparse(x)), None)
        add("c04-rst-line-function-left-behind", R11, base, rm_, "pass", "get_source_and_line")
    else:
        out.append(("c04-revert-line-function-set-aside-before-rst-parse", "set-aside / try-finally around the eval-rst parse not found"))
    # ---- R1: 6c6451a (line comments are stamped)
    f = base.func("DocutilsRenderer.render_myst_line_comment")
    stc_ = _stamp_stmt(f, "comment")
    add("c04-revert-line-comment-stamped", R1, base, stc_, "pass", "render_myst_line_comment")
    add("c04-line-comment-stamped-only-with-content", R1, base, stc_, "if token.content.strip():\n            self.add_line_and_source_path(comment, token)", "render_myst_line_comment")

    # ---- R7
    f = mk.func("MockIncludeDirective.run")
    aug = find_stmt(f, lambda s: isinstance(s, ast.AugAssign) and unparse(s.target) == "startline" and any(isinstance(a_, ast.For) for a_ in ancestors(s)))
    add("c04-start-after-overwrites-start-line", R7, mk, aug, f"startline = {unparse(aug.value)}" if aug is not None else "", "overwrites", canary=True)
    add("c04-start-after-cut-not-counted", R7, mk, aug, "pass", "cut file_content")
    # the counted prefix is shorter than the cut prefix (line breaks inside the marker are lost)
    sl_ = next((x for x in ast.walk(aug.value) if isinstance(x, ast.Subscript) and isinstance(x.slice, ast.Slice) and x.slice.upper is not None), None) if aug is not None else None
    if sl_ is not None and "len(" in unparse(sl_.slice.upper):
        add("c04-start-after-marker-lines-not-counted", R7, mk, sl_.slice.upper, unparse(sl_.slice.upper).split(" + len(")[0], "cut file_content")
    else:
        out.append(("c04-start-after-marker-lines-not-counted", "start-after count is no longer a slice up to index + len(marker)"))
    cut_ = None
    if aug is not None:
        sibs = getattr(parent(aug), "body", [])
        cut_ = next((x for x in sibs if isinstance(x, ast.Assign) and unparse(x.targets[0]) == "file_content"), None)
    if aug is not None and cut_ is not None and cut_.lineno > aug.lineno:
        src2 = splice(mk.src, cut_, "file_content = after")
        src2 = splice(src2, aug, "before, found, after = file_content.partition(split_on)\n" + " " * aug.col_offset + 'startline += before.count("\\n")')
        out.append(Mutant("c04-start-after-partition-counts-before-only", R7, mk.rel, src2, expect="cut file_content = after"))
    else:
        out.append(("c04-start-after-partition-counts-before-only", "start-after block shape changed"))
    st = find_stmt(f, lambda s: isinstance(s, ast.Assign) and unparse(s.targets[0]) == "startline" and (isinstance(s.value, ast.BoolOp) or ".indices(" in unparse(s.value)))
    add("c04-start-line-count-reset", R7, mk, st.value if st is not None else None, "0", "overwrites")
    # d006345: a negative start-line is normalised to the index of the first included line
    if st is not None and ".indices(" in unparse(st.value):
        add("c04-revert-negative-start-line-normalised", R7, mk, st.value, "startline or 0", "normalised")
        idx_ = next((x for x in ast.walk(st.value) if isinstance(x, ast.Subscript) and isinstance(x.slice, ast.Constant)), None)
        add("c04-start-line-takes-the-stop-index", R7, mk, idx_.slice if idx_ is not None else None, "1", "normalised")
        ln_ = next((x for x in ast.walk(st.value) if isinstance(x, ast.Call) and dotted(x.func) == "len"), None)
        add("c04-start-line-normalised-against-characters", R7, mk, ln_.args[0] if ln_ is not None else None, "file_content", "normalised")
        # normalised against the length of the already sliced list (the slice moved into the definition of the lines local)
        fl = find_stmt(f, lambda s: isinstance(s, ast.Assign) and unparse(s.targets[0]) == "file_lines" and isinstance(s.value, ast.Call))
        jn = find_stmt(f, lambda s: isinstance(s, ast.Assign) and unparse(s.targets[0]) == "file_content" and "file_lines[" in unparse(s.value))
        sub_ = next((x for x in ast.walk(jn.value) if isinstance(x, ast.Subscript) and isinstance(x.slice, ast.Slice)), None) if jn is not None else None
        if fl is not None and sub_ is not None and fl.lineno < jn.lineno:
            src2 = splice(mk.src, sub_, "file_lines")
            src2 = splice(src2, fl.value, f"{unparse(fl.value)}[{unparse(sub_.slice)}]")
            out.append(Mutant("c04-start-line-normalised-against-sliced-lines", R7, mk.rel, src2, expect="normalised"))
        else:
            out.append(("c04-start-line-normalised-against-sliced-lines", "lines local / joined slice of the include mock changed shape"))
    # the same defect with the lines of the file kept in a local first (the cut must still be seen)
    cut0 = find_stmt(f, lambda s: isinstance(s, ast.Assign) and unparse(s.targets[0]) == "file_content" and "startline:endline" in unparse(s.value).replace(" ", ""))
    sub0 = next((x for x in ast.walk(cut0.value) if isinstance(x, ast.Subscript) and isinstance(x.slice, ast.Slice)), None) if cut0 is not None else None
    if st is not None and cut0 is not None and sub0 is not None and not isinstance(sub0.value, ast.Name) and cut0.lineno < st.lineno:
        src2 = splice(mk.src, st.value, "0")
        src2 = splice(src2, cut0, f"kept_lines = {unparse(sub0.value)}\n" + " " * cut0.col_offset + ast.get_source_segment(mk.src, cut0).replace(ast.get_source_segment(mk.src, sub0.value), "kept_lines", 1))
        out.append(Mutant("c04-start-line-count-reset-with-hoisted-lines", R7, mk.rel, src2, expect="overwrites"))
    # else: the tree already keeps the lines in a local (covered by c04-start-line-count-reset)
    if st is not None:
        add("c04-included-text-leading-blank-lines-stripped", R7, mk, st, ast.get_source_segment(mk.src, st) + "\n" + " " * st.col_offset + 'file_content = file_content.lstrip("\\n")', "strips")

    f = base.func("DocutilsRenderer.dict_to_fm_field_list")
    st = find_stmt(f, lambda s: isinstance(s, ast.Assign) and unparse(s.targets[0]) == "field_node.source")
    if st is not None and unparse(st.value) != "value":
        add("c04-revert-front-matter-field-source", R5, base, st.value, "value", "field_node.source")
    else:
        out.append(("c04-revert-front-matter-field-source", stale))

    # ---- R13: producer and consumers of the content offset add the directive line exactly once between them
    f = base.func("DocutilsRenderer.run_directive")
    inst = find_node(f, lambda n: isinstance(n, ast.Call) and kwarg(n, "content_offset") is not None and kwarg(n, "lineno") is not None and kwarg(n, "state") is not None)
    co = kwarg(inst, "content_offset") if inst is not None else None
    ln = kwarg(inst, "lineno") if inst is not None else None
    relative = co is not None and ln is not None and unparse(ln) not in unparse(co)
    if relative:
        # the contract switched to docutils' absolute offset in the producer only: every consumer still adds the directive line
        add("c04-content-offset-made-absolute-consumers-left-behind", R13, base, co, f"{unparse(ln)} + {unparse(co)}", "anchored twice")
    else:
        out.append(("c04-content-offset-made-absolute-consumers-left-behind", "content_offset of the directive instantiation is already absolute (or the instantiation changed shape)"))
    f = mk.func("MockState.block_quote")
    gs = find_node(f, lambda n: isinstance(n, ast.Call) and isinstance(n.func, ast.Attribute) and n.func.attr == "get_source_and_line" and n.args)
    a = gs.args[0] if gs is not None else None
    anchor_terms = [t for t in (_sum_terms(a) if a is not None else []) if isinstance(t, ast.Attribute) and t.attr == "_lineno"]
    if relative and a is not None and anchor_terms:
        rest = [unparse(t) for t in _sum_terms(a) if t is not anchor_terms[0]]
        add("c04-block-quote-line-without-directive-line", R13, mk, a, " + ".join(rest), "block_quote|offset contract")
    else:
        out.append(("c04-block-quote-line-without-directive-line", "block quote line no longer adds the directive line itself"))
    f = mk.func("MockState.nested_parse")
    c = _nrt_call(f)
    a = arg_or_kw(c, 1, "lineno") if c else None
    anchor_terms = [t for t in (_sum_terms(a) if a is not None else []) if isinstance(t, ast.Attribute) and t.attr == "_lineno"]
    if relative and a is not None and anchor_terms and len(_sum_terms(a)) > 1:
        rest = [unparse(t) for t in _sum_terms(a) if t is not anchor_terms[0]]
        add("c04-nested-parse-renders-at-bare-offset", R13, mk, a, " + ".join(rest), "nested_parse|offset contract")
    else:
        out.append(("c04-nested-parse-renders-at-bare-offset", "nested_parse no longer adds the directive line itself"))
    return out
